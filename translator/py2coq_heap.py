#!/usr/bin/env python3
"""py2coq_heap.py -- fail-closed extractor: Python ast of the pacti sources -> effect program of coq/base/PyHeap.v.

Output: coq/gen/HeapGen.v with `Definition pacti_prog : prog` (one fundef per Python function / method / lambda /
synthesised constructor `C.__new_init__`) and `pacti_excluded`.  Every nested expression is flattened into temporaries
(`%tN`), every construct that is not classified raises `Unsupported`.  Claims (mutates_self, result, deep per class) are
INFERRED with a Python mirror of the Coq checker; the mirror is not trusted: Coq re-checks `check_prog pacti_prog`.

    python translator/py2coq_heap.py <repo> <out.v>      write the file
    python translator/py2coq_heap.py --tables [<repo>]   print the classification tables / claims / assumptions (markdown)
Only `ast` is used; pacti is never imported.
"""
from __future__ import annotations

import ast
import os
import sys

_main = sys.modules.get("__main__")
if _main is not None and str(getattr(_main, "__file__", "")).endswith("py2coq.py") and hasattr(_main, "Unsupported"):
    P = _main
else:
    sys.path.insert(0, os.path.dirname(os.path.abspath(__file__)))
    import py2coq as P  # type: ignore
Unsupported = P.Unsupported

FILES = [
    "iocontract/iocontract.py", "iocontract/compundiocontract.py", "terms/polyhedra/polyhedra.py",
    "terms/polyhedra/serializer.py", "terms/polyhedra/syntax/grammar.py", "terms/polyhedra/syntax/data.py",
    "contracts/polyhedral_iocontract.py", "utils/lists.py", "utils/fileio.py",
]
LEFT_OUT = ["utils/plots.py"]      # matplotlib/scipy.spatial plotting helpers: not extracted (reported)

# functions of the UNCHANGED source that write to an object they did not allocate (other than the top cell of self).
# They are absent from pacti_prog; a call site treats them as a WRITE to every argument.
EXCLUDED = {
    "NestedPolyhedra.__init__":
        "same reason as NestedTermList.__init__ (whose body it runs through `super().__init__`, inlined)",
    "NestedTermList.__init__":
        "as a stand-alone function it appends to the list it has just stored in `self.nested_termlist` (a cell other than the top cell of "
        "self, which the checker cannot see as new); the same body IS checked inside NestedTermList.__new_init__ and, inlined at "
        "`super().__init__`, inside NestedPolyhedra.__new_init__ / NestedPolyhedra.__init__ -- no call site names this function",
    "grammar._parse_number_and_variable":
        "parse action: `variable_term.factors[k] *= number` scales, in place, a PolyhedralSyntaxTermList built by an earlier parse action",
    "grammar._parse_factor_paren_terms":
        "parse action: `pt.constant *= f; pt.factors[k] *= f` scales, in place, a term list built by an earlier parse action",
    "grammar._parse_paren_abs_or_terms":
        "parse action: scales `atl.term_list` and every `at.coefficient` of an absolute-term list built by an earlier parse action, in place",
}

ASSUMPTIONS = [
    "A1 annotations are truthful: used to DROP call candidates / builtin alternatives (type narrowing) and to bind parameters "
    "annotated Var/str/int/float/bool/numeric (immutable) to an atom in the prologue; likewise a local/loop variable whose inferred type "
    "is immutable (element of a `List[Var]`, `range`/`enumerate` index, key of a `Dict[str, ...]`, result of len/float/str ...) is bound to an atom",
    "A2 `x[i] op= e` / `x.f op= e`: the in-place alternative on the loaded value is dropped only when the loaded value or e is known "
    "to be immutable (atom-typed), or x is a numpy array (elements of a numeric ndarray are scalars/views of the same buffer)",
    "A3 externals in FRESH_EXT/ATOM_EXT/ALIAS_EXT do not write to any existing cell (other than through the callbacks modelled at the call site)",
    "A4 Var objects are immutable (checked: no method of class Var other than __init__ assigns to self) and are modelled as atoms",
    "A5 an exception ends the function like a return of an atom; inside try bodies every primitive step is optional",
    "A6 dunder calls made by builtins (str/format/hash/==/in/sorted/set/dict keys/logging %s) are modelled on the operand and on its elements (depth 1)",
    "A7 `parse_string` of a module-level pyparsing object runs the parse actions registered at module level of grammar.py on tokens it allocates",
    "A9 a module-level name bound exactly once, to a literal list/tuple/set of constants (TACTICS_ORDER), holds immutable elements",
    "A8 module-level statements (pyparsing object construction in grammar.py, constants) are not library calls and are not extracted; "
    "module-level names are unbound in every function (status Other: reading gives an arbitrary value, writing is rejected)",
]

MUTATORS = ["append", "extend", "insert", "remove", "pop", "clear", "sort", "reverse", "update", "add", "discard", "setdefault",
            "popitem", "fill", "itemset", "resize", "put", "__setitem__", "__delitem__", "appendleft", "popleft", "write",
            "writelines", "close", "flush", "seek", "truncate", "intersection_update", "difference_update", "symmetric_difference_update"]
MUT_STORES_ARGS = ["append", "extend", "insert", "update", "add", "setdefault", "fill", "itemset", "put", "__setitem__", "appendleft",
                   "write", "writelines", "intersection_update", "difference_update", "symmetric_difference_update"]
MUT_RETURNS_ELEM = ["pop", "popitem", "setdefault", "popleft"]
# methods of builtin / external objects returning an immutable value
ATOM_METHODS = ["format", "join", "strip", "lstrip", "rstrip", "startswith", "endswith", "lower", "upper", "replace", "index", "count",
                "isdigit", "isnumeric", "isalpha", "find", "is_integer", "item", "isidentifier", "encode", "decode", "title", "zfill",
                "issubset", "issuperset", "isdisjoint", "all", "any", "sum", "max", "min", "mean", "read", "readline", "time"]
# ... returning a NEW object (holding what is reachable from receiver/arguments)
FRESH_METHODS = ["copy", "keys", "values", "items", "split", "splitlines", "tolist", "asList", "as_list", "as_coefficients_dict", "union",
                 "intersection", "difference", "symmetric_difference", "astype", "flatten", "dot", "transpose_copy", "readlines",
                 "expand", "subs", "evalf", "simplify", "as_dict", "asDict", "as_ordered_terms", "partition", "rpartition", "most_common"]
# ... that may return the receiver / an argument / something stored in them
ALIAS_METHODS = ["get", "reshape", "ravel", "squeeze", "view", "transpose", "swapaxes", "__getitem__", "__iter__", "__next__",
                 "__enter__", "set_name", "setName"]
EXT_ATOM_ATTRS = ["size", "ndim", "dtype", "itemsize", "nbytes", "success", "status", "message", "fun", "nit", "name", "lineno", "col",
                  "msg", "loc", "is_Number", "is_Symbol", "is_number"]   # attributes of external objects (ndarray, OptimizeResult, ...) holding immutable values
CALLBACK_METHODS = ["parse_string", "parseString"]          # run the registered parse actions (A7)
ATOM_EXT = ["len", "str", "float", "int", "bool", "isinstance", "issubclass", "hash", "repr", "type", "callable", "id", "ord", "chr",
            "format", "print", "time.time", "os.path.isfile", "os.path.exists", "os.path.join", "os.path.abspath", "os.path.dirname",
            "os.path.basename", "logging.debug", "logging.info", "logging.warning", "logging.error", "json.dumps", "math.atan2",
            "numpy.isclose?", "all", "any"]
FRESH_EXT = ["abs", "round", "sum", "sorted", "list", "dict", "set", "tuple", "frozenset", "range", "enumerate", "zip", "map", "filter",
             "reversed", "open", "itertools.product", "functools.reduce", "copy.deepcopy", "copy.copy", "json.load", "json.loads",
             "numpy.array", "numpy.zeros", "numpy.ones", "numpy.eye", "numpy.concatenate", "numpy.dot", "numpy.abs", "numpy.any",
             "numpy.all", "numpy.column_stack", "numpy.copy", "numpy.delete", "numpy.equal", "numpy.isclose", "numpy.linspace",
             "numpy.where", "numpy.vstack", "numpy.hstack", "numpy.append", "numpy.linalg.norm", "numpy.linalg.solve",
             "scipy.optimize.linprog", "sympy.solve", "sympy.symbols", "sympy.Symbol", "sympy.simplify", "sympy.expand",
             "pyparsing.ParseException", "ValueError", "TypeError", "KeyError", "AssertionError", "RuntimeError", "Exception",
             "IndexError", "NotImplementedError",
             "pacti.utils.errors.IncompatibleArgsError", "pacti.utils.errors.ContractFormatError",
             "pacti.utils.errors.PolyhedralSyntaxException", "pacti.utils.errors.PolyhedralSyntaxConvexException",
             "pacti.utils.errors.FileDataFormatError"]
ALIAS_EXT = ["min", "max", "next", "iter", "getattr", "typing.cast", "numpy.asarray", "numpy.atleast_1d", "numpy.atleast_2d",
             "numpy.squeeze", "numpy.reshape", "numpy.ravel", "numpy.transpose"]
ATOM_ANNOT = ["Var", "str", "int", "float", "bool", "numeric", "complex", "bytes", "None", "Var_t"]
CONT_ANNOT = ["List", "Dict", "Set", "Tuple", "list", "dict", "set", "tuple", "Sequence", "Iterable", "FrozenSet", "frozenset",
              "Mapping", "Iterator", "TypedDict"]
BINOP_DUNDER = {"Add": "add", "Sub": "sub", "Mult": "mul", "Div": "truediv", "FloorDiv": "floordiv", "Mod": "mod", "Pow": "pow",
                "BitAnd": "and", "BitOr": "or", "BitXor": "xor", "LShift": "lshift", "RShift": "rshift", "MatMult": "matmul"}
CMP_DUNDER = {"Eq": ["__eq__"], "NotEq": ["__ne__", "__eq__"], "Lt": ["__lt__", "__gt__"], "LtE": ["__le__", "__ge__"],
              "Gt": ["__gt__", "__lt__"], "GtE": ["__ge__", "__le__"], "In": ["__contains__", "__eq__", "__hash__"],
              "NotIn": ["__contains__", "__eq__", "__hash__"], "Is": [], "IsNot": []}
STR_DUNDERS = ["__str__", "__repr__", "__format__"]
HASH_DUNDERS = ["__hash__", "__eq__"]
ORDER_DUNDERS = ["__lt__", "__gt__", "__le__", "__ge__"]
# dunders that would change the meaning of plain syntax: a pacti class defining one of them is outside the subset
FORBIDDEN_DUNDERS = ["__getitem__", "__setitem__", "__delitem__", "__iter__", "__next__", "__len__", "__bool__", "__contains__",
                     "__enter__", "__exit__", "__call__", "__getattr__", "__getattribute__", "__setattr__", "__delattr__", "__del__",
                     "__copy__", "__deepcopy__", "__reduce__", "__neg__", "__pos__", "__invert__", "__index__", "__float__", "__int__",
                     "__new__", "__init_subclass__", "__set_name__", "__get__", "__set__", "__format__", "__iadd__", "__isub__",
                     "__imul__", "__ior__", "__iand__", "__ixor__", "__itruediv__", "__class_getitem__"]
ALLOWED_DECOS = {"staticmethod", "classmethod", "property", "abstractmethod", "dataclass", "dataclasses.dataclass"}
BANNED_NAMES = {"setattr", "delattr", "exec", "eval", "vars", "globals", "locals", "__import__", "compile", "object.__setattr__"}
EXT_MODULES = {"numpy", "pyparsing", "json", "os", "re", "logging", "sympy", "time", "dataclasses", "copy", "math", "scipy",
               "itertools", "functools", "typing", "enum", "abc", "pacti.utils.errors", "__future__"}


CURRENT = [""]


def fail(node, msg):
    raise Unsupported(f"heap extractor: {CURRENT[0]} line {getattr(node, 'lineno', '?')}: {msg}: "
                      f"{ast.unparse(node)[:120] if isinstance(node, ast.AST) else node}")


# ------------------------------------------------------------------------------------------------ types (narrowing only)
# None = unknown | 'atom' | 'ext' (external object: ndarray, ParseResults, file ...) | ('cls', frozenset(names))
# | ('cont', elem, key) builtin container | ('tup', [tys]) | ('fn', fname) | 'bot' (element type of an empty literal)
def tjoin(a, b):
    if a == "bot":
        return b
    if b == "bot" or a == b:
        return a
    if a is None or b is None:
        return None
    if nonpacti(a) and nonpacti(b) and not (isinstance(a, tuple) and isinstance(b, tuple) and a[0] == b[0] and a[0] != "fn"):
        return "np"
    if isinstance(a, tuple) and isinstance(b, tuple) and a[0] == b[0]:
        if a[0] == "cls":
            return ("cls", a[1] | b[1])
        if a[0] == "cont":
            return ("cont", tjoin(a[1], b[1]), tjoin(a[2], b[2]))
        if a[0] == "tup" and len(a[1]) == len(b[1]):
            return ("tup", [tjoin(x, y) for x, y in zip(a[1], b[1])])
    return "np" if nonpacti(a) and nonpacti(b) else None


def is_cont(t):
    return isinstance(t, tuple) and t[0] in ("cont", "tup")


def elem_ty(t, key=False):
    if isinstance(t, tuple) and t[0] == "cont":
        r = t[2] if key else t[1]
        return None if r == "bot" else ("atom" if r == "nokey" else r)
    if isinstance(t, tuple) and t[0] == "tup":
        r = None
        for i, x in enumerate(t[1]):
            r = x if i == 0 else tjoin(r, x)
        return r
    if t == "atom":
        return "atom"
    return None


def iter_ty(t):
    """type of what iteration over a value of type t yields (dict: keys)"""
    if isinstance(t, tuple) and t[0] == "cont" and t[2] != "nokey":
        return None if t[2] == "bot" else t[2]
    return elem_ty(t) if t != "atom" else None


def nonpacti(t):
    """the value is known not to be an instance of a pacti class"""
    return t in ("atom", "ext", "np") or is_cont(t) or (isinstance(t, tuple) and t[0] == "fn")


class Fun:
    def __init__(self, name, node, cls, kind, file, mod):
        self.name, self.node, self.cls, self.kind, self.file, self.mod = name, node, cls, kind, file, mod
        self.params, self.body = [], None
        self.outer = None


class Cls:
    def __init__(self, name, node, mod):
        self.name, self.node, self.mod = name, node, mod
        self.bases, self.methods, self.fields, self.dataclass, self.enum = [], {}, [], False, False


# ------------------------------------------------------------------------------------------------ the closed world
class World:
    def __init__(self, repo):
        self.repo = repo
        self.classes, self.funs, self.modfuns = {}, {}, {}      # modfuns: (mod, bare) -> fname ; bare -> [fname]
        self.imports = {}            # mod -> {local name: dotted origin}
        self.typevars, self.aliases = {}, {}
        self.callbacks = {}          # mod -> [fname] functions referenced by module-level statements (parse actions)
        self.modglobals = {}         # mod -> set of module-level assigned names
        self.field_ty = {}           # (cls, field) -> type, inferred from the stores in __init__ (first run)
        self.plain_attrs, self.props = set(), set()
        self.lambdas = []            # (Fun) extracted nested functions / lambdas
        self.trees = {}
        for f in FILES:
            path = os.path.join(repo, "src", "pacti", f)
            mod = os.path.basename(f)[:-3]
            try:
                tree = ast.parse(open(path).read())
            except (OSError, SyntaxError) as ex:
                raise Unsupported(f"heap extractor: cannot parse {path}: {ex}")
            self.trees[mod] = (f, tree)
        for mod, (f, tree) in self.trees.items():
            self.scan_module(mod, f, tree)
        for c in self.classes.values():
            for m in c.methods:
                if m in FORBIDDEN_DUNDERS:
                    fail(c.methods[m].node, f"class {c.name} defines {m}: outside the subset")
        self.check_var_immutable()

    def scan_module(self, mod, f, tree):
        imps, globs = {}, set()
        self.imports[mod], self.modglobals[mod], self.callbacks[mod] = imps, globs, []
        for s in tree.body:
            if isinstance(s, ast.Import):
                for a in s.names:
                    imps[a.asname or a.name.split(".")[0]] = a.name if a.asname else a.name.split(".")[0]
            elif isinstance(s, ast.ImportFrom):
                for a in s.names:
                    imps[a.asname or a.name] = f"{s.module}.{a.name}"
            elif isinstance(s, ast.FunctionDef):
                self.add_fun(f"{mod}.{s.name}", s, None, "function", f, mod)
                self.modfuns[(mod, s.name)] = f"{mod}.{s.name}"
            elif isinstance(s, ast.ClassDef):
                self.scan_class(s, mod, f)
            elif isinstance(s, (ast.Assign, ast.AnnAssign, ast.AugAssign, ast.Expr)):
                tg = s.targets if isinstance(s, ast.Assign) else ([s.target] if not isinstance(s, ast.Expr) else [])
                for t in tg:
                    for n in ast.walk(t):
                        if isinstance(n, ast.Name):
                            globs.add(n.id)
                v = s.value
                if isinstance(s, ast.Assign) and len(tg) == 1 and isinstance(tg[0], ast.Name):
                    if isinstance(v, ast.Call) and isinstance(v.func, ast.Name) and v.func.id == "TypeVar":
                        b = [k.value for k in v.keywords if k.arg == "bound"]
                        self.typevars[tg[0].id] = b[0].value if b and isinstance(b[0], ast.Constant) else (
                            b[0].id if b and isinstance(b[0], ast.Name) else None)
                    else:
                        self.aliases.setdefault(tg[0].id, v)
                if v is not None:
                    self.scan_module_expr(v, mod, f)
            elif isinstance(s, (ast.If, ast.Try, ast.For, ast.While, ast.With)):
                fail(s, "module-level control flow")
            else:
                fail(s, "module-level statement")

    def scan_module_expr(self, v, mod, f):
        """module-level object construction is not extracted (A8); the functions it references (parse actions) are callbacks"""
        for n in ast.walk(v):
            if isinstance(n, ast.Lambda):
                name = f"{mod}.<lambda@{n.lineno}>"
                fn = self.add_fun(name, n, None, "lambda", f, mod)
                self.callbacks[mod].append(name)
            elif isinstance(n, ast.Name) and n.id in BANNED_NAMES:
                fail(n, "banned name at module level")
        self.pending_cb = getattr(self, "pending_cb", [])
        self.pending_cb.append((mod, v))

    def finish_callbacks(self):
        for mod, v in getattr(self, "pending_cb", []):
            for n in ast.walk(v):
                if isinstance(n, ast.Name) and (mod, n.id) in self.modfuns and self.modfuns[(mod, n.id)] not in self.callbacks[mod]:
                    self.callbacks[mod].append(self.modfuns[(mod, n.id)])

    def add_fun(self, name, node, cls, kind, f, mod):
        if name in self.funs:
            fail(node, f"function {name} defined twice")
        fn = Fun(name, node, cls, kind, f, mod)
        self.funs[name] = fn
        return fn

    def scan_class(self, s, mod, f):
        if s.name in self.classes:
            fail(s, "class defined twice")
        c = Cls(s.name, s, mod)
        self.classes[s.name] = c
        for d in s.decorator_list:
            dn = ast.unparse(d.func if isinstance(d, ast.Call) else d)
            if dn not in ALLOWED_DECOS:
                fail(d, "class decorator")
            if dn.endswith("dataclass"):
                c.dataclass = True
        for b in s.bases:
            bn = b.value.id if isinstance(b, ast.Subscript) and isinstance(b.value, ast.Name) else (b.id if isinstance(b, ast.Name) else None)
            if bn is None:
                fail(b, "base class expression")
            if bn == "Enum":
                c.enum = True
            c.bases.append(bn)
        if s.keywords:
            fail(s, "class keywords (metaclass)")
        for m in s.body:
            if isinstance(m, ast.FunctionDef):
                kind = "method"
                for d in m.decorator_list:
                    dn = ast.unparse(d)
                    if dn not in ALLOWED_DECOS:
                        fail(d, "decorator")
                    if dn in ("staticmethod", "classmethod", "property"):
                        kind = dn
                if kind == "classmethod":
                    fail(m, "classmethod (not needed by the sources so far)")
                if kind == "property":
                    self.props.add(m.name)
                c.methods[m.name] = self.add_fun(f"{s.name}.{m.name}", m, s.name, kind, f, mod)
            elif isinstance(m, ast.AnnAssign) and isinstance(m.target, ast.Name):
                c.fields.append((m.target.id, m.annotation, m.value))
                self.plain_attrs.add(m.target.id)
            elif isinstance(m, ast.Assign):
                for t in m.targets:
                    if not isinstance(t, ast.Name):
                        fail(m, "class-level assignment target")
                    self.plain_attrs.add(t.id)
                self.scan_module_expr(m.value, mod, f)       # e.g. the TACTICS table: its lambdas are extracted
            elif isinstance(m, ast.Expr) and isinstance(m.value, ast.Constant):
                pass
            elif isinstance(m, ast.Pass):
                pass
            else:
                fail(m, "class body statement")
        for n in ast.walk(s):
            if isinstance(n, ast.Attribute) and isinstance(n.ctx, ast.Store):
                self.plain_attrs.add(n.attr)

    def check_var_immutable(self):
        c = self.classes.get("Var")
        if c is None:
            return
        for mname, fn in c.methods.items():
            if mname == "__init__":
                continue
            for n in ast.walk(fn.node):
                if isinstance(n, (ast.Attribute, ast.Subscript)) and isinstance(n.ctx, (ast.Store, ast.Del)):
                    fail(n, "class Var is not immutable (A4): a method other than __init__ stores")
                if isinstance(n, ast.Call) and isinstance(n.func, ast.Attribute) and n.func.attr in MUTATORS:
                    fail(n, "class Var is not immutable (A4): a method other than __init__ calls a mutator")

    def global_ty(self, mod, n):
        """A9: a module-level name bound exactly once, to a literal made of immutable constants"""
        vals = []
        for st in self.trees[mod][1].body:
            tg = st.targets if isinstance(st, ast.Assign) else ([st.target] if isinstance(st, (ast.AnnAssign, ast.AugAssign)) else [])
            for t in tg:
                if any(isinstance(x, ast.Name) and x.id == n for x in ast.walk(t)):
                    vals.append(st.value if isinstance(st, (ast.Assign, ast.AnnAssign)) and isinstance(t, ast.Name) else None)
        if len(vals) != 1 or vals[0] is None:
            return None
        v = vals[0]
        if const_default(v) and not isinstance(v, ast.Tuple):
            return "atom"
        if isinstance(v, (ast.List, ast.Tuple, ast.Set)) and all(const_default(x) and not isinstance(x, ast.Tuple) for x in v.elts):
            return ("cont", "atom", "nokey")
        return None

    # ---- class hierarchy
    def ancestors(self, c):
        out = []
        for b in self.classes[c].bases:
            if b in self.classes:
                out.append(b)
                out += self.ancestors(b)
        return out

    def descendants(self, c):
        return [d for d in self.classes if c in self.ancestors(d)]

    def mro(self, c):
        seen, out = set(), []
        for x in [c] + self.ancestors(c):
            if x not in seen:
                seen.add(x)
                out.append(x)
        return out

    def resolve(self, c, m):
        for x in self.mro(c):
            if m in self.classes[x].methods:
                return self.classes[x].methods[m]
        return None

    def family_defs(self, names, m):
        """definitions of m reachable by dynamic dispatch on a receiver whose static type is one of `names`"""
        out = []
        for c in sorted(names):
            for d in [c] + self.descendants(c):
                fn = self.resolve(d, m)
                if fn is not None and fn.name not in out:
                    out.append(fn.name)
        return out

    def all_defs(self, m):
        return [c.methods[m].name for c in self.classes.values() if m in c.methods]

    # ---- annotations
    def ann_ty(self, a, depth=0):
        if a is None or depth > 6:
            return None
        if isinstance(a, ast.Constant):
            if a.value is None:
                return "atom"
            if isinstance(a.value, str):
                try:
                    return self.ann_ty(ast.parse(a.value, mode="eval").body, depth + 1)
                except SyntaxError:
                    return None
            return None
        if isinstance(a, ast.Name):
            n = a.id
            if n in ATOM_ANNOT:
                return "atom"
            if n in self.classes:
                return "atom" if n == "Var" or self.classes[n].enum else ("cls", frozenset([n]))
            if n in self.typevars:
                b = self.typevars[n]
                return self.ann_ty(ast.Name(id=b), depth + 1) if b else None
            if n in CONT_ANNOT:
                return ("cont", None, None if n in ("Dict", "dict", "Mapping", "TypedDict") else "nokey")
            if n in self.aliases and n not in ("Any", "object"):
                return self.ann_ty(self.aliases[n], depth + 1)
            return None
        if isinstance(a, ast.Attribute):
            return "ext" if ast.unparse(a).split(".")[0] in ("np", "pp", "sympy", "numpy") else None
        if isinstance(a, ast.Subscript):
            h = ast.unparse(a.value).split(".")[-1]
            args = a.slice.elts if isinstance(a.slice, ast.Tuple) else [a.slice]
            if h == "Optional":
                return self.ann_ty(args[0], depth + 1)
            if h == "Union":
                ts = [self.ann_ty(x, depth + 1) for x in args]
                return ts[0] if all(t == ts[0] for t in ts) else None
            if h in ("Dict", "dict", "Mapping"):
                return ("cont", self.ann_ty(args[1], depth + 1) if len(args) > 1 else None, self.ann_ty(args[0], depth + 1))
            if h in ("Tuple", "tuple"):
                if len(args) == 2 and isinstance(args[1], ast.Constant) and args[1].value is Ellipsis:
                    return ("cont", self.ann_ty(args[0], depth + 1), "nokey")
                return ("tup", [self.ann_ty(x, depth + 1) for x in args])
            if h in CONT_ANNOT:
                return ("cont", self.ann_ty(args[0], depth + 1), "nokey")
            if h in ("TypedDict",):
                return ("cont", None, "atom")
            return None
        if isinstance(a, ast.Call):           # TypedDict("name", {...})
            return ("cont", None, None) if ast.unparse(a.func) == "TypedDict" else None
        return None


# ------------------------------------------------------------------------------------------------ model statements
def seq(l):
    l = [s for s in l if s != ("skip",)]
    return ("skip",) if not l else (l[0] if len(l) == 1 else ("seq", l))


def sif(a, b=("skip",)):
    return ("if", a, b)


def alts(l):
    """nondeterministic choice between the statements of l"""
    return l[0] if len(l) == 1 else ("if", l[0], alts(l[1:]))


PY_BUILTINS = {"len", "str", "float", "int", "bool", "isinstance", "issubclass", "hash", "repr", "type", "callable", "id", "ord", "chr",
               "format", "print", "all", "any", "abs", "round", "sum", "sorted", "list", "dict", "set", "tuple", "frozenset", "range",
               "enumerate", "zip", "map", "filter", "reversed", "open", "min", "max", "next", "iter", "getattr", "super", "ValueError",
               "TypeError", "KeyError", "AssertionError", "RuntimeError", "Exception", "IndexError", "NotImplementedError", "object"}


def params_of(node):
    a = node.args
    ps = [x.arg for x in a.posonlyargs + a.args]
    if a.vararg:
        ps.append(a.vararg.arg)
    ps += [x.arg for x in a.kwonlyargs]
    if a.kwarg:
        ps.append(a.kwarg.arg)
    return ps


def may_jump(s):
    """does the statement contain a break/continue that belongs to the enclosing loop?"""
    if isinstance(s, (ast.Break, ast.Continue)):
        return True
    if isinstance(s, (ast.For, ast.While, ast.FunctionDef, ast.Lambda, ast.ClassDef)):
        return any(may_jump(x) for x in getattr(s, "orelse", [])) if isinstance(s, (ast.For, ast.While)) else False
    for f in ("body", "orelse", "finalbody", "handlers"):
        for x in getattr(s, f, []) or []:
            if isinstance(x, ast.AST) and may_jump(x):
                return True
    return False


class Tx:
    """translation of ONE function body"""

    def __init__(self, w, fn, new_cls=None):
        self.w, self.fn, self.mod, self.cls, self.new_cls = w, fn, fn.mod, fn.cls, new_cls
        self.n, self.cn, self.ty, self.rename, self.out = 0, 0, {}, {}, []
        self.in_try = 0
        node = fn.node
        self.locals = set(params_of(node)) if node is not None else set()
        if node is not None:
            body = node.body if isinstance(node.body, list) else [node.body]
            self.collect_locals(body)

    def collect_locals(self, body):
        for s in body:
            for n in ast.walk(s):
                if isinstance(n, ast.Name) and isinstance(n.ctx, (ast.Store, ast.Del)):
                    self.locals.add(n.id)
                elif isinstance(n, ast.FunctionDef) and n is not s:
                    self.locals.add(n.name)
                elif isinstance(n, (ast.Global, ast.Nonlocal)):
                    fail(n, "global/nonlocal")
                elif isinstance(n, ast.ExceptHandler) and n.name:
                    self.locals.add(n.name)
            if isinstance(s, ast.FunctionDef):
                self.locals.add(s.name)

    # ---- plumbing
    def tmp(self):
        self.n += 1
        return f"%t{self.n}"

    def emit(self, s):
        self.out.append(s)

    def sub(self, thunk):
        save, self.out = self.out, []
        thunk()
        r, self.out = self.out, save
        return seq(r)

    def branch(self, thunks):
        """translate alternatives from the same type environment; join the environments afterwards"""
        t0, res, envs = dict(self.ty), [], []
        for th in thunks:
            self.ty = dict(t0)
            dead = []
            res.append(self.sub(lambda: dead.append(th())))
            if dead != [True]:                                  # a branch that always raises / returns does not reach the join
                envs.append(self.ty)
        if not envs:
            envs = [dict(t0)]
        j = {}
        for k in set().union(*[set(e) for e in envs]):
            v = envs[0].get(k)
            for e in envs[1:]:
                v = tjoin(v, e.get(k)) if (k in e and v is not None) else None
            j[k] = v if all(k in e for e in envs) else None
        self.ty = j
        return res

    def assign(self, x, e):
        self.emit(("assign", x, e))

    def atomv(self):
        return "%a"

    def touch(self, v, t, dunders, depth=1):
        """the builtin operation may call one of `dunders` on the value of v (and on its elements)"""
        if t == "atom" or t == "ext" or (isinstance(t, tuple) and t[0] == "fn"):
            return
        if not is_cont(t) and t != "np":
            names = []
            for d in dunders:
                names += self.w.family_defs(t[1], d) if isinstance(t, tuple) and t[0] == "cls" else self.w.all_defs(d)
            names = sorted(set(names))
            if names:
                r = self.tmp()
                self.emit(sif(self.call_stmt(r, names, [v])))
        if depth > 0 and (t is None or is_cont(t) or t == "np"):
            if t == "np":
                t = None
            et = elem_ty(t)
            kt = elem_ty(t, key=True) if isinstance(t, tuple) and t[0] == "cont" else et
            if t is not None and et == "atom" and kt in ("atom", None) and (kt == "atom" or t[0] == "tup"):
                return
            e = self.tmp()
            self.assign(e, ("elem", v))
            self.touch(e, tjoin(et, kt) if t is not None else None, dunders, depth - 1)

    def call_stmt(self, r, cands, args):
        """r = call of one of cands (EXCLUDED candidates: a write to every argument)"""
        ok = [c for c in cands if c not in EXCLUDED]
        al = []
        if ok:
            al.append(("assign", r, ("call", ok, list(args))))
        if len(ok) < len(cands):
            al.append(seq([("mut", a, []) for a in args] + [("assign", r, ("ext", list(args)))]))
        return alts(al)

    def place_args(self, cands, recv, pos, kws, static):
        """argument list: receiver, positionals, keywords at the position of the parameter when all candidates agree"""
        args = ([recv] if recv is not None else []) + list(pos)
        fns = [self.w.funs[c] for c in cands]
        for k, v in kws:
            idx = None
            if k is not None:
                ix = set()
                for f in fns:
                    ps = f.params
                    ix.add(ps.index(k) if k in ps else -1)
                if len(ix) == 1 and -1 not in ix and list(ix)[0] >= len(args):
                    idx = list(ix)[0]
            if idx is None:
                args.append(v)
            else:
                while len(args) < idx:
                    args.append(self.atomv())
                args.append(v)
        return args

    # ---- names
    def origin(self, name):
        return self.w.imports[self.mod].get(name)

    def dotted(self, e):
        """external dotted name of an attribute chain rooted at an imported external module, or None"""
        parts = []
        while isinstance(e, ast.Attribute):
            parts.append(e.attr)
            e = e.value
        if isinstance(e, ast.Name) and e.id not in self.locals and e.id not in self.rename:
            o = self.origin(e.id)
            if o is not None:
                return ".".join([o] + parts[::-1])
        return None

    def pacti_target(self, dotted):
        """a dotted origin inside pacti: ('cls', C) | ('fun', fname) | ('mod', m) | ('obj', m, name) | None"""
        if dotted is None or not dotted.startswith("pacti"):
            return None
        if dotted.startswith("pacti.utils.errors"):
            return None
        parts = dotted.split(".")
        last = parts[-1]
        if last in self.w.classes:
            return ("cls", last)
        if len(parts) >= 2 and parts[-2] in self.w.classes:
            return ("clsattr", parts[-2], last)
        if len(parts) >= 2 and (parts[-2], last) in self.w.modfuns:
            return ("fun", self.w.modfuns[(parts[-2], last)])
        if last in self.w.trees:
            return ("mod", last)
        if len(parts) >= 2 and parts[-2] in self.w.trees:
            if last in self.w.modglobals[parts[-2]]:
                return ("obj", parts[-2], last)
            if last in self.w.imports[parts[-2]]:
                return self.pacti_target(self.w.imports[parts[-2]][last])
        if len(parts) >= 3 and parts[-3] in self.w.trees and parts[-2] in self.w.modglobals[parts[-3]]:
            return ("objattr", parts[-3], parts[-2], last)
        cands = [f for (m, b), f in self.w.modfuns.items() if b == last]
        if len(cands) == 1:
            return ("fun", cands[0])
        if dotted.split(".")[-1] in ("iocontract", "polyhedra", "contracts", "terms"):
            return ("mod", last)
        fail(dotted, "unresolved pacti import")

    def fn_ty(self, t):
        """type of a function / class OBJECT (immutable value; calling it is a call of the function / constructor)"""
        if t[0] == "fun":
            return ("fn", t[1])
        c = self.w.classes[t[1]]
        return "atom" if c.enum or c.name == "Var" else ("fn", f"{c.name}.__new_init__")

    def name_var(self, e):
        """operand for a Name load"""
        n = e.id
        if n in BANNED_NAMES or n == "__dict__":
            fail(e, "banned name")
        if n in self.rename:
            return self.rename[n], self.ty.get(self.rename[n])
        if n in self.locals:
            return n, self.ty.get(n)
        if n in self.w.classes:
            return self.atomv(), self.fn_ty(("cls", n))
        if (self.mod, n) in self.w.modfuns:
            return self.atomv(), ("fn", self.w.modfuns[(self.mod, n)])
        if n in PY_BUILTINS:
            return self.atomv(), "atom"                      # a builtin function / class object: immutable
        o = self.origin(n)
        if o is not None:
            t = self.pacti_target(o)
            if t is not None and t[0] in ("cls", "fun"):
                return self.atomv(), self.fn_ty(t)
            if t is None or t[0] in ("mod",):
                return self.atomv(), "atom" if t is not None else None
            return f"{t[1]}.{t[2]}", "ext"                    # a module-level object of another pacti module: unbound -> Other
        if n in self.w.modglobals[self.mod]:
            return f"{self.mod}.{n}", self.w.global_ty(self.mod, n)      # module-level object: never bound -> Other
        if self.fn.outer is not None:
            return n, None                                   # captured variable of a nested function: unbound -> Other
        fail(e, "unknown name")

    # ---- expressions: returns (operand variable, type)
    def ex(self, e):
        m = getattr(self, "ex_" + type(e).__name__, None)
        if m is None:
            fail(e, f"expression kind {type(e).__name__}")
        return m(e)

    def fresh(self, expr, t=None):
        r = self.tmp()
        self.assign(r, expr)
        return r, t

    def ex_Constant(self, e):
        return self.atomv(), "atom"

    def ex_Name(self, e):
        return self.name_var(e)

    def ex_JoinedStr(self, e):
        for v in e.values:
            if isinstance(v, ast.FormattedValue):
                x, t = self.ex(v.value)
                self.touch(x, t, STR_DUNDERS)
                if v.format_spec is not None:
                    self.ex(v.format_spec)
            elif not isinstance(v, ast.Constant):
                fail(v, "f-string part")
        return self.atomv(), "atom"

    def ex_Attribute(self, e):
        if e.attr.startswith("__") and e.attr not in ("__name__",):
            fail(e, "dunder attribute access")
        d = self.dotted(e)
        if d is not None:
            t = self.pacti_target(d)
            if t is not None and t[0] == "objattr":
                return self.load_attr(f"{t[1]}.{t[2]}", "ext", t[3], e)
            if t is not None and t[0] == "clsattr":
                c = self.w.classes[t[1]]
                if c.enum:
                    return self.atomv(), "atom"
                if self.w.resolve(c.name, t[2]) is not None:
                    return self.atomv(), ("fn", self.w.resolve(c.name, t[2]).name)
                return f"{c.name}.{t[2]}", None
            if t is None or t[0] in ("cls", "fun", "mod"):
                if t is None and d.split(".")[0] not in EXT_MODULES and not d.startswith("pacti.utils.errors"):
                    fail(e, "attribute of an unknown module")
                return (self.atomv(), "atom") if t is not None else (d, None)     # external module attribute: unbound -> Other
            return f"{t[1]}.{t[2]}", "ext"
        if isinstance(e.value, ast.Name) and e.value.id in self.w.classes and e.value.id not in self.locals:
            c = self.w.classes[e.value.id]
            if c.enum:
                return self.atomv(), "atom"
            if self.w.resolve(c.name, e.attr) is not None:
                return self.atomv(), ("fn", self.w.resolve(c.name, e.attr).name)     # a function object
            return f"{c.name}.{e.attr}", None                # class attribute (e.g. the TACTICS table): unbound -> Other
        x, t = self.ex(e.value)
        return self.load_attr(x, t, e.attr, e)

    def load_attr(self, x, t, f, e):
        w = self.w
        if t == "atom" and f in w.props and f not in ("name",):
            pass
        if isinstance(t, tuple) and t[0] == "cls":
            props = [c for c in w.family_defs(t[1], f) if w.funs[c].kind == "property"]
            if props:
                if len(props) != len(w.family_defs(t[1], f)):
                    fail(e, "name is a property on some classes of the family and a method on others")
                r = self.tmp()
                self.emit(self.call_stmt(r, props, [x]))
                return r, self.ret_ty(props)
            ft = "bot"
            for c in sorted(t[1]):
                for d in w.mro(c) + w.descendants(c):
                    if (d, f) in w.field_ty:
                        ft = tjoin(ft, w.field_ty[(d, f)])
            if ("*", f) in w.field_ty and ft != "bot":
                ft = tjoin(ft, w.field_ty[("*", f)])
            return self.fresh(("attr", x, f), None if ft == "bot" else ft)
        if f in w.props and not (is_cont(t) or t == "ext"):
            props = [c for c in w.all_defs(f) if w.funs[c].kind == "property"]
            if t == "atom":                                   # a Var (A4): its properties are the only pacti candidates
                props = [c for c in props if w.funs[c].cls == "Var"] or props
            r = self.tmp()
            al = [self.call_stmt(r, props, [x])]
            if f in w.plain_attrs and t != "atom":
                al.append(("assign", r, ("attr", x, f)))
            self.emit(alts(al))
            return r, ("atom" if t == "atom" else None)
        if t == "atom":
            return self.fresh(("attr", x, f), None)
        if t == "ext" and f in EXT_ATOM_ATTRS:
            return self.atomv(), "atom"
        if t == "ext" and f == "shape":                        # a new tuple of ints
            return self.fresh(("ext", [x]), ("cont", "atom", "nokey"))
        if f == "T" or t == "ext":                            # numpy .T / attributes of external objects: views (alias)
            r = self.tmp()
            self.emit(alts([("assign", r, ("var", x)), ("assign", r, ("attr", x, f)), ("assign", r, ("elem", x))]))
            return r, ("ext" if t == "ext" else None)
        return self.fresh(("attr", x, f), None)

    def ret_ty(self, cands):
        t = "bot"
        for c in cands:
            fn = self.w.funs[c]
            a = fn.node.returns if fn.node is not None and not isinstance(fn.node, ast.Lambda) else None
            ct = self.w.ann_ty(a) if a is not None else None
            if fn.kind == "new":
                ct = ("cls", frozenset([fn.cls]))
            t = tjoin(t, ct)
        return None if t == "bot" else t

    def ex_Subscript(self, e):
        x, t = self.ex(e.value)
        sl = e.slice
        parts = sl.elts if isinstance(sl, ast.Tuple) else [sl]
        has_slice = False
        for p in parts:
            if isinstance(p, ast.Slice):
                has_slice = True
                for q in (p.lower, p.upper, p.step):
                    if q is not None:
                        self.ex(q)
            else:
                k, kt = self.ex(p)
                if not nonpacti(kt) or is_cont(kt):
                    self.touch(k, kt, HASH_DUNDERS)
        if has_slice and is_cont(t):
            ev = self.tmp()
            self.assign(ev, ("elem", x))
            return self.fresh(("new", False, [ev]), t)
        if has_slice or isinstance(sl, ast.Tuple):           # numpy views: alias
            r = self.tmp()
            self.emit(alts([("assign", r, ("var", x)), ("assign", r, ("elem", x))]))
            return r, t
        if t == "ext" and isinstance(sl, ast.Constant) and sl.value in EXT_ATOM_ATTRS:
            return self.atomv(), "atom"                           # res["fun"], res["status"] of an OptimizeResult
        et = elem_ty(t)
        if isinstance(t, tuple) and t[0] == "tup" and isinstance(sl, ast.Constant) and isinstance(sl.value, int) and 0 <= sl.value < len(t[1]):
            et = t[1][sl.value]
        return self.fresh(("elem", x), et)

    def container(self, elts, tup=False):
        vs, ts = [], []
        for el in elts:
            if isinstance(el, ast.Starred):
                x, t = self.ex(el.value)
                v, vt = self.fresh(("elem", x), elem_ty(t))
                tup = False
            else:
                v, vt = self.ex(el)
            vs.append(v)
            ts.append(vt)
        return vs, ts

    def ex_List(self, e):
        vs, ts = self.container(e.elts)
        t = "bot"
        for x in ts:
            t = tjoin(t, x)
        return self.fresh(("new", False, vs), ("cont", t, "nokey"))

    ex_Set = ex_List

    def ex_Tuple(self, e):
        vs, ts = self.container(e.elts)
        if any(isinstance(el, ast.Starred) for el in e.elts):
            return self.fresh(("new", False, vs), ("cont", None, "nokey"))
        site = f"{self.fn.name}@{e.lineno}:{e.col_offset}"    # deep claim per tuple site (tuples are never written afterwards)
        return self.fresh(("new", ("site", site), vs), ("tup", ts))

    def ex_Dict(self, e):
        vs, kt, vt = [], "bot", "bot"
        for k, v in zip(e.keys, e.values):
            if k is None:
                x, t = self.ex(v)
                y, _ = self.fresh(("elem", x))
                vs.append(y)
                kt, vt = tjoin(kt, elem_ty(t, True)), tjoin(vt, elem_ty(t))
                continue
            a, at = self.ex(k)
            self.touch(a, at, HASH_DUNDERS)
            b, bt = self.ex(v)
            vs += [a, b]
            kt, vt = tjoin(kt, at), tjoin(vt, bt)
        return self.fresh(("new", False, vs), ("cont", vt, kt))

    def comp(self, e, elts):
        r = self.tmp()
        self.assign(r, ("new", False, []))
        saved = dict(self.rename)
        res_t = ["bot", "bot"]

        def gen(i):
            if i == len(e.generators):
                vs = []
                for j, el in enumerate(elts):
                    v, t = self.ex(el)
                    vs.append(v)
                    res_t[j] = tjoin(res_t[j], t)
                    if len(elts) == 2 and j == 0:
                        self.touch(v, t, HASH_DUNDERS)
                self.emit(("mut", r, vs))
                return
            g = e.generators[i]
            if g.is_async:
                fail(e, "async comprehension")
            it, itt = self.ex(g.iter)
            for n in ast.walk(g.target):
                if isinstance(n, ast.Name):
                    self.cn += 1
                    self.rename[n.id] = f"{n.id}%c{self.cn}"

            def body():
                v, vt = self.fresh(("elem", it), iter_ty(itt))
                self.bind_target(g.target, v, vt)
                if g.ifs:
                    for c in g.ifs:
                        self.ex(c)
                    inner = self.sub(lambda: gen(i + 1))
                    self.emit(sif(inner))
                else:
                    gen(i + 1)
            self.loop(body)
        gen(0)
        self.rename = saved
        return r, res_t

    def ex_ListComp(self, e):
        r, t = self.comp(e, [e.elt])
        return r, ("cont", t[0], "nokey")

    ex_SetComp = ex_ListComp
    ex_GeneratorExp = ex_ListComp

    def ex_DictComp(self, e):
        r, t = self.comp(e, [e.key, e.value])
        return r, ("cont", t[1], t[0])

    def ex_IfExp(self, e):
        self.ex(e.test)
        r = self.tmp()
        ts = []

        def mk(b):
            def th():
                v, t = self.ex(b)
                ts.append(t)
                self.assign(r, ("var", v))
            return th
        a, b = self.branch([mk(e.body), mk(e.orelse)])
        self.emit(("if", a, b))
        return r, tjoin(ts[0], ts[1])

    def ex_BoolOp(self, e):
        r = self.tmp()
        v, t = self.ex(e.values[0])
        self.assign(r, ("var", v))
        for o in e.values[1:]:
            ts = []

            def th():
                y, yt = self.ex(o)
                ts.append(yt)
                self.assign(r, ("var", y))
            a, _ = self.branch([th, lambda: None])
            self.emit(sif(a))
            t = tjoin(t, ts[0])
        return r, t

    def ex_UnaryOp(self, e):
        v, t = self.ex(e.operand)
        if isinstance(e.op, ast.Not) or t == "atom":
            return self.atomv(), "atom"
        return self.fresh(("ext", [v]), t if t == "ext" else None)

    def binop(self, op, a, at, b, bt, node):
        """value of `a op b`"""
        if at == "atom" and bt == "atom":
            return self.atomv(), "atom"
        d = BINOP_DUNDER.get(op)
        if d is None:
            fail(node, "binary operator")
        if op == "Mod" and not (at == "atom" and False):
            self.touch(b, bt, STR_DUNDERS)                    # "…%s" % x
        cands = []
        if not nonpacti(at):
            cands += self.w.family_defs(at[1], f"__{d}__") if at is not None else self.w.all_defs(f"__{d}__")
        rc = []
        if not nonpacti(bt):
            rc = self.w.family_defs(bt[1], f"__r{d}__") if bt is not None else self.w.all_defs(f"__r{d}__")
        r = self.tmp()
        al = []
        if cands:
            al.append(self.call_stmt(r, cands, [a, b]))
        if rc:
            al.append(self.call_stmt(r, rc, [b, a]))
        rt = None
        if not (isinstance(at, tuple) and at[0] == "cls"):     # builtin alternative: number / new container of the elements
            if is_cont(at) or is_cont(bt) or at is None or bt is None:
                ea, eb = self.tmp(), self.tmp()
                al.append(seq([("assign", ea, ("elem", a)), ("assign", eb, ("elem", b)), ("assign", r, ("ext", [a, b, ea, eb]))]))
            else:
                al.append(("assign", r, ("ext", [a, b])))
            if is_cont(at) and is_cont(bt):
                rt = tjoin(at, bt)
            elif "ext" in (at, bt):
                rt = "ext"
            elif not cands and not rc:
                rt = "np"
        if not al:
            fail(node, "binary operator on a pacti object without a dunder definition")
        if not (isinstance(at, tuple) and at[0] == "cls") and not cands and not rc:
            pass
        elif cands and len(al) == 1:
            rt = self.ret_ty(cands)
        self.emit(alts(al))
        return r, rt

    def ex_BinOp(self, e):
        a, at = self.ex(e.left)
        b, bt = self.ex(e.right)
        return self.binop(type(e.op).__name__, a, at, b, bt, e)

    def ex_Compare(self, e):
        a, at = self.ex(e.left)
        allatom = True
        for op, c in zip(e.ops, e.comparators):
            b, bt = self.ex(c)
            on = type(op).__name__
            if on not in CMP_DUNDER:
                fail(e, "comparison operator")
            if on in ("In", "NotIn"):
                self.touch(a, at, HASH_DUNDERS, depth=0)
                if not (at == "atom" and elem_ty(bt) == "atom" and False):
                    self.touch(b, bt if bt is not None else None, ["__eq__", "__hash__"])
            elif CMP_DUNDER[on]:
                for (x, xt, y) in ((a, at, b), (b, bt, a)):
                    if nonpacti(xt) and not is_cont(xt):
                        continue
                    if is_cont(xt):
                        self.touch(x, xt, CMP_DUNDER[on])
                        continue
                    names = []
                    for dn in CMP_DUNDER[on]:
                        names += self.w.family_defs(xt[1], dn) if xt is not None else self.w.all_defs(dn)
                    if names:
                        r = self.tmp()
                        self.emit(sif(self.call_stmt(r, sorted(set(names)), [x, y])))
            if not (at == "atom" and bt == "atom") and on not in ("Is", "IsNot", "In", "NotIn"):
                allatom = False
            last = (a, b)
            a, at = b, bt
        if allatom:
            return self.atomv(), "atom"
        return self.fresh(("ext", list(last)), None)          # numpy comparisons build new arrays

    def ex_Lambda(self, e):
        return self.atomv(), ("fn", self.nested(e, f"<lambda@{e.lineno}>"))

    def ex_Starred(self, e):
        x, t = self.ex(e.value)
        return self.fresh(("elem", x), elem_ty(t))

    def nested(self, node, label):
        name = f"{self.fn.name}.{label}"
        if name not in self.w.funs:
            fn = self.w.add_fun(name, node, None, "lambda" if isinstance(node, ast.Lambda) else "function", self.fn.file, self.mod)
            fn.outer = self.fn.name
            fn.params = params_of(node)
            self.w.lambdas.append(fn)
        return name

    # ---- calls
    def args_of(self, e):
        pos, pts, kws, kts = [], [], [], []
        for a in e.args:
            v, t = self.ex(a)
            pos.append(v)
            pts.append(t)
        for k in e.keywords:
            v, t = self.ex(k.value)
            if k.arg is None:
                v, t = self.fresh(("elem", v), elem_ty(t))
            kws.append((k.arg, v))
            kts.append(t)
        return pos, pts, kws, kts

    def pacti_call(self, cands, recv, e, static=False):
        pos, pts, kws, kts = self.args_of(e)
        args = self.place_args(cands, recv, pos, kws, static)
        r = self.tmp()
        self.emit(self.call_stmt(r, cands, args))
        return r, self.ret_ty(cands)

    def new_cands(self, names):
        out = []
        for c in names:
            for d in [c] + self.w.descendants(c):
                if f"{d}.__new_init__" not in out:
                    out.append(f"{d}.__new_init__")
        return out

    def ex_Call(self, e):
        f = e.func
        if isinstance(f, ast.Name):
            n = f.id
            if n in BANNED_NAMES:
                fail(e, "banned call")
            if n in self.rename or n in self.locals:
                v, t = self.name_var(f)
                if isinstance(t, tuple) and t[0] == "fn":
                    return self.pacti_call([t[1]], None, e)
                fail(e, "call through a local name that is not bound to a nested function / lambda")
            if n in self.w.classes:
                return self.construct(n, e)
            if (self.mod, n) in self.w.modfuns:
                return self.pacti_call([self.w.modfuns[(self.mod, n)]], None, e)
            o = self.origin(n)
            if o is not None:
                t = self.pacti_target(o)
                if t is not None and t[0] == "cls":
                    return self.construct(t[1], e)
                if t is not None and t[0] == "fun":
                    return self.pacti_call([t[1]], None, e)
                if t is not None:
                    fail(e, "call of a pacti module-level object")
                return self.ext_call(o, e)
            if n in PY_BUILTINS:
                return self.ext_call(n, e)
            fail(e, "call of an unknown name")
        if isinstance(f, ast.Call):                            # type(x)(...)
            if isinstance(f.func, ast.Name) and f.func.id == "type" and len(f.args) == 1 and not f.keywords:
                x, t = self.ex(f.args[0])
                if not (isinstance(t, tuple) and t[0] == "cls"):
                    if not self.w.lenient:
                        fail(e, "type(x)(...) with x of unknown class")
                    t = ("cls", frozenset(c.name for c in self.w.classes.values() if not c.enum and not self.w.ancestors(c.name)))
                return self.pacti_call(self.new_cands(sorted(t[1])), None, e)
            fail(e, "call of a call result")
        if isinstance(f, ast.Subscript):                       # table of functions, e.g. PolyhedralTermList.TACTICS[i](...)
            tv, tt = self.ex(f)
            tab = f.value
            if isinstance(tab, ast.Attribute) and isinstance(tab.value, ast.Name) and tab.value.id in self.w.classes:
                c = self.w.classes[tab.value.id]
                for m in c.node.body:
                    if isinstance(m, ast.Assign) and any(isinstance(t, ast.Name) and t.id == tab.attr for t in m.targets) \
                            and isinstance(m.value, ast.Dict):
                        cands = []
                        for v in m.value.values:
                            if isinstance(v, ast.Lambda):
                                cands.append(f"{c.mod}.<lambda@{v.lineno}>")
                            elif isinstance(v, ast.Attribute) and isinstance(v.value, ast.Name) and v.value.id == c.name \
                                    and self.w.resolve(c.name, v.attr) is not None:
                                cands.append(self.w.resolve(c.name, v.attr).name)
                            elif isinstance(v, ast.Attribute) and v.attr == "__func__" and isinstance(v.value, ast.Name) \
                                    and v.value.id in c.methods and c.methods[v.value.id].kind == "staticmethod":
                                cands.append(c.methods[v.value.id].name)
                            elif isinstance(v, ast.Name) and v.id in c.methods:
                                cands.append(c.methods[v.id].name)
                            else:
                                fail(v, "entry of a class-level function table")
                        return self.pacti_call(cands, None, e)
            fail(e, "call through a subscript")
        if not isinstance(f, ast.Attribute):
            fail(e, "callee expression")
        m = f.attr
        if m in BANNED_NAMES or m in ("__setattr__", "__dict__", "__delattr__"):
            fail(e, "banned call")
        # super().m(...)
        if isinstance(f.value, ast.Call) and isinstance(f.value.func, ast.Name) and f.value.func.id == "super":
            if f.value.args or self.cls is None:
                fail(e, "super() with arguments")
            for b in self.w.mro(self.cls)[1:]:
                fn = self.w.classes[b].methods.get(m)
                if fn is not None and m == "__init__":
                    return self.inline_init(fn, e)
                if fn is not None:
                    return self.pacti_call([fn.name], self.rename.get("self", "self"), e)
            if m == "__init__":
                self.args_of(e)
                return self.atomv(), "atom"                    # object.__init__
            fail(e, "super() method not found in the extracted files")
        d = self.dotted(f)
        if d is not None:
            t = self.pacti_target(d)
            if t is None:
                return self.ext_call(d, e)
            if t[0] == "cls":
                return self.construct(t[1], e)
            if t[0] == "fun":
                return self.pacti_call([t[1]], None, e)
            if t[0] == "clsattr":
                fn = self.w.resolve(t[1], t[2])
                if fn is None:
                    fail(e, "method not found on the class")
                return self.pacti_call([fn.name], None, e, static=True)
            if t[0] == "objattr":
                return self.method_call(f"{t[1]}.{t[2]}", "ext", m, e, owner_mod=t[1])
            if t[0] != "mod":
                fail(e, "call target")
        if isinstance(f.value, ast.Name) and f.value.id not in self.locals and f.value.id not in self.rename:
            o = self.origin(f.value.id)
            tgt = self.pacti_target(o) if o else None
            cname = f.value.id if f.value.id in self.w.classes else (tgt[1] if tgt and tgt[0] == "cls" else None)
            if cname is not None:                              # C.m(...)
                fn = self.w.resolve(cname, m)
                if fn is None:
                    fail(e, "method not found on the class")
                return self.pacti_call([fn.name], None, e, static=True)
            if tgt is not None and tgt[0] == "obj":
                return self.method_call(f"{tgt[1]}.{tgt[2]}", "ext", m, e, owner_mod=tgt[1])
        x, t = self.ex(f.value)
        return self.method_call(x, t, m, e)

    inl = 0

    def inline_init(self, fn, e):
        """super().__init__(...): the body of the base class's __init__ runs on the same self (inlined, locals renamed)"""
        pos, pts, kws, kts = self.args_of(e)
        if any(k is None for k, _ in kws):
            fail(e, "**kwargs in super().__init__")
        a = fn.node.args
        if a.vararg or a.kwarg or a.kwonlyargs or a.posonlyargs:
            fail(e, "signature of the inlined __init__")
        for n in ast.walk(fn.node):
            if isinstance(n, ast.Return):
                fail(n, "return inside an inlined __init__")
        Tx.inl += 1
        sfx = f"%i{Tx.inl}"
        probe = Tx(self.w, fn)
        ren = {n: n + sfx for n in probe.locals}
        ren[fn.params[0]] = self.rename.get("self", "self")
        defaults = dict(zip(fn.params[len(fn.params) - len(a.defaults):], a.defaults))
        for i, (p, an) in enumerate(zip(fn.params[1:], a.args[1:])):
            kv = [(v, t) for (k, v), t in zip(kws, kts) if k == p]
            if i < len(pos):
                v, t = pos[i], pts[i]
            elif kv:
                v, t = kv[0]
            elif p in defaults and const_default(defaults[p]):
                v, t = self.atomv(), "atom"
            else:
                fail(e, "argument of the inlined __init__ is missing / has a computed default")
            at = self.w.ann_ty(an.annotation)
            self.assign(ren[p], ("atom",) if at == "atom" else ("var", v))
            self.ty[ren[p]] = at if at is not None else t
        saved = (self.rename, self.cls, self.mod, self.locals)
        self.rename, self.cls, self.mod, self.locals = ren, fn.cls, fn.mod, probe.locals
        self.block(fn.node.body, False)
        self.rename, self.cls, self.mod, self.locals = saved
        return self.atomv(), "atom"

    def construct(self, c, e):
        cl = self.w.classes[c]
        if c == "Var":
            self.args_of(e)
            return self.atomv(), "atom"
        if cl.enum:
            fail(e, "construction of an Enum member")
        return self.pacti_call([f"{c}.__new_init__"], None, e)

    def method_call(self, x, t, m, e, owner_mod=None):
        w = self.w
        if isinstance(t, tuple) and t[0] == "cls":
            cands = w.family_defs(t[1], m)
            if not cands:
                fail(e, f"method {m} not found on {sorted(t[1])} / sub / super classes")
            kinds = {w.funs[c].kind for c in cands}
            if kinds == {"staticmethod"}:
                return self.pacti_call(cands, None, e, static=True)
            if "staticmethod" in kinds or "property" in kinds:
                fail(e, "mixed static / instance candidates")
            return self.pacti_call(cands, x, e)
        cands = [] if nonpacti(t) else [c for c in w.all_defs(m) if w.funs[c].kind == "method"]
        if not nonpacti(t) and any(w.funs[c].kind == "staticmethod" for c in w.all_defs(m)):
            fail(e, f"receiver of unknown type and {m} is a static method somewhere")
        builtin = m in MUTATORS or m in ATOM_METHODS or m in FRESH_METHODS or m in ALIAS_METHODS or m in CALLBACK_METHODS
        if t is not None and isinstance(t, tuple) and t[0] == "fn":
            fail(e, "method call on a function object")
        if not cands and not builtin:
            fail(e, f"method {m}: neither a pacti method nor in the builtin tables")
        pos, pts, kws, kts = self.args_of(e)
        r = self.tmp()
        al, rt = [], "bot"
        if cands:
            al.append(self.call_stmt(r, cands, self.place_args(cands, x, pos, kws, False)))
            rt = tjoin(rt, self.ret_ty(cands))
        if builtin:
            save, self.out = self.out, []
            bt = self.builtin_method(r, x, t, m, pos, pts, kws, kts, e, owner_mod)
            al.append(seq(self.out))
            self.out = save
            rt = tjoin(rt, bt)
        self.emit(alts(al))
        return r, (None if rt == "bot" else rt)

    def callback(self, fv, ft, elemv, node):
        """an external runs the function value fv on elemv"""
        if isinstance(ft, tuple) and ft[0] == "fn":
            r = self.tmp()
            self.emit(sif(self.call_stmt(r, [ft[1]], [elemv])))
            return r
        if ft == "atom":
            return None                                        # a builtin / class object such as str, float
        fail(node, "callback argument that is not a lambda / nested function / builtin")

    def builtin_method(self, r, x, t, m, pos, pts, kws, kts, e, owner_mod):
        args = pos + [v for _, v in kws]
        if m in MUTATORS and t == "atom":
            fail(e, "mutator called on a value assumed immutable (A1/A4)")
        if m in MUTATORS:
            if m == "sort":
                self.touch(x, t, ORDER_DUNDERS)
                for (k, v), kt in zip(kws, kts):
                    if k == "key":
                        ev, _ = self.fresh(("elem", x), elem_ty(t))
                        self.callback(v, kt, ev, e)
            if m in ("remove", "discard", "add", "setdefault", "update", "pop") and not (m == "pop" and isinstance(t, tuple) and t[2] == "nokey"):
                for a, at in zip(pos, pts):
                    self.touch(a, at, HASH_DUNDERS, depth=0)
                self.touch(x, t, HASH_DUNDERS)
            extra = []
            if m in ("extend", "update", "intersection_update", "difference_update", "symmetric_difference_update"):
                for a in args:
                    ev, _ = self.fresh(("elem", a))
                    extra.append(ev)
            self.emit(("mut", x, (args + extra) if m in MUT_STORES_ARGS else []))
            if m in MUT_STORES_ARGS and isinstance(e.func, ast.Attribute):
                at = "bot"
                for a_t in pts + kts:
                    at = tjoin(at, a_t)
                self.record_elem_store(e.func.value, at if m in ("append", "add", "appendleft") else None)
            if m in MUT_RETURNS_ELEM:
                self.emit(alts([("assign", r, ("elem", x))] + [("assign", r, ("var", a)) for a in args]))
                return elem_ty(t)
            self.assign(r, ("atom",))
            return "atom"
        if m in ATOM_METHODS:
            if m in ("format", "join"):
                for a, at in zip(args, pts + kts):
                    self.touch(a, at, STR_DUNDERS)
            if m in ("index", "count"):
                self.touch(x, t, ["__eq__"])
            self.assign(r, ("atom",))
            return "atom"
        if m in FRESH_METHODS:
            if m in ("copy", "keys", "values", "items", "tolist", "asList", "as_list", "union", "intersection", "difference"):
                ev, _ = self.fresh(("elem", x))
                evs = [ev]
                for a in args:
                    ea, _ = self.fresh(("elem", a))
                    evs.append(ea)
                self.assign(r, ("new", False, evs))
                if m == "items" and isinstance(t, tuple) and t[0] == "cont":
                    return ("cont", ("tup", [elem_ty(t, True), elem_ty(t)]), "nokey")
                if m == "keys" and isinstance(t, tuple) and t[0] == "cont":
                    return ("cont", elem_ty(t, True), "nokey")
                if m == "values" and isinstance(t, tuple) and t[0] == "cont":
                    return ("cont", elem_ty(t), "nokey")
                if m == "copy":
                    return t
                return ("cont", None, "nokey") if m in ("keys", "values", "items", "tolist", "asList", "as_list") else None
            self.assign(r, ("ext", [x] + args))
            return ("cont", "atom", "nokey") if m in ("split", "splitlines") else None
        if m in CALLBACK_METHODS:
            cbs = []
            for mod, l in self.w.callbacks.items():
                if owner_mod is None or mod == owner_mod:
                    cbs += l
            self.assign(r, ("ext", [x] + args))
            if cbs:
                c = self.tmp()
                self.emit(("loop", seq([self.call_stmt(c, cbs, [r]), ("mut", r, [c])])))
            return "ext"
        # ALIAS_METHODS
        if m == "get":
            self.touch(pos[0], pts[0], HASH_DUNDERS, depth=0) if pos else None
        self.emit(alts([("assign", r, ("var", x)), ("assign", r, ("elem", x))] + [("assign", r, ("var", a)) for a in args]))
        if m == "get":
            return elem_ty(t) if len(pos) < 2 or pts[1] == "atom" and False else tjoin(elem_ty(t), pts[1] if len(pts) > 1 else "atom") if False else None
        return t if t == "ext" else None

    def ext_call(self, name, e):
        """call of a builtin / external function given by its (dotted) name"""
        base = name
        if name.startswith("pacti.utils.errors."):
            base = name
        known = base in ATOM_EXT or base in FRESH_EXT or base in ALIAS_EXT
        if not known:
            fail(e, f"external `{name}` is not in the ATOM_EXT / FRESH_EXT / ALIAS_EXT tables")
        if base in ("typing.cast",):
            if len(e.args) != 2 or e.keywords:
                fail(e, "cast")
            v, t = self.ex(e.args[1])
            return v, tjoin("bot", self.w.ann_ty(e.args[0])) or t
        pos, pts, kws, kts = self.args_of(e)
        args, ats = pos + [v for _, v in kws], pts + kts
        short = base.split(".")[-1]
        is_exc = short.endswith("Error") or short.endswith("Exception")
        if base in ("str", "repr", "format", "print") or base.startswith("logging.") or is_exc or base == "json.dumps":
            for a, at in zip(args, ats):
                self.touch(a, at, STR_DUNDERS)
        if base == "hash":
            for a, at in zip(args, ats):
                self.touch(a, at, ["__hash__"], depth=0)
        key = [(v, kt) for (k, v), kt in zip(kws, kts) if k == "key"]
        if base in ("sorted", "min", "max"):
            for a, at in zip(pos, pts):
                self.touch(a, at, ORDER_DUNDERS)
                for kv, kt in key:
                    ev, _ = self.fresh(("elem", a), elem_ty(at))
                    self.callback(kv, kt, ev, e)
        elif key:
            fail(e, "key= on an external that is not sorted/min/max")
        if base in ATOM_EXT:
            return self.atomv(), "atom"
        if base in ("set", "frozenset", "dict", "list", "tuple", "sorted", "reversed", "enumerate", "zip", "itertools.product", "range"):
            evs, ets = [], []
            for a, at in zip(pos, pts):
                ev, _ = self.fresh(("elem", a))
                evs.append(ev)
                ets.append(iter_ty(at))
                if base in ("set", "frozenset", "dict"):
                    self.touch(a, at, HASH_DUNDERS)
            r, _ = self.fresh(("new", False, evs + [v for _, v in kws if _ != "key"]))
            et = ets[0] if ets else "bot"
            if base == "range":
                return r, ("cont", "atom", "nokey")
            if base == "enumerate":
                return r, ("cont", ("tup", ["atom", et]), "nokey")
            if base == "zip":
                return r, ("cont", ("tup", ets), "nokey")
            if base == "dict":
                return r, (pts[0] if pts and isinstance(pts[0], tuple) and pts[0][0] == "cont" and pts[0][2] != "nokey" else ("cont", None, None))
            if base == "itertools.product":
                return r, ("cont", None, "nokey")
            return r, ("cont", et, "nokey")
        if base in ("map", "filter"):
            if len(pos) < 2:
                fail(e, "map/filter arity")
            evs = []
            for a, at in zip(pos[1:], pts[1:]):
                ev, _ = self.fresh(("elem", a), iter_ty(at))
                evs.append(ev)
                c = self.callback(pos[0], pts[0], ev, e)
                if c is not None:
                    evs.append(c)
            return self.fresh(("new", False, evs), ("cont", None, "nokey"))
        if base == "functools.reduce":
            if len(pos) < 2 or not (isinstance(pts[0], tuple) and pts[0][0] == "fn"):
                fail(e, "reduce with a function that is not a lambda / nested function")
            r = self.tmp()
            ev, _ = self.fresh(("elem", pos[1]))
            self.assign(r, ("var", pos[2] if len(pos) > 2 else ev))
            self.emit(("loop", seq([("assign", ev, ("elem", pos[1])), self.call_stmt(r, [pts[0][1]], [r, ev])])))
            return r, None
        if base in ("copy.copy",):
            ev, _ = self.fresh(("elem", pos[0]))
            return self.fresh(("new", False, [ev]), pts[0])
        if base in ALIAS_EXT:
            r = self.tmp()
            al = []
            for a in args:
                al += [("assign", r, ("var", a)), ("assign", r, ("elem", a)), ("assign", r, ("attr", a, "%any"))]
            if not al:
                fail(e, "alias external without arguments")
            self.emit(alts(al))
            return r, ("ext" if base.startswith("numpy.") else (elem_ty(pts[0]) if base in ("min", "max", "next") and len(pos) == 1 else None))
        r, _ = self.fresh(("ext", args))
        if base.startswith("numpy.") or base.startswith("scipy.") or base.startswith("sympy.") or base == "open" or is_exc:
            return r, "ext"
        if base == "copy.deepcopy":
            return r, pts[0]
        return r, None

    # ---- statements
    def bind_target(self, tg, v, t):
        if isinstance(tg, ast.Name):
            n = self.rename.get(tg.id, tg.id)
            if t == "atom":
                self.assign(n, ("atom",))                       # A1: a value known to be immutable
            elif n != v:
                self.assign(n, ("var", v))
            self.ty[n] = t
        elif isinstance(tg, (ast.Tuple, ast.List)):
            for i, el in enumerate(tg.elts):
                if isinstance(el, ast.Starred):
                    fail(tg, "starred assignment target")
                et = t[1][i] if isinstance(t, tuple) and t[0] == "tup" and i < len(t[1]) else elem_ty(t)
                ev, _ = self.fresh(("elem", v), et)
                self.bind_target(el, ev, et)
        elif isinstance(tg, ast.Attribute):
            if tg.attr in self.w.props or tg.attr.startswith("__"):
                fail(tg, "store to a property / dunder attribute")
            x, xt = self.ex(tg.value)
            if xt == "atom":
                fail(tg, "attribute store into a value assumed immutable (A1/A4)")
            self.emit(("setattr", x, tg.attr, v))
            self.record_store(xt, tg.attr, t)
        elif isinstance(tg, ast.Subscript):
            x, xt = self.ex(tg.value)
            if xt == "atom":
                fail(tg, "item store into a value assumed immutable (A1/A4)")
            ks = self.index_vars(tg.slice)
            self.emit(("mut", x, ks + [v]))
            self.refine_elem(tg.value, xt, t, key_t=self.last_key_ty)
            self.record_elem_store(tg.value, t)
        else:
            fail(tg, "assignment target")

    def record_store(self, xt, f, t):
        """field types used for narrowing are the join over EVERY store to that attribute name seen in the extracted files"""
        if self.dry or (self.w.lenient and (t is None or self.aug_store)):
            return          # run 0 only proposes a candidate F (optimistically); soundness rests on the verification of F in build()
        keys = [(c, f) for c in sorted(xt[1])] if isinstance(xt, tuple) and xt[0] == "cls" else [("*", f)]
        tgt = self.w.field_ty_aug if self.aug_store else self.w.field_ty_next
        for k in keys:
            tgt[k] = tjoin(tgt.get(k, "bot"), t)

    def record_elem_store(self, recv_node, t):
        """x.f[i] = v / x.f.append(v): the element type of the container held in field f is joined with the type of v"""
        if isinstance(recv_node, ast.Attribute):
            saved, self.out = self.out, []
            n0 = self.n
            bt = self.ex(recv_node.value)[1]
            self.out, self.n = saved, n0
            self.record_store(bt, recv_node.attr, ("cont", t, "bot"))

    def refine_elem(self, recv_node, xt, t, key_t):
        """a local container created empty gets its element type from what is stored"""
        if isinstance(recv_node, ast.Name) and isinstance(xt, tuple) and xt[0] == "cont":
            n = self.rename.get(recv_node.id, recv_node.id)
            if n in self.ty:
                self.ty[n] = ("cont", tjoin(xt[1], t), tjoin(xt[2], key_t) if (xt[2] == "bot" and key_t is not None) else xt[2])

    def index_vars(self, sl):
        ks = []
        for p in (sl.elts if isinstance(sl, ast.Tuple) else [sl]):
            if isinstance(p, ast.Slice):
                for q in (p.lower, p.upper, p.step):
                    if q is not None:
                        ks.append(self.ex(q)[0])
            else:
                k, kt = self.ex(p)
                self.last_key_ty = kt
                self.touch(k, kt, HASH_DUNDERS, depth=0)
                ks.append(self.atomv() if kt == "atom" else k)
        return ks

    dry = False
    aug_store = False
    last_key_ty = None

    def loop(self, body_thunk):
        """SLoop: the types at the head are the join over the iterations (computed by dry runs)"""
        for _ in range(6):
            t0 = dict(self.ty)
            saved = (self.n, self.cn, dict(self.rename), self.dry)
            self.dry = True
            self.sub(body_thunk)
            self.n, self.cn, self.rename, self.dry = saved
            j = {k: (tjoin(v, self.ty[k]) if k in self.ty else None) for k, v in t0.items()}
            self.ty = j
            if j == t0:
                break
        else:
            self.ty = {k: None for k in self.ty}
        t0 = dict(self.ty)
        b = self.sub(body_thunk)
        self.ty = {k: (tjoin(v, self.ty[k]) if k in self.ty else None) for k, v in t0.items()}
        self.emit(("loop", b))

    def block(self, stmts, in_loop):
        for i, s in enumerate(stmts):
            self.st(s, in_loop)
            if in_loop and may_jump(s) and i + 1 < len(stmts):
                rest = stmts[i + 1:]
                a, _ = self.branch([lambda: self.block(rest, in_loop), lambda: None])
                self.emit(sif(a))
                return

    def st(self, s, in_loop):
        if os.environ.get("HG_TRACE") == self.fn.name and not self.dry:
            print("TRACE", s.lineno, ast.unparse(s)[:60].replace("\n", " "), "::", {k: v for k, v in self.ty.items() if not k.startswith("%")}, file=sys.stderr)
        m = getattr(self, "st_" + type(s).__name__, None)
        if m is None:
            fail(s, f"statement kind {type(s).__name__}")
        m(s, in_loop)

    def st_Expr(self, s, il):
        if isinstance(s.value, ast.Constant):
            return
        if isinstance(s.value, (ast.Yield, ast.YieldFrom, ast.Await)):
            fail(s, "generator / coroutine")
        self.ex(s.value)

    def st_Pass(self, s, il):
        pass

    def st_Break(self, s, il):
        if not il:
            fail(s, "break outside a loop")

    st_Continue = st_Break

    def st_Assign(self, s, il):
        v, t = self.ex(s.value)
        for tg in s.targets:
            self.bind_target(tg, v, t)

    def st_AnnAssign(self, s, il):
        at = self.w.ann_ty(s.annotation)
        if s.value is None:
            if isinstance(s.target, ast.Name):
                self.ty[self.rename.get(s.target.id, s.target.id)] = at
            return
        v, t = self.ex(s.value)
        if at is not None and not (isinstance(at, tuple) and at[0] == "cont" and isinstance(t, tuple) and t[0] == "cont"):
            t = at
        elif isinstance(at, tuple) and at[0] == "cont" and isinstance(t, tuple) and t[0] == "cont":
            t = ("cont", at[1] if at[1] is not None else t[1], at[2] if at[2] is not None else t[2])
        self.bind_target(s.target, v, t)

    def st_AugAssign(self, s, il):
        op = type(s.op).__name__
        tg = s.target
        rv, rt = self.ex(s.value)
        if isinstance(tg, ast.Name):
            x, xt = self.name_var(tg)
            if x == self.atomv() or x not in (self.locals | set(self.rename.values())):
                fail(s, "augmented assignment to a name that is not a local")
            if xt == "atom":
                n, nt = self.binop(op, x, xt, rv, rt, s)
                self.assign(x, ("var", n))
                self.ty[x] = nt
                return

            def rebinding():
                n, nt = self.binop(op, x, xt, rv, rt, s)
                self.assign(x, ("var", n))
                self.ty[x] = tjoin(xt, nt) if nt is not None else None

            def inplace():
                ev, _ = self.fresh(("elem", rv))
                self.emit(("mut", x, [rv, ev]))
            a, b = self.branch([rebinding, inplace])
            self.emit(("if", a, b))
            return
        if isinstance(tg, (ast.Attribute, ast.Subscript)) and self.ex(tg.value)[1] == "atom":
            fail(s, "augmented store into a value assumed immutable (A1/A4)")
        if isinstance(tg, ast.Attribute):
            o, ot = self.ex(tg.value)
            if tg.attr in self.w.props:
                fail(s, "augmented assignment to a property")
            cur, ct = self.load_attr(o, ot, tg.attr, tg)
            store = lambda n, nt: (self.emit(("setattr", o, tg.attr, n)), self.record_store(ot, tg.attr, nt))
            numpy_recv = False
        elif isinstance(tg, ast.Subscript):
            o, ot = self.ex(tg.value)
            ks = self.index_vars(tg.slice)
            cur, ct = self.fresh(("elem", o), elem_ty(ot))
            store = lambda n, nt: (self.emit(("mut", o, ks + [n])), self.record_elem_store(tg.value, nt))
            numpy_recv = ot == "ext"
        else:
            fail(s, "augmented assignment target")
        n, nt = self.binop(op, cur, ct, rv, rt, s)
        self.aug_store = True
        store(n, nt)
        self.aug_store = False
        if not (ct == "atom" or rt == "atom" or numpy_recv):        # A2
            ev, _ = self.fresh(("elem", rv))
            self.emit(sif(("mut", cur, [rv, ev])))

    def st_Delete(self, s, il):
        for tg in s.targets:
            if isinstance(tg, ast.Name):
                continue
            if isinstance(tg, ast.Subscript):
                x, xt = self.ex(tg.value)
                ks = self.index_vars(tg.slice)
                self.emit(("mut", x, []))
            else:
                fail(s, "del of an attribute")

    def st_Return(self, s, il):
        if self.new_cls is not None:
            if s.value is not None and not (isinstance(s.value, ast.Constant) and s.value.value is None):
                fail(s, "__init__ returns a value")
            self.emit(("ret", "self"))
            return
        if s.value is None:
            self.emit(("ret", self.atomv()))
            return
        v, t = self.ex(s.value)
        self.emit(("ret", v))

    def st_Raise(self, s, il):
        if s.exc is not None:
            self.ex(s.exc)
        if s.cause is not None:
            self.ex(s.cause)
        self.emit(sif(("ret", self.atomv())) if self.in_try else ("ret", self.atomv()))

    def st_Assert(self, s, il):
        self.ex(s.test)
        self.ty.update(self.narrow(s.test)[0])                  # checked at run time: execution continues only if it holds
        if s.msg is not None:
            a, _ = self.branch([lambda: self.ex(s.msg), lambda: None])
            self.emit(sif(a))
        self.emit(sif(("ret", self.atomv())))

    def narrow(self, test):
        """(positive, negative) narrowing facts of an isinstance test: name -> type"""
        neg = False
        while isinstance(test, ast.UnaryOp) and isinstance(test.op, ast.Not):
            neg, test = not neg, test.operand
        if isinstance(test, ast.Call) and isinstance(test.func, ast.Name) and test.func.id == "isinstance" and len(test.args) == 2 \
                and isinstance(test.args[0], ast.Name) and "isinstance" not in self.locals:
            c = test.args[1]
            t = None
            if isinstance(c, ast.Name) and c.id not in self.locals:
                t = self.w.ann_ty(c) if (c.id in self.w.classes or c.id in ATOM_ANNOT or c.id in CONT_ANNOT) else None
                o = self.origin(c.id)
                if t is None and o and self.pacti_target(o) and self.pacti_target(o)[0] == "cls":
                    t = self.w.ann_ty(ast.Name(id=self.pacti_target(o)[1]))
            elif isinstance(c, ast.Call) and isinstance(c.func, ast.Name) and c.func.id == "type" and len(c.args) == 1 \
                    and isinstance(c.args[0], ast.Name):
                t = self.name_var(c.args[0])[1]
                t = t if isinstance(t, tuple) and t[0] == "cls" else None
            if t is not None:
                n = self.rename.get(test.args[0].id, test.args[0].id)
                return ({}, {n: t}) if neg else ({n: t}, {})
        return {}, {}

    def st_If(self, s, il):
        self.ex(s.test)
        pos, neg = self.narrow(s.test)

        def th(body, facts):
            def run():
                self.ty.update(facts)
                self.block(body, il)
                return bool(body) and isinstance(body[-1], (ast.Raise, ast.Return))
            return run
        a, b = self.branch([th(s.body, pos), th(s.orelse, neg)])
        self.emit(("if", a, b))
        exits = lambda body: bool(body) and isinstance(body[-1], (ast.Raise, ast.Return))
        if exits(s.body) and not s.orelse:
            self.ty.update(neg)
        if s.orelse and exits(s.orelse) and not exits(s.body):
            self.ty.update(pos)

    def st_For(self, s, il):
        it, itt = self.ex(s.iter)

        def body():
            v, vt = self.fresh(("elem", it), iter_ty(itt))
            self.bind_target(s.target, v, vt)
            self.block(s.body, True)
        self.loop(body)
        if s.orelse:
            a, _ = self.branch([lambda: self.block(s.orelse, il), lambda: None])
            self.emit(sif(a))

    def st_While(self, s, il):
        def body():
            self.ex(s.test)
            self.block(s.body, True)
        self.loop(body)
        self.ex(s.test)
        if s.orelse:
            a, _ = self.branch([lambda: self.block(s.orelse, il), lambda: None])
            self.emit(sif(a))

    def st_With(self, s, il):
        for it in s.items:
            v, t = self.ex(it.context_expr)
            if not (t == "ext"):
                fail(s, "with on a value that is not a known external object")
            if it.optional_vars is not None:
                self.bind_target(it.optional_vars, v, t)
        self.block(s.body, il)

    def opt_list(self, items):
        """any PREFIX of the steps may have run when the exception is raised: s1 ; SIf (s2 ; SIf (...) SSkip) SSkip"""
        out = None
        for m in reversed(items):
            k = m[0]
            if k == "if":
                head = [("if", self.optionalize(m[1]), self.optionalize(m[2]))]
            elif k == "loop":
                head = [("loop", self.optionalize(m[1]))]
            elif k == "assign" and m[2][0] in ("call", "ext") and not m[1].startswith("%"):
                t = self.tmp()                                  # the call may raise before the assignment happens
                head = [("assign", t, m[2]), sif(("assign", m[1], ("var", t)))]
                if out is not None:
                    head[1] = sif(seq([("assign", m[1], ("var", t)), out]))
                    out = None
            else:
                head = [m]
            out = seq(head + ([sif(out)] if out is not None else []))
        return out if out is not None else ("skip",)

    def optionalize(self, m):
        if m[0] == "skip":
            return m
        return sif(self.opt_list(m[1] if m[0] == "seq" else [m]))

    def st_Try(self, s, il):
        """SIf (body ; else) (any prefix of body ; one of the handlers | the exception propagates) ; finally"""
        if s.finalbody:
            fail(s, "try/finally")
        t0 = dict(self.ty)
        self.in_try += 1
        body = self.sub(lambda: self.block(s.body, il))
        self.in_try -= 1
        orelse = self.sub(lambda: self.block(s.orelse, il))
        t_norm = dict(self.ty)
        self.ty = {k: (tjoin(v, t_norm[k]) if k in t_norm else None) for k, v in t0.items()}   # any prefix may have run
        ths = []
        for h in s.handlers:
            if h.type is not None:
                for n in ast.walk(h.type):
                    if not isinstance(n, (ast.Name, ast.Attribute, ast.Tuple, ast.Load)):
                        fail(h, "exception type expression")

            def mk(h):
                def run():
                    if h.name:
                        self.assign(h.name, ("ext", []))
                        self.ty[h.name] = "ext"
                    self.block(h.body, il)
                return run
            ths.append(mk(h))
        ths.append(lambda: self.emit(("ret", self.atomv())))          # not caught: the exception ends the function
        res = self.branch(ths)
        t_exc = self.ty
        self.ty = {k: (tjoin(v, t_exc[k]) if k in t_exc else None) for k, v in t_norm.items()}
        self.emit(("if", seq([body, orelse]), seq([self.optionalize(body), alts(res)])))
        self.block(s.finalbody, il)

    def st_FunctionDef(self, s, il):
        for d in s.decorator_list:
            fail(d, "decorator on a nested function")
        name = self.nested(s, f"<{s.name}>")
        self.ty[s.name] = ("fn", name)
        self.assign(s.name, ("atom",))

    def st_Import(self, s, il):
        fail(s, "import inside a function")

    st_ImportFrom = st_Import


# ------------------------------------------------------------------------------------------------ per-function driver
def const_default(d):
    if isinstance(d, ast.Constant):
        return True
    if isinstance(d, ast.UnaryOp) and isinstance(d.operand, ast.Constant):
        return True
    if isinstance(d, ast.Tuple):
        return all(const_default(x) for x in d.elts)
    return False


def prologue(tx, node, skip_self, self_cls):
    a = node.args
    pos = a.posonlyargs + a.args
    defaults = dict(zip([x.arg for x in pos[len(pos) - len(a.defaults):]], a.defaults))
    for x, d in zip(a.kwonlyargs, a.kw_defaults):
        if d is not None:
            defaults[x.arg] = d
    for i, x in enumerate(pos + a.kwonlyargs):
        if i == 0 and self_cls is not None:
            tx.ty[x.arg] = ("cls", frozenset([self_cls]))
            continue
        t = tx.w.ann_ty(x.annotation)
        tx.ty[x.arg] = t
        if t == "atom":
            tx.assign(x.arg, ("atom",))                         # A1
        d = defaults.get(x.arg)
        if d is not None and not const_default(d):
            def th(d=d, x=x):
                v, _ = tx.ex(d)
                tx.assign(x.arg, ("var", v))
            tx.emit(sif(tx.sub(th)))
    for x in (a.vararg, a.kwarg):
        if x is not None:
            tx.ty[x.arg] = ("cont", None, "nokey" if x is a.vararg else "atom")


def tx_function(w, fn):
    tx = Tx(w, fn)
    tx.assign("%a", ("atom",))
    node = fn.node
    self_cls = fn.cls if fn.kind in ("method", "property") else None
    if self_cls is not None and not fn.params:
        fail(node, "method without self")
    prologue(tx, node, False, self_cls)
    if isinstance(node, ast.Lambda):
        v, _ = tx.ex(node.body)
        tx.emit(("ret", v))
    else:
        for n in ast.walk(node):
            if isinstance(n, (ast.Yield, ast.YieldFrom, ast.Await)):
                fail(n, "generator / coroutine")
        tx.block(node.body, False)
    return seq(tx.out)


def tx_new(w, fn):
    """C(args): self = new cell; body of the resolved __init__ (or the dataclass fields); return self"""
    c = w.classes[fn.cls]
    init = w.resolve(c.name, "__init__")
    if init is not None:
        proxy = Fun(init.name, init.node, init.cls, "method", init.file, init.mod)
        proxy.params = init.params
        tx = Tx(w, proxy, new_cls=c.name)
        tx.assign("%a", ("atom",))
        tx.assign("self", ("new", ("deep", c.name), []))
        prologue(tx, init.node, True, c.name)
        tx.block(init.node.body, False)
        tx.emit(("ret", "self"))
        return seq(tx.out)
    proxy = Fun(fn.name, None, c.name, "method", fn.file, c.mod)
    tx = Tx(w, proxy, new_cls=c.name)
    tx.locals = set(fn.params) | {"self"}
    tx.assign("%a", ("atom",))
    tx.assign("self", ("new", ("deep", c.name), []))
    tx.ty["self"] = ("cls", frozenset([c.name]))
    for (name, ann, default, owner) in dataclass_fields(w, c.name):
        tx.mod = w.classes[owner].mod
        t = w.ann_ty(ann)
        if t == "atom":
            tx.assign(name, ("atom",))
        if default is not None and not const_default(default):
            ok = isinstance(default, ast.Call) and ast.unparse(default.func) in ("dataclasses.field", "field")
            if ok:
                for k in default.keywords:
                    if k.arg == "default_factory" and isinstance(k.value, ast.Name) and k.value.id in ("list", "dict", "set"):
                        tx.emit(sif(("assign", name, ("new", False, []))))
                    elif k.arg == "default" and const_default(k.value):
                        pass
                    else:
                        ok = False
            if not ok or default.args:
                fail(default, "dataclass field default")
        tx.emit(("setattr", "self", name, name))
        w.field_ty_next[(c.name, name)] = t
    post = w.resolve(c.name, "__post_init__")
    if post is not None:
        r = tx.tmp()
        tx.emit(tx.call_stmt(r, [post.name], ["self"]))
    tx.emit(("ret", "self"))
    return seq(tx.out)


def noinit(d):
    return isinstance(d, ast.Call) and any(k.arg == "init" and isinstance(k.value, ast.Constant) and k.value.value is False
                                           for k in d.keywords) and len(d.keywords) == 1 and not d.args


def dataclass_fields(w, cname):
    out = []
    for x in reversed(w.mro(cname)):
        c = w.classes[x]
        if c.fields and not c.dataclass:
            fail(c.node, "annotated class-level fields on a class that is not a dataclass")
        for (n, a, d) in c.fields:
            out = [o for o in out if o[0] != n] + [(n, a, d, x)]
    return [o for o in out if not noinit(o[2])]


def build(repo):
    """-> (world, {fname: body}) ; the first runs only infer the field types used for narrowing (sound at every step: run k
    derives its field types under the assumptions derived, without assumptions, by run k-1)"""
    field_ty = {}
    for run in range(8):
        # Field types (used only for narrowing) must be an INVARIANT: every store, typed under the assumption F for loads, stores a
        # value of type <= F.  Run 0 only PROPOSES a candidate (loads unknown; stores of unknown type and `x.f op= e` ignored); every later run re-derives
        # all stores under F and either verifies F (then its output is final) or continues with the join.
        Tx.inl = 0
        w = World(repo)
        w.field_ty, w.field_ty_next, w.field_ty_aug, w.lenient = field_ty, {}, {}, run == 0
        for fn in list(w.funs.values()):
            fn.params = params_of(fn.node)
        for c in list(w.classes.values()):
            if c.enum:
                continue
            init = w.resolve(c.name, "__init__")
            if init is None and (c.dataclass or c.fields):
                ps = [f[0] for f in dataclass_fields(w, c.name)]
            else:
                ps = init.params[1:] if init is not None else []
            fn = w.add_fun(f"{c.name}.__new_init__", init.node if init is not None else None, c.name, "new", os.path.join(
                *[f for f, _ in [w.trees[c.mod]]]), c.mod)
            fn.params = ps
        w.finish_callbacks()
        bodies, done = {}, set()
        while True:
            todo = [fn for fn in w.funs.values() if fn.name not in done]
            if not todo:
                break
            for fn in todo:
                done.add(fn.name)
                CURRENT[0] = fn.name
                bodies[fn.name] = tx_new(w, fn) if fn.kind == "new" else tx_function(w, fn)
        derived = dict(w.field_ty_next)
        if run > 0:
            for k, v in w.field_ty_aug.items():
                derived[k] = tjoin(derived.get(k, "bot"), v)
        derived = {k: (None if v == "bot" else v) for k, v in derived.items()}
        if run > 0 and all(k not in field_ty or tjoin(field_ty[k], v) == field_ty[k] for k, v in derived.items()):
            return w, bodies                                    # F verified: derived <= F (a missing key of F means unknown)
        field_ty = derived if run == 0 else {k: (tjoin(field_ty[k], v) if k in field_ty else None) for k, v in derived.items()}
    raise Unsupported("heap extractor: the field types used for narrowing did not stabilise")


# ------------------------------------------------------------------------------------------------ Python mirror of the checker
ST = ["Atom", "Fresh", "Deep", "AnyFresh", "Self", "Other"]
LEQ = {("Fresh", "AnyFresh"), ("Fresh", "Self"), ("Deep", "AnyFresh")}


def sleb(a, b):
    return a == "Atom" or b == "Other" or a == b or (a, b) in LEQ


def sjoin(a, b):
    if sleb(a, b):
        return b
    if sleb(b, a):
        return a
    return "AnyFresh" if {a, b} == {"Fresh", "Deep"} else "Other"


def wr_ok(sx, sy):
    if sx in ("Atom", "Fresh", "Self"):
        return True
    if sx in ("Deep", "AnyFresh"):
        return sleb(sy, "AnyFresh")
    return False


def load_status(s):
    return "Atom" if s == "Atom" else ("AnyFresh" if s == "Deep" else "Other")


class Reject(Exception):
    def __init__(self, kind, var, msg):
        Exception.__init__(self, msg)
        self.kind, self.var = kind, var


class Mirror:
    def __init__(self, funs, bodies, claims, deep):
        self.funs, self.bodies, self.claims, self.deep = funs, bodies, claims, deep

    def sl(self, st, x):
        return st.get(x, "Other")

    def expr(self, st, e):
        k = e[0]
        if k == "atom":
            return "Atom"
        if k == "var":
            return self.sl(st, e[1])
        if k in ("attr", "elem"):
            return load_status(self.sl(st, e[1]))
        if k == "new":
            d = self.deep.setdefault(e[1][1], True) if isinstance(e[1], tuple) else e[1]
            if not d:
                return "Fresh"
            for y in e[2]:
                if not sleb(self.sl(st, y), "AnyFresh"):
                    ex = Reject("deepnew", y, f"ENew deep with {y}:{self.sl(st, y)}")
                    ex.site = e[1] if isinstance(e[1], tuple) else None
                    raise ex
            return "Deep"
        if k == "ext":
            return "Fresh"
        if k == "call":
            if not e[1]:
                raise Reject("nocand", None, "ECall without candidates")
            r = "Atom"
            for c in e[1]:
                if c not in self.claims or c in EXCLUDED:
                    raise Reject("missing", None, f"callee {c} is not in the program")
                mut, res = self.claims[c]
                if mut and e[2] and self.sl(st, e[2][0]) not in ("Atom", "Fresh", "Self"):
                    raise Reject("arg0", e[2][0], f"argument 0 `{e[2][0]}`:{self.sl(st, e[2][0])} passed to {c} which mutates self")
                r = sjoin(r, "Other" if res == "Self" else res)
            return r
        raise AssertionError(e)

    def join_env(self, a, b):
        return {x: sjoin(self.sl(a, x), self.sl(b, x)) for x in set(a) | set(b)}

    def leb_env(self, a, b):
        return all(sleb(self.sl(a, x), self.sl(b, x)) for x in set(a) | set(b))

    def stmt(self, s, st, res):
        """-> None (end unreachable) | env ; raises Reject"""
        k = s[0]
        if k == "skip":
            return st
        if k == "ret":
            v = self.sl(st, s[1])
            self.rets.append(v)
            if res is not None and not sleb(v, res):
                raise Reject("ret", s[1], f"return of `{s[1]}`:{v} but the claim is {res}")
            return None
        if k == "assign":
            t = self.expr(st, s[2])
            st = dict(st)
            st[s[1]] = t
            return st
        if k == "setattr":
            if not wr_ok(self.sl(st, s[1]), self.sl(st, s[3])):
                raise Reject("write", s[1], f"`{s[1]}.{s[2]} = {s[3]}` with {s[1]}:{self.sl(st, s[1])} {s[3]}:{self.sl(st, s[3])}")
            return st
        if k == "mut":
            sx = self.sl(st, s[1])
            if not wr_ok(sx, "Atom"):
                raise Reject("write", s[1], f"in-place update of `{s[1]}`:{sx} with {s[2]}")
            for y in s[2]:
                if not wr_ok(sx, self.sl(st, y)):
                    raise Reject("write", s[1], f"in-place update of `{s[1]}`:{sx} storing `{y}`:{self.sl(st, y)}")
            return st
        if k == "seq":
            for x in s[1]:
                st = self.stmt(x, st, res)
                if st is None:
                    return None
            return st
        if k == "if":
            a, b = self.stmt(s[1], st, res), self.stmt(s[2], st, res)
            if a is None:
                return b
            if b is None:
                return a
            return self.join_env(a, b)
        if k == "loop":
            for _ in range(50):
                st1 = self.stmt(s[1], st, res)
                if st1 is None or self.leb_env(st1, st):
                    return st
                st = self.join_env(st, st1)
            raise Reject("loop", None, "no stable loop state within the bound")
        raise AssertionError(s)

    def check(self, name, strict=True):
        """-> join of the statuses returned ; raises Reject"""
        fn = self.funs[name]
        mut, res = self.claims[name]
        self.rets = []
        st = {fn.params[0]: "Self"} if (mut and fn.params) else {}
        self.stmt(self.bodies[name], st, res if strict else None)
        r = "Atom"
        for v in self.rets:
            r = sjoin(r, v)
        return "Other" if r == "Self" else r


def infer(w, bodies):
    names = [n for n in bodies if n not in EXCLUDED]
    claims = {n: [False, "Atom"] for n in names}
    deep = {c.name: True for c in w.classes.values()}
    mir = Mirror(w.funs, bodies, claims, deep)
    failures = {}
    changed = True
    while changed:
        changed = False
        for n in names:
            fn = w.funs[n]
            for _ in range(200):
                try:
                    r = mir.check(n, strict=False)
                    failures.pop(n, None)
                    if r != claims[n][1]:
                        claims[n][1] = sjoin(claims[n][1], r)
                        changed = True
                    break
                except Reject as ex:
                    if ex.kind == "deepnew" and ex.site is not None and ex.site[0] == "site":
                        deep[ex.site[1]] = False
                        changed = True
                        continue
                    if ex.kind in ("write", "arg0") and fn.params and ex.var == fn.params[0] and not claims[n][0] \
                            and fn.kind in ("method", "property"):
                        claims[n][0] = True
                        changed = True
                        continue
                    if fn.kind == "new" and deep[fn.cls]:
                        deep[fn.cls] = False
                        changed = True
                        continue
                    failures[n] = str(ex)
                    break
    final = {}
    for n in names:
        try:
            mir.check(n, strict=True)
        except Reject as ex:
            final[n] = str(ex) + (f" ;; first rejection: {failures[n]}" if n in failures and failures[n] != str(ex) else "")
    return claims, deep, final


# ------------------------------------------------------------------------------------------------ Coq output
def q(s):
    return '"' + s.replace('"', '""') + '"'


def qlist(l, ind):
    items = [q(x) for x in l]
    lines, cur = [], "["
    for i, it in enumerate(items):
        piece = it + ("; " if i + 1 < len(items) else "")
        if len(cur) + len(piece) > 150:
            lines.append(cur)
            cur = " " * (ind + 1) + piece
        else:
            cur += piece
    lines.append(cur + "]")
    return "\n".join(lines)


def coq_expr(e, deep, ind):
    k = e[0]
    if k == "atom":
        return "EAtom"
    if k == "var":
        return f"(EVar {q(e[1])})"
    if k == "attr":
        return f"(EAttr {q(e[1])} {q(e[2])})"
    if k == "elem":
        return f"(EElem {q(e[1])})"
    if k == "new":
        d = deep.get(e[1][1], False) if isinstance(e[1], tuple) else e[1]
        return f"(ENew {'true' if d else 'false'} [] {qlist(e[2], ind)})"
    if k == "ext":
        return f"(EExt {qlist(e[1], ind)})"
    if k == "call":
        return f"(ECall {qlist(e[1], ind + 7)}\n{' ' * (ind + 7)}{qlist(e[2], ind + 7)})"
    raise AssertionError(e)


def coq_stmt(s, deep, ind=2):
    pad = " " * ind
    k = s[0]
    if k == "skip":
        return pad + "SSkip"
    if k == "ret":
        return pad + f"(SReturn {q(s[1])})"
    if k == "assign":
        return pad + f"(SAssign {q(s[1])} {coq_expr(s[2], deep, ind + 4)})"
    if k == "setattr":
        return pad + f"(SSetAttr {q(s[1])} {q(s[2])} {q(s[3])})"
    if k == "mut":
        return pad + f"(SMutElems {q(s[1])} {qlist(s[2], ind + 4)})"
    if k == "if":
        return pad + "(SIf\n" + coq_stmt(s[1], deep, ind + 1) + "\n" + coq_stmt(s[2], deep, ind + 1) + ")"
    if k == "loop":
        return pad + "(SLoop\n" + coq_stmt(s[1], deep, ind + 1) + ")"
    if k == "seq":
        items = s[1]
        out = []
        for x in items[:-1]:
            out.append(pad + "(SSeq\n" + coq_stmt(x, deep, ind + 1))
        out.append(coq_stmt(items[-1], deep, ind + 1) + ")" * (len(items) - 1))
        return "\n".join(out)
    raise AssertionError(s)


def flatten(s):
    """normalise nested seqs so that the emitted SSeq chain is right-nested"""
    k = s[0]
    if k == "seq":
        out = []
        for x in s[1]:
            x = flatten(x)
            if x[0] == "seq":
                out += x[1]
            elif x != ("skip",):
                out.append(x)
        return seq(out)
    if k == "if":
        return ("if", flatten(s[1]), flatten(s[2]))
    if k == "loop":
        return ("loop", flatten(s[1]))
    return s


def ident(name):
    out = "f_"
    for ch in name:
        out += ch if (ch.isalnum() and ch.isascii()) or ch == "_" else ("_" if ch == "." else f"_{ord(ch):x}_")
    return out


def generate(repo):
    w, bodies = build(repo)
    bodies = {n: flatten(b) for n, b in bodies.items()}
    claims, deep, final = infer(w, bodies)
    return w, bodies, claims, deep, final


def gen_heap(repo):
    try:
        w, bodies, claims, deep, final = generate(repo)
    except Unsupported:
        raise
    except RecursionError as ex:
        raise Unsupported(f"heap extractor: recursion limit: {ex}")
    except Exception as ex:                                      # fail closed: every failure poisons HeapGen.v only
        import traceback
        raise Unsupported(f"heap extractor: internal error {type(ex).__name__}: {ex} :: {traceback.format_exc()[-600:]}")
    out = ["(* generated by translator/py2coq_heap.py from /repo/src — do not edit *)",
           "Require Import String List ZArith Bool. Require Import PyHeap. Import ListNotations. Open Scope string_scope.", ""]
    names = [n for n in bodies if n not in EXCLUDED]
    used = {}
    for n in names:
        i = ident(n)
        if i in used:
            raise Unsupported(f"heap extractor: identifier clash {n} / {used[i]}")
        used[i] = n
        fn = w.funs[n]
        mut, res = claims[n]
        out.append(f"(* {n}  [{fn.file}:{getattr(fn.node, 'lineno', '-')}] *)")
        out.append(f"Definition {i} : fundef := mkfun {qlist(fn.params, 4)}")
        out.append(coq_stmt(bodies[n], deep))
        out.append(f"  {'true' if mut else 'false'} {res}.")
        out.append("")
    out.append("Definition pacti_prog : prog := [")
    out.append(";\n".join(f"  ({q(n)}, {ident(n)})" for n in names))
    out.append("].")
    out.append("")
    out.append("Definition pacti_excluded : list string := " + qlist(sorted(EXCLUDED), 4) + ".")
    out.append("")
    if final:
        out.append("(* the Python mirror of the checker REJECTS (Coq decides; check_prog pacti_prog is expected to be false):")
        for n, msg in sorted(final.items()):
            out.append(f"   {n}: {msg}".replace("*)", "* )"))
        out.append("*)")
    return "\n".join(out) + "\n"


# ------------------------------------------------------------------------------------------------ tables / CLI
def tables(repo):
    w, bodies, claims, deep, final = generate(repo)
    o = ["# py2coq_heap: classification tables", ""]
    for title, l in (("Builtin MUTATORS (-> SMutElems on the receiver)", MUTATORS), ("mutators that also return an element", MUT_RETURNS_ELEM),
                     ("ATOM_METHODS (methods of builtin/external objects returning an immutable value)", ATOM_METHODS),
                     ("FRESH_METHODS (return a new object)", FRESH_METHODS), ("ALIAS_METHODS (may return receiver/argument/element)", ALIAS_METHODS),
                     ("CALLBACK_METHODS (run the registered parse actions)", CALLBACK_METHODS),
                     ("ATOM_EXT (external functions returning an immutable value)", ATOM_EXT), ("FRESH_EXT (return a new object)", FRESH_EXT),
                     ("ALIAS_EXT (may return an argument or something stored in it)", ALIAS_EXT),
                     ("annotations bound to atoms (A1)", ATOM_ANNOT), ("builtin container annotations", CONT_ANNOT),
                     ("dunders that put a class outside the subset", FORBIDDEN_DUNDERS)):
        o += [f"## {title}", "", ", ".join(f"`{x}`" for x in l), ""]
    o += ["## dunder map", "", "| syntax | pacti dunders tried (all definitions, narrowed by type) |", "|---|---|"]
    for k, v in BINOP_DUNDER.items():
        o.append(f"| binary {k} | `__{v}__`, `__r{v}__` + builtin alternative (EExt of operands and their elements) |")
    for k, v in CMP_DUNDER.items():
        o.append(f"| compare {k} | {', '.join('`%s`' % x for x in v) or '-'} |")
    o += [f"| str()/repr()/format/f-string/%/print/logging/exceptions | {', '.join(STR_DUNDERS)} on the operand and its elements |",
          f"| hash()/dict keys/set elements/`in` | {', '.join(HASH_DUNDERS)} |", f"| sorted/sort/min/max | {', '.join(ORDER_DUNDERS)} |", ""]
    o += ["## functions extracted (count per file)", "", "| file | functions |", "|---|---|"]
    per = {}
    for n in bodies:
        if n not in EXCLUDED:
            per[w.funs[n].file] = per.get(w.funs[n].file, 0) + 1
    for f, c in sorted(per.items()):
        o.append(f"| {f} | {c} |")
    o += [f"| total | {sum(per.values())} |", "", "left out: " + ", ".join(LEFT_OUT), ""]
    o += ["module-level object construction (not extracted, A8); callbacks registered at module level:", ""]
    for m, l in w.callbacks.items():
        if l:
            o.append(f"* {m}: " + ", ".join(f"`{x}`" for x in l))
    o += ["", "## EXCLUDED", ""]
    for n, why in EXCLUDED.items():
        o.append(f"* `{n}`: {why}")
    o += ["", "## deep claim per class", "", ", ".join(f"`{c}`={'deep' if d else 'plain'}" for c, d in sorted(deep.items()) if "@" not in c), ""]
    o += ["## claims per function", "", "| function | mutates_self | result |", "|---|---|---|"]
    for n in bodies:
        if n not in EXCLUDED:
            o.append(f"| `{n}` | {claims[n][0]} | {claims[n][1]} |")
    o += ["", "## assumptions", ""] + [f"* {a}" for a in ASSUMPTIONS]
    o += ["", "## mirror verdict", ""]
    o += [f"* REJECTED `{n}`: {m}" for n, m in sorted(final.items())] or ["all functions accepted by the Python mirror of the checker"]
    return "\n".join(o) + "\n"


if __name__ == "__main__":
    sys.setrecursionlimit(20000)
    if len(sys.argv) >= 2 and sys.argv[1] == "--tables":
        print(tables(sys.argv[2] if len(sys.argv) > 2 else "/repo"))
    elif len(sys.argv) == 3:
        txt = gen_heap(sys.argv[1])
        with open(sys.argv[2], "w") as fh:
            fh.write(txt)
        print("wrote", sys.argv[2], len(txt), "bytes")
    else:
        print(__doc__)
        sys.exit(2)
