"""C18 correspondence: pacti.utils.plots.constraints_to_vertices  vs  coq/model/Plots.v.

The REAL implementation is run; its foreign calls are recorded from outside:
  * pacti.utils.plots._get_bounding_vertices   (the matrix a_mat, b that reaches the geometry part)
  * pacti.utils.plots._get_feasible_point      (Chebyshev centre LP:  point | ValueError)
  * pacti.utils.plots.HalfspaceIntersection    (Qhull: intersections | QhullError)
  * pacti.utils.plots.linprog                  (the four fallback LPs, and the centre LP's status)
Float answers are snapped to the exact corner (python re-implementation of `corners`, Fractions) within 1e-7.
A returned point that is near no corner, or a corner that is not hit, is an ORACLE-SPEC violation and is
reported separately from MODEL mismatches.  The model (fed with the snapped answers) must return the same
points in the same order and the same error kind; this is checked inside Coq (vm_compute), which also
re-checks the hull spec against Coq's own `corners` and the matrix rows against the recorded a_mat, b.

Float noise at the atan2 branch cut is an oracle of the model too (cut_low): a vertex lying exactly on the cut
(same y as the centroid, to its left) has angle +pi in exact arithmetic, but the floats give -pi whenever
y - cy evaluates to -0.0 or to a negative rounding residue.  The harness recomputes that float sign from the
recorded raw points exactly as the implementation does and hands it to the model; the replay must then agree
in ORDER.  The run with the exact oracle (cut_low = false everywhere) is compared as well: it may differ from the
implementation only by a rotation of the list that moves cut points from the end to the front.

usage:  python plots_cases.py [n] [seed]       (selftest; exit status 0 iff 0 mismatches)
"""
from __future__ import annotations

import os
import random
import sys
from fractions import Fraction as F

HERE = os.path.dirname(os.path.abspath(__file__))
sys.path.insert(0, HERE)
if os.path.isdir("/verif/harness"):
    sys.path.insert(1, "/verif/harness")

os.environ.setdefault("MPLBACKEND", "Agg")

import common  # noqa: E402
import coqfmt as cf  # noqa: E402

if os.environ.get("PLOTS_COQ"):          # compile against a private copy of the coq tree
    common.COQ = os.environ["PLOTS_COQ"]
    common.CASES = os.path.join(common.COQ, "cases")

SNAP_TOL = 1e-7


# ------------------------------------------------------------------ exact reference (mirror of Plots.corners)
def corners_py(rows):
    """rows: list of (a, b, c) Fractions.  Corner points, deduplicated, in the order Plots.corners lists them
    (the order is irrelevant for the checks)."""
    out = []
    for (a1, b1, c1) in rows:
        for (a2, b2, c2) in rows:
            d = a1 * b2 - a2 * b1
            if d == 0:
                continue
            p = ((c1 * b2 - c2 * b1) / d, (a1 * c2 - a2 * c1) / d)
            if all(a * p[0] + b * p[1] <= c for (a, b, c) in rows):
                out.append(p)
    res = []
    for i, p in enumerate(out):
        if p not in out[i + 1:]:
            res.append(p)
    return res


def snap(p, corners):
    """nearest exact corner within SNAP_TOL, else None"""
    best, bd = None, None
    for c in corners:
        d = max(abs(float(c[0]) - p[0]), abs(float(c[1]) - p[1]))
        if bd is None or d < bd:
            best, bd = c, d
    if best is not None and bd <= SNAP_TOL:
        return best
    return None


def rationalise(p):
    return (F(float(p[0])).limit_denominator(10 ** 6), F(float(p[1])).limit_denominator(10 ** 6))


# exact mirror of the model's angular sort (only used to CLASSIFY a mismatch reported by Coq)
def _aclass(d):
    dx, dy = d
    if dy < 0:
        return 0
    if dy > 0:
        return 2
    return 3 if dx < 0 else 1


def _ang_le(d1, d2):
    c1, c2 = _aclass(d1), _aclass(d2)
    if c1 != c2:
        return c1 < c2
    if c1 in (1, 3):
        return True
    return d1[0] * d2[1] - d1[1] * d2[0] >= 0


def sort_angular_py(pts):
    n = len(pts)
    c = (sum(p[0] for p in pts) / n, sum(p[1] for p in pts) / n)
    out = []
    for p in reversed(pts):
        i = 0
        while i < len(out) and not _ang_le((p[0] - c[0], p[1] - c[1]), (out[i][0] - c[0], out[i][1] - c[1])):
            i += 1
        out.insert(i, p)
    return out, c


# ------------------------------------------------------------------ generator
VARS = ["x", "y", "z", "w"]


def _coef(rng):
    return F(rng.choice([-3, -2, -1, -1, 1, 1, 2, 3]))


def _lin(rng, vs, kmin=1, kmax=3):
    k = rng.randint(kmin, min(kmax, len(vs)))
    chosen = rng.sample(vs, k)
    return {v: _coef(rng) for v in chosen}


def gen_case(rng, kind=None):
    kinds = ["poly", "poly", "poly", "cut", "cut", "segment", "point", "empty", "missing", "assigned",
             "const", "dupbound", "samevar", "thin"]
    kind = kind or rng.choice(kinds)
    nv = rng.randint(2, 4)
    vs = rng.sample(VARS, nv)
    x, y = vs[0], vs[1]
    others = vs[2:]
    vals = {v: F(rng.randint(-4, 4)) for v in others}
    lo = rng.randint(-5, 3)
    xl = (F(lo), F(rng.randint(lo + 1, 5)))
    lo = rng.randint(-5, 3)
    yl = (F(lo), F(rng.randint(lo + 1, 5)))
    cs = []

    def through(p, slack):
        lin = _lin(rng, vs)
        val = sum(a * p.get(v, F(0)) for v, a in lin.items())
        return (lin, val + slack)

    # a point of the box (with the given values) most constraints are made to contain
    p0 = dict(vals)
    p0[x] = F(rng.randint(int(xl[0]), int(xl[1])))
    p0[y] = F(rng.randint(int(yl[0]), int(yl[1])))
    if kind in ("poly", "missing", "assigned", "const", "dupbound", "samevar"):
        for _ in range(rng.randint(0, 5)):
            cs.append(through(p0, F(rng.randint(0, 4))))
    if kind == "cut":        # cut the corners of the box: up to 8 corners
        xl, yl = (F(-5 + rng.randint(0, 2)), F(5 - rng.randint(0, 2))), (F(-5 + rng.randint(0, 2)), F(5 - rng.randint(0, 2)))
        for sx in (1, -1):
            for sy in (1, -1):
                if rng.random() < 0.8:
                    cx = xl[1] if sx > 0 else -xl[0]
                    cy = yl[1] if sy > 0 else -yl[0]
                    k = rng.choice([1, 1, 2])
                    lin = {x: F(sx * k), y: F(sy)} if rng.random() < 0.5 else {y: F(sy), x: F(sx * k)}
                    extra = {}
                    if others and rng.random() < 0.4:
                        o = rng.choice(others)
                        extra = {o: _coef(rng)}
                    lin.update(extra)
                    rhs = k * cx + cy - rng.randint(1, 4) + sum(a * vals[v] for v, a in extra.items())
                    cs.append((lin, F(rhs)))
        rng.shuffle(cs)
    if kind == "segment":
        lin = _lin(rng, vs)
        if x not in lin and y not in lin:
            lin[rng.choice([x, y])] = _coef(rng)
        val = sum(a * p0.get(v, F(0)) for v, a in lin.items())
        cs.append((lin, val))
        cs.append(({v: -a for v, a in lin.items()}, -val))
        for _ in range(rng.randint(0, 2)):
            cs.append(through(p0, F(rng.randint(0, 3))))
        rng.shuffle(cs)
    if kind == "point":
        if rng.random() < 0.5:      # touch a corner of the box
            sx, sy = rng.choice([1, -1]), rng.choice([1, -1])
            cx = xl[1] if sx > 0 else -xl[0]
            cy = yl[1] if sy > 0 else -yl[0]
            k = rng.choice([1, 2, 3])
            cs.append(({x: F(-sx * k), y: F(-sy)}, F(-(k * cx + cy))))
        else:                        # two equalities
            for lin in ({x: F(1), y: _coef(rng)}, {x: _coef(rng), y: F(0) if False else _coef(rng)}):
                val = sum(a * p0.get(v, F(0)) for v, a in lin.items())
                cs.append((dict(lin), val))
                cs.append(({v: -a for v, a in lin.items()}, -val))
    if kind == "empty":
        for _ in range(rng.randint(0, 2)):
            cs.append(through(p0, F(rng.randint(0, 4))))
        mode = rng.randint(0, 2)
        if mode == 0:
            lin = {x: _coef(rng), y: _coef(rng)}
            val = sum(a * p0.get(v, F(0)) for v, a in lin.items())
            cs.append((lin, val))
            cs.append(({v: -a for v, a in lin.items()}, -val - rng.randint(1, 3)))
        elif mode == 1:
            cs.append(({x: F(1), y: F(1)}, xl[0] + yl[0] - rng.randint(1, 3)))
        else:
            xl = (xl[1], xl[0])      # inverted limits
        rng.shuffle(cs)
    if kind == "thin":               # zero-width box
        if rng.random() < 0.5:
            xl = (xl[0], xl[0])
        else:
            yl = (yl[1], yl[1])
        if rng.random() < 0.3:
            xl = (xl[0], xl[0]); yl = (yl[0], yl[0])
        for _ in range(rng.randint(0, 2)):
            cs.append(through({**p0, x: xl[0], y: yl[0]}, F(rng.randint(0, 3))))
    if kind == "missing":
        allv = [v for v in VARS if v not in (x, y) and v not in vals] or ["q"]
        m = rng.choice(allv)
        lin = _lin(rng, vs)
        lin[m] = _coef(rng)
        cs.insert(rng.randint(0, len(cs)), (lin, F(rng.randint(-3, 3))))
    if kind == "assigned":
        vals = dict(vals)
        vals[rng.choice([x, y])] = F(rng.randint(-3, 3))
        if rng.random() < 0.3:
            vals[y] = F(1)
    if kind == "const":              # constraints over the assigned variables only: satisfied or violated
        if not others:
            others = [v for v in VARS if v not in (x, y)][:1]
            vals = {others[0]: F(rng.randint(-4, 4))}
        for _ in range(rng.randint(1, 2)):
            lin = _lin(rng, others, 1, 2)
            val = sum(a * vals[v] for v, a in lin.items())
            cs.insert(rng.randint(0, len(cs)), (lin, val + rng.choice([-2, -1, 0, 0, 1, 3])))
        if rng.random() < 0.25:      # a term without any variable
            cs.insert(rng.randint(0, len(cs)), ({}, F(rng.choice([-1, 0, 0, 2]))))
    if kind == "dupbound":           # rows equal to (or multiples of) the boundary rows are already present
        cand = [({x: F(1)}, xl[1]), ({x: F(-1)}, -xl[0]), ({y: F(1)}, yl[1]), ({y: F(-1)}, -yl[0]),
                ({x: F(2)}, 2 * xl[1]), ({y: F(-3)}, -3 * yl[0])]
        for t in rng.sample(cand, rng.randint(1, 3)):
            cs.insert(rng.randint(0, len(cs)), t)
    if kind == "samevar":        # x_var == y_var: the matrix has one column, the column swap raises IndexError
        if rng.random() < 0.7:
            vals = dict(vals)
            vals[y] = F(rng.randint(-2, 2))
        y = x
    # unused values are allowed (a value for a variable no constraint mentions)
    if rng.random() < 0.1 and kind not in ("assigned",):
        spare = [v for v in VARS + ["q"] if v not in (x, y) and v not in vals]
        if spare:
            vals = dict(vals)
            vals[spare[0]] = F(rng.randint(-2, 2))
    cs = [({v: a for v, a in lin.items() if a != 0}, c) for lin, c in cs]
    return {"kind": kind, "cs": cs, "x": x, "y": y, "vals": list(vals.items()), "xl": xl, "yl": yl}


# ------------------------------------------------------------------ running the implementation with recorders
def _fr(v):
    return F(float(v))


def run_impl(case):
    """Run the real constraints_to_vertices; returns the record of everything observed."""
    import numpy as np
    import pacti
    assert os.path.realpath(pacti.__file__).startswith(os.path.realpath(os.environ.get("VERIF_REPO", "/repo")) + "/src"), pacti.__file__
    import pacti.utils.plots as P
    from pacti.iocontract import Var
    from gen import mktl

    rec = {"rows": None, "centre": "notcalled", "hull": "notcalled", "lps": [], "centre_status": None}
    o_gbv, o_gfp, o_hs, o_lp = P._get_bounding_vertices, P._get_feasible_point, P.HalfspaceIntersection, P.linprog

    def gbv(a_mat, b):
        a = np.array(a_mat, dtype=float)
        rec["rows"] = [(_fr(r[0]), _fr(r[1]), _fr(c)) for r, c in zip(a.tolist(), np.array(b, dtype=float).tolist())]
        rec["ncols"] = a.shape[1] if a.ndim == 2 else None
        return o_gbv(a_mat, b)

    def gfp(a_mat, b, interior=True):
        try:
            r = o_gfp(a_mat, b, interior)
        except ValueError:
            rec["centre"] = None
            raise
        rec["centre"] = (_fr(r[0]), _fr(r[1]))
        return r

    def hs(halfspaces, ip):
        rec["hs_in"] = [(_fr(h[0]), _fr(h[1]), -_fr(h[2])) for h in np.array(halfspaces).tolist()]
        try:
            r = o_hs(halfspaces, ip)
        except P.QhullError:
            rec["hull"] = None
            raise
        rec["hull"] = [(float(p[0]), float(p[1])) for p in r.intersections.tolist()]
        return r

    def lp(*a, **kw):
        r = o_lp(*a, **kw)
        c = [float(v) for v in kw["c"]]
        if len(c) == 3:
            rec["centre_status"] = int(r["status"])
        else:
            rec["lps"].append((tuple(F(v) for v in c), int(r["status"]),
                               None if r["x"] is None else (float(r["x"][0]), float(r["x"][1]))))
        return r

    P._get_bounding_vertices, P._get_feasible_point, P.HalfspaceIntersection, P.linprog = gbv, gfp, hs, lp
    try:
        try:
            xs, ys = P.constraints_to_vertices(
                mktl(case["cs"]), Var(case["x"]), Var(case["y"]),
                {Var(k): float(v) for k, v in case["vals"]},
                (float(case["xl"][0]), float(case["xl"][1])), (float(case["yl"][0]), float(case["yl"][1])))
            rec["result"] = [(float(a), float(b)) for a, b in zip(xs, ys)]
            rec["error"] = None
        except Exception as e:  # noqa: BLE001
            rec["result"] = None
            rec["error"] = type(e).__name__
            rec["errmsg"] = str(e)
    finally:
        P._get_bounding_vertices, P._get_feasible_point, P.HalfspaceIntersection, P.linprog = o_gbv, o_gfp, o_hs, o_lp
    return rec


def digest(case, rec):
    """Snap the float answers; classify the branch; collect oracle-spec violations."""
    d = {"spec": [], "branch": None, "ncorners": None}
    rows = rec["rows"]
    if rows is None:
        d["branch"] = "argerr:" + str(rec["error"])
        return d
    if rec.get("hs_in") is not None and rec["hs_in"] != rows:
        d["spec"].append("halfspaces differ from a_mat,b")
    cs = corners_py(rows)
    d["corners"] = cs
    d["ncorners"] = len(cs)
    if rec["centre"] is None:
        d["branch"] = "empty"
        if cs:
            d["spec"].append("centre says empty but corners exist")
        return d
    if not cs:
        d["spec"].append("centre found a point but there is no corner")

    def snap_all(pts, what):
        out = []
        for p in pts:
            s = snap(p, cs)
            if s is None:
                d["spec"].append(f"{what}: point {p} is near no corner")
                s = rationalise(p)
            out.append(s)
        return out

    if rec["hull"] == "notcalled":
        d["branch"] = "nohull"
    elif rec["hull"] is not None:
        d["branch"] = "hull"
        d["hull"] = snap_all(rec["hull"], "Qhull")
        if set(d["hull"]) != set(cs):
            d["spec"].append(f"Qhull: points {sorted(set(d['hull']))} are not the corners {sorted(set(cs))}")
        d["hull_dups"] = len(d["hull"]) - len(set(d["hull"]))
    else:
        d["branch"] = "fallback"
        d["ext"] = []
        pts = []
        for (c, st, p) in rec["lps"]:
            if p is None:
                d["ext"].append((c, None))
                d["spec"].append(f"fallback LP {c}: status {st}, no point")
                continue
            s = snap_all([p], f"fallback LP {c}")[0]
            d["ext"].append((c, s))
            pts.append(s)
            best = min(c[0] * q[0] + c[1] * q[1] for q in cs) if cs else None
            if best is not None and c[0] * s[0] + c[1] * s[1] != best:
                d["spec"].append(f"fallback LP {c}: {s} is not optimal")
        if cs and set(pts) != set(cs):
            d["spec"].append(f"fallback: points {sorted(set(pts))} do not cover the corners {sorted(set(cs))}")
        if len(cs) > 2:
            d["spec"].append("QhullError although the polygon has more than two corners")
    if rec["result"] is not None:
        d["result"] = snap_all(rec["result"], "result")
        d["low"] = cut_low_flags(rec, d)
    return d


def cut_low_flags(rec, d):
    """The points exactly on the atan2 branch cut whose float dy = p.y - center.y has a negative sign
    (recomputed from the raw oracle answers with the implementation's own float operations)."""
    from math import copysign
    raw = rec["hull"] if rec["hull"] not in (None, "notcalled") else [p for (_, _, p) in rec["lps"]]
    snapped = d.get("hull") or [p for _, p in d["ext"]]
    if any(p is None for p in raw) or not raw:
        return []
    xs, ys = [p[0] for p in raw], [p[1] for p in raw]
    c = (_naive_mean(xs), _naive_mean(ys))
    n = len(snapped)
    ce = (sum(p[0] for p in snapped) / n, sum(p[1] for p in snapped) / n)
    flags = {}
    for r, sp in zip(raw, snapped):
        if sp[1] == ce[1] and sp[0] < ce[0]:
            neg = copysign(1.0, r[1] - c[1]) < 0
            if sp in flags and flags[sp] != neg:
                d["spec"].append(f"cut noise: equal points {sp} got different float signs")
            flags[sp] = flags.get(sp, False) or neg
    return [p for p, f in flags.items() if f]


# ------------------------------------------------------------------ Coq side
def _pt(p):
    return f"({cf.q(p[0])}, {cf.q(p[1])})"


def _pts(ps):
    return cf.lst(_pt(p) for p in ps)


def _row(r):
    return f"({cf.q(r[0])}, {cf.q(r[1])}, {cf.q(r[2])})"


ERR = {"ValueError": "ValueErr", "AssertionError": '(Escape "AssertionError")', "IndexError": '(Escape "IndexError")'}


def coq_case(case, rec, d):
    centre = "None" if rec["centre"] in (None, "notcalled") else f"(Some {_pt(rec['centre'])})"
    hull = "None" if d.get("hull") is None else f"(Some {_pts(d['hull'])})"
    ext = cf.lst(f"({_pt(c)}, {'None' if p is None else '(Some ' + _pt(p) + ')'})" for c, p in d.get("ext", []))
    if rec["error"] is None:
        expected = f"(inl {_pts(d['result'])})"
    else:
        expected = f"(inr {ERR.get(rec['error'], '(Escape ' + cf.s(rec['error']) + ')')})"
    rows = "None" if rec["rows"] is None else "(Some " + cf.lst(_row(r) for r in rec["rows"]) + ")"
    low = _pts(d.get("low", []))
    return (f"(mkC {cf.terms(case['cs'])} {cf.s(case['x'])} {cf.s(case['y'])} {cf.pvars(case['vals'])} "
            f"{_pt(case['xl'])} {_pt(case['yl'])} {centre} {hull} {ext} {low} {rows} {expected})")


PRELUDE = """From Coq Require Import List String Bool QArith ZArith.
Import ListNotations.
Require Import Py Sem Term Poly Plots.
Local Open Scope string_scope.
Record C := mkC { cs : list pterm; cx : var; cy : var; cvals : behavior; cxl : Q * Q; cyl : Q * Q;
  ccentre : option pt; chull : option (list pt); cext : list (pt * option pt); clow : list pt;
  crows : option (list row3); cexp : M (list pt) }.
Definition orc (noise : bool) (c : C) : oracles :=
  mkOracles (fun _ => ccentre c) (fun _ => chull c) (fun _ d => extreme_table (cext c) d)
            (fun p => noise && existsb (pt_eqb p) (clow c)).
Definition model_with (noise : bool) (c : C) :=
  constraints_to_vertices (orc noise c) (cs c) (cx c) (cy c) (cvals c) (cxl c) (cyl c).
Definition model := model_with true.
Definition rows_ok (c : C) : bool :=
  match plot_rows (cs c) (cx c) (cy c) (cvals c) (cxl c) (cyl c), crows c with
  | inl r, Some r' => rows3_eqb r r'
  | inr _, None => true
  | _, _ => false
  end.
Definition res_ok (c : C) : bool := res_eqb (model c) (cexp c).
Definition exact_ok (c : C) : bool := res_eqb (model_with false c) (cexp c).
Definition rot_eqb (a b : list pt) : bool :=
  existsb (fun k => pts_eqb (skipn k a ++ firstn k a) b) (seq 0 (S (List.length a))).
Definition res_rot_ok (c : C) : bool :=
  match model_with false c, cexp c with inl a, inl b => rot_eqb a b | _, _ => false end.
(* the Q_hull spec, against Coq's own reference *)
Definition hull_spec_ok (c : C) : bool :=
  match crows c, chull c with
  | Some r, Some h => pts_same_set h (corners r)
  | _, _ => true
  end.
(* every returned point is a corner *)
Definition res_corners_ok (c : C) : bool :=
  match crows c, cexp c with
  | Some r, inl l => forallb (fun p => existsb (pt_eqb p) (corners r)) l
  | _, _ => true
  end.
Fixpoint bad (f : C -> bool) (l : list C) (i : nat) : list nat :=
  match l with [] => [] | c :: r => if f c then bad f r (S i) else i :: bad f r (S i) end.
"""


def coq_file(items):
    body = PRELUDE + "Definition all_cases : list C :=\n " + cf.lst("\n  " + it for it in items) + ".\n"
    for tag, f in (("ROWS", "rows_ok"), ("RES", "res_ok"), ("EXACT", "exact_ok"),
                   ("ROT", "(fun c => exact_ok c || res_rot_ok c)"),
                   ("HULLSPEC", "hull_spec_ok"), ("RESCORNERS", "res_corners_ok")):
        body += f'Eval vm_compute in ("{tag}", bad {f} all_cases 0).\n'
    return body


def ensure_built():
    """model/Plots.vo must exist (and be newer than its source) before the case files can import it."""
    v = os.path.join(common.COQ, "model", "Plots.v")
    vo = v + "o"
    if not os.path.exists(vo) or os.path.getmtime(vo) < os.path.getmtime(v):
        rc, out, _ = common.run(["coqc"] + common.QFLAGS[:-3] + ["model/Plots.v"], cwd=common.COQ, timeout=600)
        if rc != 0:
            raise SystemExit("cannot build model/Plots.v:\n" + out[-2000:])


def cmp_selftest(k=3):
    """The trigonometry-free comparison [ang_leb] against math.atan2 on every pair of integer vectors of
    [-k,k]^2 (exact ties = parallel vectors of the same direction, decided exactly).  Returns the number of
    pairs checked and the list of disagreeing pair indices (from Coq)."""
    from math import atan2
    vecs = [(a, b) for a in range(-k, k + 1) for b in range(-k, k + 1)]
    items = []
    for d1 in vecs:
        for d2 in vecs:
            a1, a2 = atan2(d1[1], d1[0]), atan2(d2[1], d2[0])
            same_dir = (d1[0] * d2[1] - d1[1] * d2[0] == 0) and (d1[0] * d2[0] + d1[1] * d2[1] > 0)
            zero_tie = (d1 == (0, 0) or d1[1] == 0 and d1[0] > 0) and (d2 == (0, 0) or d2[1] == 0 and d2[0] > 0)
            exp = True if (same_dir or zero_tie) else (a1 <= a2)
            items.append(f"(({cf.q(F(d1[0]))}, {cf.q(F(d1[1]))}), ({cf.q(F(d2[0]))}, {cf.q(F(d2[1]))}), {cf.boolean(exp)})")
    body = ("From Coq Require Import List String Bool QArith ZArith.\nImport ListNotations.\nRequire Import Plots.\n"
            "Local Open Scope string_scope.\n"
            "Fixpoint bad (l : list (pt * pt * bool)) (i : nat) : list nat :=\n"
            "  match l with [] => [] | (d1, d2, e) :: r => if Bool.eqb (ang_leb d1 d2) e then bad r (S i) else i :: bad r (S i) end.\n"
            "Definition pairs : list (pt * pt * bool) :=\n " + cf.lst(items) + ".\n"
            'Eval vm_compute in ("CMP", bad pairs 0).\n')
    rc, out = common.run_cases("c18_plots_cmp", body, timeout=600)
    if rc != 0:
        return len(items), ["coq failure: " + common.first_error(out)]
    return len(items), common.parse_nat_list(out, "CMP")


def _naive_mean(vals):
    """sum(x) / len(x) as the implementation evaluates it: x holds numpy.float64 objects, for which the builtin
    sum() adds left to right in plain double arithmetic (the compensated summation of Python >= 3.12 only applies
    to exact `float` objects)."""
    acc = 0.0
    for v in vals:
        acc = acc + v
    return acc / len(vals)


def cut_float_evidence(rec, d):
    """For a branch-cut rotation: the float dy = p.y - center.y the implementation computed for the points that
    lie exactly on the cut.  A value of -0.0 or a negative rounding residue explains the angle -pi."""
    from math import atan2, copysign
    raw = rec["hull"] if rec["hull"] not in (None, "notcalled") else [p for (_, _, p) in rec["lps"]]
    snapped = d.get("hull") or [p for _, p in d["ext"]]
    xs, ys = [p[0] for p in raw], [p[1] for p in raw]
    c = (_naive_mean(xs), _naive_mean(ys))
    n = len(snapped)
    ce = (sum(p[0] for p in snapped) / n, sum(p[1] for p in snapped) / n)
    out = []
    for r, sp in zip(raw, snapped):
        if sp[1] == ce[1] and sp[0] < ce[0]:
            dy = r[1] - c[1]
            out.append({"point": (str(sp[0]), str(sp[1])), "float_dy": repr(dy), "negative_sign": copysign(1.0, dy) < 0,
                        "float_angle": atan2(dy, r[0] - c[0])})
    return out


def on_cut(pts):
    """is there a point exactly on the atan2 branch cut (dy = 0, dx < 0 w.r.t. the exact centroid)?"""
    n = len(pts)
    c = (sum(p[0] for p in pts) / n, sum(p[1] for p in pts) / n)
    return any(p[1] == c[1] and p[0] < c[0] for p in pts)


def selftest(n=600, seed=18, chunk=150, verbose=True):
    common.assert_pacti_from_repo()
    ensure_built()
    rng = random.Random(seed)
    cases, recs, digs = [], [], []
    for _ in range(n):
        c = gen_case(rng)
        r = run_impl(c)
        cases.append(c)
        recs.append(r)
        digs.append(digest(c, r))
    jobs = []
    for k in range(0, n, chunk):
        items = [coq_case(cases[i], recs[i], digs[i]) for i in range(k, min(n, k + chunk))]
        jobs.append((f"c18_plots_{k // chunk}", coq_file(items)))
    res = common.run_cases_parallel(jobs, timeout=900)
    bad = {t: [] for t in ("ROWS", "RES", "EXACT", "ROT", "HULLSPEC", "RESCORNERS")}
    coq_fail = []
    for j, (name, _) in enumerate(jobs):
        rc, out = res[name]
        if rc != 0:
            coq_fail.append((name, common.first_error(out)))
            continue
        for t in bad:
            l = common.parse_nat_list(out, t)
            if l is None:
                coq_fail.append((name, "no output for " + t))
            else:
                bad[t] += [j * chunk + i for i in l]
    # classification
    # exact-oracle run: may differ only by a rotation caused by points exactly on the branch cut
    cut_rot = [i for i in bad["EXACT"] if i not in bad["ROT"] and digs[i].get("result") and on_cut(digs[i]["result"])]
    mismatches = sorted(set(bad["ROWS"]) | set(bad["RES"]) | (set(bad["EXACT"]) - set(cut_rot)))
    spec = [(i, digs[i]["spec"]) for i in range(n) if digs[i]["spec"]]
    spec_coq = sorted(set(bad["HULLSPEC"]) | set(bad["RESCORNERS"]))
    branches, kinds, ncorn, errs = {}, {}, {}, {}
    for c, r, d in zip(cases, recs, digs):
        b = d["branch"]
        branches[b] = branches.get(b, 0) + 1
        kinds[c["kind"]] = kinds.get(c["kind"], 0) + 1
        if d["branch"] in ("hull", "fallback"):
            ncorn[d["ncorners"]] = ncorn.get(d["ncorners"], 0) + 1
        errs[r["error"]] = errs.get(r["error"], 0) + 1
    summary = {
        "n": n, "seed": seed, "branches": branches, "kinds": kinds, "corners_histogram": dict(sorted(ncorn.items())),
        "outcomes": errs, "model_mismatches": mismatches, "replay_mismatches": sorted(bad["RES"]),
        "exact_oracle_rotations": cut_rot,
        "branch_cut_unexplained": [i for i in cut_rot
                                   if not all(e["negative_sign"] for e in cut_float_evidence(recs[i], digs[i]))],
        "on_cut_cases": sum(1 for d in digs if d.get("result") and on_cut(d["result"])),
        "oracle_spec_violations_py": spec, "oracle_spec_violations_coq": spec_coq, "coq_failures": coq_fail,
        "swap_cases": sum(1 for c, r in zip(cases, recs) if r["rows"] is not None and _y_first(c)),
        "hull_dups": sum(1 for d in digs if d.get("hull_dups")),
    }
    if verbose:
        for k, v in summary.items():
            print(f"{k}: {v}")
        for i in mismatches[:5]:
            print("MISMATCH", i, cases[i], recs[i], digs[i].get("result"))
        for i in cut_rot[:3]:
            print("EXACT-ORACLE ROTATION", i, "impl:", [(str(a), str(b)) for a, b in digs[i]["result"]], "model:",
                  [(str(a), str(b)) for a, b in sort_angular_py(digs[i].get("hull") or [p for _, p in digs[i]["ext"]])[0]],
                  "evidence:", cut_float_evidence(recs[i], digs[i]))
    ncmp, badcmp = cmp_selftest()
    summary["cmp_pairs_checked"] = ncmp
    summary["cmp_disagreements"] = badcmp
    if verbose:
        print(f"cmp_pairs_checked: {ncmp}\ncmp_disagreements: {badcmp}")
    summary["ok"] = not mismatches and not coq_fail and not badcmp
    return summary, (cases, recs, digs)


def _y_first(case):
    """does y_var appear before x_var in the term list (so that the column swap fires)?"""
    for lin, _ in case["cs"]:
        for v in lin:
            if v == case["y"]:
                return True
            if v == case["x"]:
                return False
    return False


if __name__ == "__main__":
    n = int(sys.argv[1]) if len(sys.argv) > 1 else 600
    seed = int(sys.argv[2]) if len(sys.argv) > 2 else 18
    s, _ = selftest(n, seed)
    sys.exit(0 if s["ok"] else 1)
