"""Correspondence between pacti's compound contracts (NestedPolyhedra / PolyhedralIoContractCompound) and
coq/model/Compound.v (property C17).

A generator builds compound contracts with 1-3 alternatives per side over at most three variables
(boxes / half-planes with small-integer or dyadic data: disjoint, touching, overlapping and empty
alternatives).  Every operation is run on the REAL implementation while all scipy.linprog calls are
recorded; the model is then run inside Coq on the replayed LP answers (`table_oracle 0 tbl`) and must
give the same outcome: the same alternatives with the same terms, the same boolean, the same error kind.

    selftest(n)  ->  dict with the number of cases per operation and the mismatches (must be 0)

Set VERIF_COQ=/some/copy/of/coq to evaluate against another build directory than /verif/coq."""
from __future__ import annotations

import os
import random
import sys
from fractions import Fraction as F

sys.path.insert(0, os.path.dirname(os.path.abspath(__file__)))
import common  # noqa: E402

if os.environ.get("VERIF_COQ"):
    common.COQ = os.environ["VERIF_COQ"]
    common.CASES = os.path.join(common.COQ, "cases")

import coqfmt as cf  # noqa: E402
import gen  # noqa: E402
import record  # noqa: E402
from p_poly import observe  # noqa: E402

from pacti.contracts.polyhedral_iocontract import NestedPolyhedra, PolyhedralIoContractCompound  # noqa: E402
from pacti.iocontract import Var  # noqa: E402

PRELUDE = """From Coq Require Import List String Bool QArith ZArith.
Import ListNotations.
Require Import Py ListsGen Sem Term Poly Tactics Corr Compound.
Open Scope string_scope.
Fixpoint nested_close (l1 l2 : nested) : bool :=
  match l1, l2 with
  | [], [] => true
  | a :: r1, b :: r2 => terms_close 0 a b && nested_close r1 r2
  | _, _ => false
  end.
Definition vars_eqb (l1 l2 : list var) : bool := list_eqb (A:=var) l1 l2.
Definition compound_close (c1 c2 : compound) : bool :=
  nested_close (k_a c1) (k_a c2) && nested_close (k_g c1) (k_g c2)
  && vars_eqb (k_inputvars c1) (k_inputvars c2) && vars_eqb (k_outputvars c1) (k_outputvars c2).
"""

VARS = ["x", "y", "z"]


# ------------------------------------------------------------------ rendering
def nested_lit(alts) -> str:
    return cf.lst(cf.terms(a) for a in alts)


def nested_of(n):
    """NestedPolyhedra -> list of alternatives, each a list of (coeff dict, const)"""
    return [cf.pts_of(tl) for tl in n.nested_termlist]


def compound_of(c):
    return {"a": nested_of(c.a), "g": nested_of(c.g), "i": [str(v) for v in c.inputvars], "o": [str(v) for v in c.outputvars]}


def compound_lit(c) -> str:
    return f"(mkCompound {nested_lit(c['a'])} {nested_lit(c['g'])} {cf.svars(c['i'])} {cf.svars(c['o'])})"


def exp(kind, v, render) -> str:
    return f"(Exp {render(v)})" if kind == "ok" else f"(ExpErr {cf.nat(v[0])})"


def oracle(calls) -> str:
    return f"(table_oracle 0 {record.coq_table(calls)})"


# ------------------------------------------------------------------ building the real objects
def mknested(alts, force):
    return NestedPolyhedra([gen.mktl(a) for a in alts], force_empty_intersection=force)


def mkcompound(c):
    """the interface of from_strings without the string parser: NestedPolyhedra(a, True), NestedPolyhedra(g, False), ctor"""
    a = mknested(c["a"], True)
    g = mknested(c["g"], False)
    return PolyhedralIoContractCompound(assumptions=a, guarantees=g,
                                        input_vars=[Var(v) for v in c["i"]], output_vars=[Var(v) for v in c["o"]])


def mkbehavior(b):
    return {Var(k): float(v) for k, v in b}


# ------------------------------------------------------------------ generator
def rand_num(rng):
    return F(rng.randint(-6, 6), rng.choice([1, 1, 1, 2, 4]))


def interval(v, lo, hi, rng):
    """terms for lo <= v <= hi (None = unbounded side); coefficient scaled by a dyadic now and then"""
    out = []
    k = rng.choice([F(1), F(1), F(1), F(2), F(1, 2)])
    if hi is not None:
        out.append(({v: k}, k * hi))
    if lo is not None:
        out.append(({v: -k}, -k * lo))
    if rng.random() < 0.3:
        out.reverse()
    return out


def side_constraints(rng, vs):
    """a few constraints on the other variables: boxes and half-planes"""
    out = []
    for v in vs:
        r = rng.random()
        if r < 0.35:
            lo = rand_num(rng)
            out += interval(v, lo, lo + F(rng.randint(0, 4), rng.choice([1, 2])), rng)
        elif r < 0.5:
            out += interval(v, None, rand_num(rng), rng)
    if len(vs) >= 2 and rng.random() < 0.3:
        a, b = rng.sample(list(vs), 2)
        out.append(({a: F(rng.choice([1, -1, 2])), b: F(rng.choice([1, -1, 2, -2]))}, rand_num(rng)))
    return out


def rand_nested(rng, vs, shape=None):
    """1-3 alternatives over vs, cut along one axis; shape in disjoint / touching / overlapping / mixed"""
    vs = list(vs)
    if not vs:
        return []
    k = rng.randint(1, 3)
    axis = rng.choice(vs)
    others = [v for v in vs if v != axis]
    shape = shape or rng.choice(["disjoint", "disjoint", "touching", "overlapping", "mixed"])
    start = rand_num(rng)
    alts = []
    lo = start
    for idx in range(k):
        width = F(rng.randint(1, 4), rng.choice([1, 2]))
        hi = lo + width
        this_lo, this_hi = lo, hi
        if idx == 0 and rng.random() < 0.2:
            this_lo = None
        if idx == k - 1 and rng.random() < 0.2:
            this_hi = None
        alt = interval(axis, this_lo, this_hi, rng)
        if rng.random() < 0.6:
            alt += side_constraints(rng, others)
        if rng.random() < 0.12:      # an empty alternative: contradictory bounds on some variable
            v = rng.choice(vs)
            c = rand_num(rng)
            alt += [({v: F(1)}, c), ({v: F(-1)}, -c - F(rng.randint(1, 3), rng.choice([1, 2])))]
        if rng.random() < 0.1 and alt:   # a syntactic duplicate inside the alternative
            alt.insert(rng.randint(0, len(alt)), rng.choice(alt))
        alts.append(alt)
        sh = shape if shape != "mixed" else rng.choice(["disjoint", "touching", "overlapping"])
        if sh == "disjoint":
            lo = hi + F(rng.randint(1, 3), rng.choice([1, 2, 4]))
        elif sh == "touching":
            lo = hi
        else:
            lo = hi - width * F(rng.randint(1, 3), 4)
    if rng.random() < 0.25:
        rng.shuffle(alts)
    if rng.random() < 0.05:
        alts.append([])               # an alternative without constraints ("true")
    return alts


def widen(rng, alts):
    """a nested list that (mostly) contains the given one alternative-wise"""
    out = []
    for alt in alts:
        m = F(rng.randint(0, 2), rng.choice([1, 2]))
        keep = [t for t in alt if rng.random() < 0.85]
        out.append([(co, c + m * sum(abs(a) for a in co.values())) for co, c in keep])
    if rng.random() < 0.3 and len(out) > 1:
        out.pop(rng.randrange(len(out)))
    if rng.random() < 0.3:
        rng.shuffle(out)
    return out


def rand_behaviors(rng, vs, nests, n=3):
    """points: random, boundary (a constraint made tight), with a missing or an extra variable"""
    out = []
    terms = [t for alts in nests for alt in alts for t in alt]
    for _ in range(n):
        p = {v: rand_num(rng) for v in vs}
        if terms and rng.random() < 0.6:
            co, c = rng.choice(terms)
            v = rng.choice(list(co))
            rest = sum(a * p.get(w, F(0)) for w, a in co.items() if w != v)
            p[v] = (c - rest) / co[v]                       # on the boundary of that constraint
            if rng.random() < 0.3:
                p[v] += F(rng.choice([-1, 1]), 2 ** rng.choice([1, 10, 20]))
        items = list(p.items())
        rng.shuffle(items)
        r = rng.random()
        if r < 0.15 and items:
            items.pop(rng.randrange(len(items)))             # unassigned variable
        elif r < 0.3:
            items.append(("w", rand_num(rng)))               # extra variable
        out.append(items)
    return out


def rand_scenario(rng):
    nv = rng.randint(1, 3)
    vs = rng.sample(VARS, nv)
    ni = rng.randint(1, nv) if rng.random() < 0.9 else 0
    ins, outs = vs[:ni], vs[ni:]
    sc = {"i": ins, "o": outs}
    a_shape = rng.choice(["disjoint", "disjoint", "disjoint", "touching", "overlapping", "mixed"])
    sc["a1"] = rand_nested(rng, ins, a_shape)
    sc["g1"] = rand_nested(rng, vs)
    r = rng.random()
    if r < 0.4:
        sc["a2"] = widen(rng, sc["a1"])
        sc["g2"] = widen(rng, sc["g1"])
    elif r < 0.5:
        sc["a2"] = [list(a) for a in sc["a1"]]
        sc["g2"] = [list(a) for a in reversed(sc["g1"])]
    else:
        sc["a2"] = rand_nested(rng, ins, rng.choice(["disjoint", "disjoint", "touching", "overlapping"]))
        sc["g2"] = rand_nested(rng, vs)
    # interface of the second contract: mostly the same, sometimes shifted roles / extra / duplicated names
    i2, o2 = list(ins), list(outs)
    r = rng.random()
    if r < 0.06 and o2:
        i2.append(o2.pop(0))                                  # input of one contract, output of the other (merge must reject)
    elif r < 0.1 and o2:
        i2.append(o2[0])                                      # input and output of the same contract
    elif r < 0.2:
        o2.append("w")
    elif r < 0.25 and i2:
        i2.append(i2[0])                                      # repeated entry
    elif r < 0.3 and i2:
        i2 = i2[1:]                                           # assumptions mention a non-input
    elif r < 0.35:
        rng.shuffle(i2)
    sc["i2"], sc["o2"] = i2, o2
    sc["beh"] = rand_behaviors(rng, vs, [sc["a1"], sc["g1"], sc["a2"], sc["g2"]])
    return sc


# ------------------------------------------------------------------ cases
def cases_of(sc):
    """Run the implementation on one scenario; returns [(operation name, Gallina boolean expression, replay info)]"""
    out = []

    def add(name, f, model, render, info):
        kind, v, calls = observe(f)
        e = exp(kind, v, render)
        out.append((name, f"agree {model[0]} ({model[1].format(O=oracle(calls))}) {e}",
                    {"op": name, "input": info, "observed": (kind, str(v)[:300]), "lp_calls": len(calls)}))
        return kind, v

    rb = cf.boolean
    rn = lambda n: nested_lit(nested_of(n))          # noqa: E731
    rc = lambda c: compound_lit(compound_of(c))      # noqa: E731
    rv = lambda vs: cf.svars(str(v) for v in vs)     # noqa: E731

    nests = {}
    for key in ("a1", "g1", "a2", "g2"):
        alts = sc[key]
        for force in (True, False):
            k, v = add("init", lambda: mknested(alts, force), ("nested_close", f"nested_init {{O}} {nested_lit(alts)} {rb(force)}"),
                       rn, {"alts": alts, "force": force})
        nests[key] = v if k == "ok" else None          # the unforced object always exists
    a1, g1, a2, g2 = nests["a1"], nests["g1"], nests["a2"], nests["g2"]
    L = {k: nested_lit(nested_of(v)) for k, v in nests.items()}

    for p, q in (("a1", "a2"), ("g1", "g2"), ("g2", "g1"), ("a1", "a1")):
        add("le", lambda: nests[p] <= nests[q], ("Bool.eqb", f"nested_le {{O}} {L[p]} {L[q]}"), rb, {"l": sc[p], "r": sc[q]})
    add("eq", lambda: a1 == a2, ("Bool.eqb", f"nested_eqb {{O}} {L['a1']} {L['a2']}"), rb, {"l": sc["a1"], "r": sc["a2"]})
    add("eq", lambda: g1 == g1, ("Bool.eqb", f"nested_eqb {{O}} {L['g1']} {L['g1']}"), rb, {"l": sc["g1"], "r": sc["g1"]})
    for p, q, force in (("a1", "a2", True), ("a1", "a2", False), ("g1", "g2", False), ("g1", "g2", True)):
        add("intersect", lambda: nests[p].intersect(nests[q], force),
            ("nested_close", f"nested_intersect {{O}} {L[p]} {L[q]} {rb(force)}"), rn, {"l": sc[p], "r": sc[q], "force": force})
    add("simplify", lambda: g1.simplify(a1, False), ("nested_close", f"nested_simplify {{O}} {L['g1']} {L['a1']} false"), rn,
        {"self": sc["g1"], "ctx": sc["a1"]})
    add("vars", lambda: g1.vars, ("vars_eqb", f"inl (nested_vars {L['g1']})"), rv, {"n": sc["g1"]})
    add("copy", lambda: a1.copy(True), ("nested_close", f"nested_copy {{O}} {L['a1']} true"), rn, {"n": sc["a1"]})
    for b in sc["beh"]:
        for p in ("a1", "g1", "g2"):
            add("contains", lambda: nests[p].contains_behavior(mkbehavior(b)),
                ("Bool.eqb", f"nested_contains {L[p]} {cf.pvars(b)}"), rb, {"n": sc[p], "b": b})

    # compound contracts
    d1 = {"a": sc["a1"], "g": sc["g1"], "i": sc["i"], "o": sc["o"]}
    d2 = {"a": sc["a2"], "g": sc["g2"], "i": sc["i2"], "o": sc["o2"]}
    comps = []
    for d in (d1, d2):
        k, v = add("from_parsed", lambda: mkcompound(d),
                   ("compound_close", f"compound_from_parsed {{O}} {nested_lit(d['a'])} {nested_lit(d['g'])} {cf.svars(d['i'])} {cf.svars(d['o'])}"),
                   rc, d)
        comps.append(v if k == "ok" else None)
        # the bare constructor on unchecked nested lists (assumptions built without the disjointness test)
        na, ng = mknested(d["a"], False), mknested(d["g"], False)
        add("compound_init", lambda: PolyhedralIoContractCompound(na, ng, [Var(x) for x in d["i"]], [Var(x) for x in d["o"]]),
            ("compound_close", f"compound_init {{O}} {nested_lit(nested_of(na))} {nested_lit(nested_of(ng))} {cf.svars(d['i'])} {cf.svars(d['o'])}"),
            rc, d)
    c1, c2 = comps
    if c1 is not None and c2 is not None:
        l1, l2 = compound_lit(compound_of(c1)), compound_lit(compound_of(c2))
        add("merge", lambda: c1.merge(c2), ("compound_close", f"compound_merge {{O}} {l1} {l2}"), rc, {"c1": d1, "c2": d2})
        add("merge", lambda: c2.merge(c1), ("compound_close", f"compound_merge {{O}} {l2} {l1}"), rc, {"c1": d2, "c2": d1})
        add("compound_eq", lambda: c1 == c2, ("Bool.eqb", f"compound_eqb {{O}} {l1} {l2}"), rb, {"c1": d1, "c2": d2})
    if c1 is not None:
        l1 = compound_lit(compound_of(c1))
        add("merge", lambda: c1.merge(c1), ("compound_close", f"compound_merge {{O}} {l1} {l1}"), rc, {"c1": d1, "c2": d1})
        add("compound_eq", lambda: c1 == c1, ("Bool.eqb", f"compound_eqb {{O}} {l1} {l1}"), rb, {"c1": d1, "c2": d1})
    return out


def evaluate(tag, exprs, chunk=150):
    """exprs: Gallina booleans.  Returns (indices Coq evaluated to false, compile errors)."""
    jobs = []
    for k in range(0, len(exprs), chunk):
        body = PRELUDE + "Definition results : list bool := [\n  " + ";\n  ".join(exprs[k:k + chunk]) + "].\n"
        body += 'Eval vm_compute in ("mismatch", falses 0 results).\n'
        jobs.append((f"{tag}_{k // chunk}", body))
    res = common.run_cases_parallel(jobs)
    mism, errors = [], []
    for k in range(0, len(exprs), chunk):
        rc, out = res[f"{tag}_{k // chunk}"]
        idx = common.parse_nat_list(out, "mismatch") if rc == 0 else None
        if idx is None:
            errors.append(common.first_error(out))
        else:
            mism += [k + i for i in idx]
    return mism, errors


def model_result(expr):
    """what the model computes for the left operand of a case (debugging a mismatch)"""
    body = PRELUDE + f"Eval vm_compute in ({expr}).\n"
    rc, out = common.run_cases("c17_dbg", body)
    return out


def selftest(n=300, seed=20240601, tag="c17"):
    common.assert_pacti_from_repo()
    rng = random.Random(seed)
    cases = []
    for _ in range(n):
        cases += cases_of(rand_scenario(rng))
    # canary: a deliberately wrong expectation must be reported, otherwise the comparison has no teeth
    cases.append(("canary", "agree Bool.eqb (nested_contains [] []) (Exp true)", {"op": "canary", "observed": ("ok", ""), "lp_calls": 0}))
    mism, errors = evaluate(tag, [c[1] for c in cases])
    canary = len(cases) - 1
    canary_ok = canary in mism
    mism = [i for i in mism if i != canary]
    cases.pop()
    per_op, outcomes = {}, {}
    for name, _, info in cases:
        per_op[name] = per_op.get(name, 0) + 1
        key = (name, "error" if info["observed"][0] == "err" else info["observed"][1][:5] if name in ("le", "eq", "contains", "compound_eq") else "value")
        outcomes[key] = outcomes.get(key, 0) + 1
    return {
        "scenarios": n, "cases": len(cases), "per_operation": per_op,
        "outcomes": {f"{k[0]}:{k[1]}": v for k, v in sorted(outcomes.items())},
        "lp_calls": sum(c[2]["lp_calls"] for c in cases),
        "mismatches": len(mism), "coq_errors": errors, "canary_detected": canary_ok,
        "first_mismatches": [cases[i][2] for i in mism[:5]],
        "first_mismatch_exprs": [cases[i][1] for i in mism[:2]],
    }


if __name__ == "__main__":
    import json
    n = int(sys.argv[1]) if len(sys.argv) > 1 else 300
    seed = int(sys.argv[2]) if len(sys.argv) > 2 else 20240601
    r = selftest(n, seed)
    exprs = r.pop("first_mismatch_exprs")
    print(json.dumps(r, indent=1, default=str))
    for e in exprs:
        print("MISMATCH EXPR:", e[:3000])
    sys.exit(0 if r["mismatches"] == 0 and not r["coq_errors"] and r["canary_detected"] else 1)
