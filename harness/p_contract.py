"""Contract-level generators, correspondence rendering and exact oracles (C01, C02, C08, C15, C16)."""
from __future__ import annotations

import itertools
from concurrent.futures import ProcessPoolExecutor
from fractions import Fraction as F

import coqfmt as cf
import exactlp as lp
import gen
import p_poly as pp

ORDERS = [None, [1], [2], [3], [4], [5], [1, 2, 3, 4, 5], [2, 1], [5, 4, 3, 2, 1], [3, 1, 2]]
WIRINGS = ["independent", "cascade", "cascade_rev", "shared_inputs", "feedback", "cascade2", "cascade_onesided", "kaykobad3", "tiny_coupling"]


# ------------------------------------------------------------------ generators
def _terms(rng, vs, n, p, special=None, need=None):
    out = []
    for _ in range(n):
        for _try in range(10):
            t = gen.rand_term(rng, vs, "dyadic", point=p, special=special, special_kind="pow2", pmax=3)
            if need is None or any(v in t[0] for v in need):
                break
        out.append(t)
    return out


def two_sided(rng, lin, p, width=4):
    """lo <= lin <= hi around the point (so that eliminations through it succeed)"""
    val = sum(a * p.get(v, F(0)) for v, a in lin.items())
    hi = val + F(rng.randint(0, width), 2)
    lo = val - F(rng.randint(0, width), 2)
    return [(dict(lin), hi), ({v: -a for v, a in lin.items()}, -lo)]


def gen_pair(rng, wiring=None):
    """Two composable polyhedral contracts (dicts a,g,i,o) in the requested wiring."""
    wiring = wiring or rng.choice(WIRINGS)
    if wiring == "tiny_coupling":
        # the consumer's assumption mentions the connected variable with a coefficient below 1e-6 while that variable ranges
        # over hundreds: 9.5e-7 * 900 is far above the tolerance, the coupling must survive the elimination
        hi = F(rng.choice([600, 800, 900]))
        c1 = {"a": [({"x": F(1)}, hi), ({"x": F(-1)}, F(0))], "g": [({"y": F(1), "x": F(-1)}, F(0)), ({"y": F(-1), "x": F(1)}, F(0))],
              "i": ["x"], "o": ["y"]}
        c2 = {"a": [({"u": F(1), "y": F(rng.choice([1, -1]), 2 ** 20)}, F(1, 2))], "g": [({"v": F(1), "u": F(-1)}, F(0))],
              "i": ["y", "u"], "o": ["v"]}
        if rng.random() < 0.5:
            c1, c2 = c2, c1
        return wiring, c1, c2
    if wiring == "kaykobad3":
        # producer: three outputs tied together by a matrix of guarantees; consumer: one assumption (and one guarantee) over all
        # three (the Kaykobad test of tactics 1 and 3 decides whether the rows may be solved as equalities)
        ts, rows, elim, kept = gen.kaykobad_case(rng, True, names=["y", "z", "u", "x", "w"])
        ts2, _, _, _ = gen.kaykobad_case(rng, False, names=["y", "z", "u", "x", "w"])
        g2 = {k: a for k, a in ts2[0][0].items() if k in elim}
        g2["v"] = F(-1)
        c1 = {"a": [], "g": [t for t in rows], "i": ["x"], "o": list(elim)}
        c2 = {"a": [({k: a for k, a in ts[0][0].items() if k != "x"} | {"w": F(1)}, ts[0][1])], "g": [(g2, F(0)), ({"v": F(1)}, F(50))],
              "i": list(elim) + ["w"], "o": ["v"]}
        for t in c1["g"]:
            if "w" in t[0]:
                t[0]["x"] = t[0].pop("w")
        if rng.random() < 0.5:
            c1, c2 = c2, c1
        return wiring, c1, c2
    if wiring == "independent":
        i1, o1, i2, o2 = ["x"], ["y"], ["u"], ["v"]
    elif wiring in ("cascade", "cascade_rev"):
        i1, o1, i2, o2 = ["x"], ["y"], ["y"], ["v"]
        if rng.random() < 0.4:
            i2 = ["y", "u"]
    elif wiring == "cascade_onesided":
        i1, o1, i2, o2 = ["x"], ["y"], ["y", "u"], ["v"]
    elif wiring == "cascade2":
        i1, o1, i2, o2 = ["x", "w"], ["y", "z"], ["y", "z"], ["v"]
    elif wiring == "shared_inputs":
        i1, o1, i2, o2 = ["x", "w"], ["y"], ["x"], ["v"]
    else:  # feedback: each reads an output of the other; fed-back inputs must stay unconstrained by assumptions
        i1, o1, i2, o2 = ["x", "v"], ["y"], ["y"], ["v"]
    allv = list(dict.fromkeys(i1 + o1 + i2 + o2))
    p = gen.rand_point(rng, allv)
    conn = [v for v in o1 if v in i2] + [v for v in o2 if v in i1]

    def contract(ins, outs, a_ok_vars):
        a = _terms(rng, a_ok_vars, rng.randint(0, 2), p, special=conn) if a_ok_vars else []
        g = []
        for o in outs:            # each output tied to the inputs from both sides (a usable context)
            lin = {o: rng.choice(gen.POW2[:4])}
            for v in rng.sample(ins, rng.randint(1, len(ins))):
                lin[v] = gen.rand_coef(rng, "pow2" if v in conn else "dyadic")
            g += two_sided(rng, lin, p) if rng.random() < 0.8 else two_sided(rng, lin, p)[:1]
        g += _terms(rng, ins + outs, rng.randint(0, 1), p, special=conn)
        rng.shuffle(g)
        return {"a": a, "g": g, "i": list(ins), "o": list(outs)}
    if wiring == "feedback":
        c1 = contract(i1, o1, ["x"])
        c2 = contract(i2, o2, [])
    else:
        c1 = contract(i1, o1, i1)
        c2 = contract(i2, o2, i2)
        if conn and rng.random() < 0.8 and not c2["a"]:
            c2["a"] = _terms(rng, i2, 1, p, special=conn, need=conn)
        if conn and rng.random() < 0.5:
            # several consumer assumptions over the connected variable (each could "help" refine the other)
            c2["a"] = c2["a"] + _terms(rng, i2, rng.randint(1, 2), p, special=conn, need=conn)
    if wiring == "cascade_onesided":
        # the producer bounds its output from one side only; the consumer has several assumptions over the connected
        # variable, so each could only be refined "with the help of" its siblings (which would be circular)
        sgn = rng.choice([1, -1])
        onesided = [t for t in c1["g"] if "y" in t[0] and t[0]["y"] * sgn > 0]
        c1["g"] = onesided or c1["g"][:1]
        c2["a"] = _terms(rng, i2, rng.randint(2, 3), p, special=conn, need=conn)
        if rng.random() < 0.5:
            c1, c2 = c2, c1
    if wiring == "cascade_rev":
        c1, c2 = c2, c1
    return wiring, c1, c2


def exact_safe_pair(c1, c2, quotient=False):
    """every term mentions at most one variable that gets eliminated: the tactics' float arithmetic is then exact
    (power-of-two pivots); otherwise cancellations may differ between floats and rationals (oracle only)"""
    if quotient:
        conn = (set(c1["o"]) & set(c2["o"])) | (set(c1["i"]) & set(c2["i"])) | set(c1["o"]) | set(c2["i"])
    else:
        conn = set(c1["o"]) & set(c2["i"]) | set(c2["o"]) & set(c1["i"])
    return all(sum(1 for v in t[0] if v in conn) <= 1 for c in (c1, c2) for t in c["a"] + c["g"])


def overlap_guarantees(rng, c1, c2):
    """C15: plant identical / scaled / mutually implied interface-level terms on both sides."""
    shared = [v for v in c1["i"] + c1["o"] if v in c2["i"] + c2["o"]]
    common_in = [v for v in c1["i"] if v in c2["i"]]
    pool = common_in or [v for v in c1["i"] if v not in c2["o"]]
    if not pool:
        return
    t = gen.rand_term(rng, pool, "dyadic", pmax=1)
    mode = rng.choice(["identical", "scaled", "implied", "near_equal", "tiny_coefficient", "assumed_and_guaranteed", "assumed_and_guaranteed"])
    if mode == "assumed_and_guaranteed":
        # one operand GUARANTEES a bound that the other one ASSUMES (about a connecting variable, or about a shared input): the
        # assumption is discharged by the guarantee and disappears from the result -- the guarantee must then stay
        conn_12 = [v for v in c1["o"] if v in c2["i"]]
        conn_21 = [v for v in c2["o"] if v in c1["i"]]
        shared_in = [v for v in c1["i"] if v in c2["i"]]
        bound = F(rng.randint(2, 6))
        sign = rng.choice([1, -1])
        if conn_12 and rng.random() < 0.7:
            y = rng.choice(conn_12)
            c1["g"].append(({y: F(sign)}, bound))
            c2["a"].append(({y: F(sign)}, bound - rng.choice([0, 0, 1])))
        elif conn_21:
            y = rng.choice(conn_21)
            c2["g"].append(({y: F(sign)}, bound))
            c1["a"].append(({y: F(sign)}, bound - rng.choice([0, 0, 1])))
        elif shared_in:
            x = rng.choice(shared_in)
            c1["g"].append(({x: F(sign)}, bound))
            c2["a"].append(({x: F(sign)}, bound))
        return
    both = [v for v in c1["i"] + c1["o"] if v in c2["i"] + c2["o"] and v not in (set(c1["o"]) & set(c2["i"])) | (set(c2["o"]) & set(c1["i"]))]
    if mode == "tiny_coefficient":
        # an interface-level guarantee with one coefficient below 1e-6 (9.5e-7) next to an ordinary one, over a shared input
        # nothing else constrains: worth 9.5e-4 at the edge of the box, far above the tolerance -- it must not be dropped
        for c in (c1, c2):
            c["i"] = list(c["i"]) + ["p"]
        tgt = rng.choice([c1, c2])
        tgt["g"].append(({tgt["o"][0]: F(rng.choice([1, -1, 2])), "p": F(rng.choice([1, -1]), 2 ** 20)}, F(rng.randint(0, 3))))
        return
    if mode == "near_equal":
        # two different guarantees that agree up to 4e-6 relative in one coefficient (4e-3 apart at the edge of the box),
        # over two shared inputs that nothing else constrains
        x, y = "p", "q"
        for c in (c1, c2):
            c["i"] = list(c["i"]) + [x, y]
        t = ({x: gen.rand_coef(rng, "pow2"), y: gen.rand_coef(rng, "pow2")}, F(rng.randint(0, 6)))
        t2 = ({x: t[0][x] * (1 + F(1, 2 ** 18)), y: t[0][y]}, t[1])
        c1["g"].append(t)
        c2["g"].append(t2)
        return
    c1["g"].append(t)
    if all(v in c2["i"] + c2["o"] for v in t[0]):
        if mode == "identical":
            c2["g"].append((dict(t[0]), t[1]))
        elif mode == "scaled":
            c2["g"].append(gen.scaled(rng, t))
        else:
            c2["g"].append((dict(t[0]), t[1] + F(rng.randint(0, 2))))


# ------------------------------------------------------------------ Gallina rendering
def cfields(c):
    return f"{cf.terms(c['a'])} {cf.terms(c['g'])} {cf.svars(c['i'])} {cf.svars(c['o'])}"


def exp_contract_fields(c):
    return f"({cf.terms(c['a'])}, {cf.terms(c['g'])}, {cf.svars(c['i'])}, {cf.svars(c['o'])})"


def exp_pair(kind, v):
    if kind == "ok":
        c, st = v
        stats = cf.lst(cf.lst(f"(({int(s[0])})%Z, ({int(s[2])})%Z)" for s in one) for one in st)
        return f"(Exp ({exp_contract_fields(cf.contract_of(c))}, {stats}))"
    return f"(ExpErr {cf.nat(v[0])})"


def exp_one(kind, v):
    if kind == "ok":
        return f"(Exp {exp_contract_fields(cf.contract_of(v))})"
    return f"(ExpErr {cf.nat(v[0])})"


# ------------------------------------------------------------------ exact oracles (pure functions)
def neg_slack(t, slack=pp.SLACK):
    """the closed set 'assumption t violated by at least slack*(1+|c|)'"""
    return ({v: -a for v, a in t[0].items()}, -(t[1] + slack * (1 + abs(t[1]))))


def honour_cases(c):
    """disjuncts of 'component honours its contract': guarantees hold, or some assumption is violated (with slack)"""
    return [list(c["g"])] + [[neg_slack(t)] for t in c["a"]]


def first_violation(hyps_cases, targets, allvars):
    """hyps_cases: list of lists of alternatives (one list per hypothesis).  Returns (target, point, certs) or (None, None, certs)."""
    certs = []
    box = lp.box_terms(allvars, pp.BOX)
    for combo in itertools.product(*hyps_cases):
        H = [t for part in combo for t in part] + box
        r = lp.feasible(H)
        if r["status"] == "infeasible":
            certs.append(("infeasible", H, r["y"]))
            continue
        for t in targets:
            if any(t is h for h in H):
                continue
            r = lp.maximize(t[0], H)
            bound = t[1] + pp.TOL * (1 + abs(t[1]))
            if r["status"] == "opt" and r["max"] > bound:
                certs.append(("witness", H, t, pp.TOL, r["point"]))
                return t, r["point"], certs
            if r["status"] == "opt":
                certs.append(("implies", H, (t[0], bound), r["y"]))
    return None, None, certs


def allvars_of(*cs):
    vs = []
    for c in cs:
        for v in c["i"] + c["o"] + lp.term_vars(c["a"] + c["g"]):
            if v not in vs:
                vs.append(v)
    return vs


def oracle_compose(args):
    """C01: a_c and both components honoured  =>  a1, a2, g_c."""
    c1, c2, c = args
    vs = allvars_of(c1, c2, c)
    t, p, certs = first_violation([[list(c["a"])], honour_cases(c1), honour_cases(c2)], c1["a"] + c2["a"] + c["g"], vs)
    return (None if t is None else {"violated": cf.jsonable_term(t), "point": {k: str(x) for k, x in p.items()}}), certs


def oracle_quotient(args):
    """C02: a_c, divisor and quotient honoured  =>  a1, a_q, g_c.   (c dividend, c1 divisor, q quotient)"""
    c, c1, q = args
    vs = allvars_of(c, c1, q)
    t, p, certs = first_violation([[list(c["a"])], honour_cases(c1), honour_cases(q)], c1["a"] + q["a"] + c["g"], vs)
    return (None if t is None else {"violated": cf.jsonable_term(t), "point": {k: str(x) for k, x in p.items()}}), certs


def oracle_merge(args):
    """C08: a_m <=> a1 & a2 ; under a_m: g_m <=> g1 & g2 ; interface = unions."""
    c1, c2, m = args
    vs = allvars_of(c1, c2, m)
    certs = []
    for hyp, targets, what in (([m["a"]], c1["a"] + c2["a"], "assumption of an operand not implied by the merged assumptions"),
                               ([c1["a"] + c2["a"]], m["a"], "merged assumption not implied by the operands' assumptions"),
                               ([m["a"] + m["g"]], c1["g"] + c2["g"], "guarantee of an operand lost"),
                               ([c1["a"] + c2["a"] + c1["g"] + c2["g"]], m["g"], "merged guarantee not implied by the operands")):
        t, p, cs = first_violation([hyp], targets, vs)
        certs += cs
        if t is not None:
            return {"what": what, "violated": cf.jsonable_term(t), "point": {k: str(x) for k, x in p.items()}}, certs
    return None, certs


def oracle_kept_guarantees(args):
    """C15: every guarantee of an operand over the result's interface is implied by a_c & g_c."""
    c1, c2, c = args
    iface = set(c["i"]) | set(c["o"])
    vs = allvars_of(c1, c2, c)
    targets = [t for t in c1["g"] + c2["g"] if set(t[0]) <= iface]
    t, p, certs = first_violation([[c["a"] + c["g"]]], targets, vs)
    return (None if t is None else {"violated": cf.jsonable_term(t), "point": {k: str(x) for k, x in p.items()}}), certs


def oracle_exact_composition(args):
    """C15 second sentence: no connection => a_c == a1 & a2 and (under a_c) g_c == g1 & g2."""
    return oracle_merge(args)


def run_oracles(fn, arglist, workers=14):
    """map a pure oracle over many cases in a process pool; certificates are collected for Coq."""
    if not arglist:
        return []
    with ProcessPoolExecutor(max_workers=workers) as ex:
        res = list(ex.map(fn, arglist, chunksize=4))
    out = []
    for r, certs in res:
        pp.CERTS.extend(certs)
        out.append(r)
    return out
