#!/usr/bin/env python3
"""Regenerate /verif/MANIFEST.json from the table below (keeps it valid at all times)."""
import json
import os

VERIF = os.path.dirname(os.path.dirname(os.path.abspath(__file__)))

NOTE_R = ("Trusted: coqc 8.16.1 kernel + vm_compute (no native_compute); stdlib real-number axioms "
          "ClassicalDedekindReals.sig_forall_dec and FunctionalExtensionality.functional_extensionality_dep (Print Assumptions "
          "under every theorem, gate on an allow-list); hand-written model tied to the code by correspondence only (generators, "
          "float->Q via as_integer_ratio, linprog recorder); scipy/HiGHS assumed to meet lp_spec 0 / lp_total (every recorded "
          "answer re-validated by an exact rational simplex); IEEE rounding is outside the theorems and is watched by the "
          "tolerance-reading oracle whose verdicts are certificates accepted by base/Farkas.v.")
NOTE_T1 = ("Trusted: coqc 8.16.1 kernel; no axioms (Print Assumptions: closed under the global context); translator "
           "translator/py2coq.py (python ast -> Gallina, fail-closed, value model: copy() is the identity), cross-checked on "
           "every run against the real IoContract on a scripted symbolic TermList.")

CHECKS = {
    "C05": dict(
        technique="Coq proof over a model regenerated from source (T1 translator) + symbolic cross-check + brute-force semantic search",
        text=("Theorems C05_compose/_quotient/_merge/_refines/_errors_* (props/C05.v) hold for EVERY Domain and DomainSpec, i.e. for "
              "all constraint domains, all contents, all interface wirings and all outcomes of every primitive call, and are "
              "re-proved on every run against gen/AlgebraGen.v regenerated from iocontract.py; a change of context/operand/"
              "conjunction/try-except in the algebra breaks the proof, after which the real code is searched with a sound finite "
              "domain for a concrete behaviour violating the obligation."),
        design="4 (C05), 4.0", note=NOTE_T1),
    "C06": dict(
        technique="Coq proof over a model regenerated from source (T1 translator) + symbolic cross-check + request enumeration",
        text=("Theorems C06_* (props/C06.v): every constructor path yields a well-formed contract, compose/quotient/merge/rename/"
              "copy have exactly the interface prescribed by the property text (proofs/IfaceSpec.v, written independently of the "
              "code), and each kind of meaningless request returns IncompatibleArgs before any primitive is called; unbounded in "
              "the number of variables and for every Domain. Re-proved on every run against the regenerated gen/*.v."),
        design="4 (C06)", note=NOTE_T1 + " DomainVars (simplify invents no variable; renaming renames) is a hypothesis of the wf theorems."),
    "C07": dict(
        technique="Coq proof about a hand-written executable model + correspondence with LP replay + certified exact oracle",
        text=("Theorems C07_selection/_coefficients/_equiv/_irredundant/_error (props/C07.v) about model/Poly.v poly_simplify for every "
              "LP oracle meeting lp_spec 0: the result is a sub-sequence of the input with the same coefficients, equivalent in the "
              "context, irredundant, and ValueError implies infeasibility. The model is run inside Coq on the implementation's own "
              "recorded LP answers and must reproduce its output exactly; C07 is also decided exactly on each implementation output. C07_code_*: simplify, reduce_polytope (while loop on proved-sufficient fuel), termlist_to_polytope and polytope_to_termlist as translated from polyhedra.py on this run equal model/Poly.v (T1 tie)."),
        design="4 (C07)", note=NOTE_R),
    "C01": dict(
        technique="Coq proof: algebra theorem over the model regenerated from source (T1) instantiated with the hand-written polyhedral model (T2) + correspondence with LP replay + certified exact oracle",
        text=("Theorem C01 (props/C01.v): for every LP oracle meeting lp_spec 0, every pair of well-formed polyhedral contracts in any wiring, "
              "every vars_to_keep, both simplify flags and EVERY tactic order, a returned composition is a sound abstraction (where its "
              "assumptions hold and both components honour their contracts, both components' assumptions and its guarantees hold). "
              "It is C05 (any constraint domain; re-proved on every run against the regenerated algebra) applied to the polyhedral "
              "DomainSpec instance C01_domain_spec, itself proved from C04 (all five tactics), C07 and the term lemmas. The real "
              "compose_tactics is replayed through the translated algebra over the polyhedral model and each result is decided "
              "exactly (case split of the 'honours' hypotheses into LPs with Coq-checked certificates)."),
        design="4 (C01)", note=NOTE_R),
    "C02": dict(
        technique="Coq proof: algebra theorem over the model regenerated from source (T1) instantiated with the hand-written polyhedral model (T2) + correspondence with LP replay + certified exact oracle",
        text=("Theorems C02 / C02_refines_not_true / C02_contained / C02_tolerant (props/C02.v): the quotient with the divisor refines "
              "the dividend, for every oracle, additional inputs, simplify flag and tactic order. The single use of the (tolerance-"
              "based) refinement test inside the quotient is made explicit: the statement is pointwise in that premise, unconditional "
              "when the test did not answer True or when the dividend's assumptions are exactly contained in the divisor's. Real "
              "quotient_tactics replayed through the model; C02's conclusion decided exactly per result."),
        design="4 (C02)", note=NOTE_R),
    "C08": dict(
        technique="Coq proof: algebra theorem over the model regenerated from source (T1) instantiated with the hand-written polyhedral model (T2) + correspondence with LP replay + certified exact oracle",
        text=("Theorems C08 / C08_either_order (props/C08.v): merged assumptions are equivalent to the conjunction of both, under them "
              "the merged guarantees allow exactly what both guarantees allow, the interface is the pair of unions, and both operand "
              "orders give the same interface sets and meaning. Real merge replayed through the model (exact comparison), both "
              "equivalences decided exactly in both operand orders."),
        design="4 (C08)", note=NOTE_R),
    "C15": dict(
        technique="Coq proof: algebra theorem over the model regenerated from source (T1) instantiated with the hand-written polyhedral model (T2) + correspondence with LP replay + certified exact oracle",
        text=("Theorems C15_compose / C15_exact / C15_merge for every domain meeting DomainSpec+KeepSpec (relaxing a list that mentions no "
              "eliminated variable is an equivalence in context; results mention no eliminated variable) and their polyhedral "
              "instances C15_compose_polyhedral / C15_exact_polyhedral / C15_merge_polyhedral (props/C15.v): every operand guarantee "
              "over the result's interface is implied by the result; composition without connection is exact. Proved after the D7 "
              "repair of compose_tactics (the statement is false of the pinned code). Oracle: both clauses decided exactly on planted "
              "identical / scaled / implied overlapping guarantees."),
        design="4 (C15)", note=NOTE_R),
    "C16": dict(
        technique="Coq proof: algebra theorem over the model regenerated from source (T1) instantiated with the hand-written polyhedral model (T2) + correspondence with LP replay + certified exact oracle",
        text=("Theorems C16 / C16_sequence / C16_interface / C16_absent / C16_clash / C16_term (props/C16.v): the renamed contract's "
              "assumptions (and, under them, guarantees) hold at a behaviour exactly when the originals hold at the renamed behaviour, "
              "for single renamings and sequences (composition of substitutions, swaps through a temporary name), with the prescribed "
              "interface update, identity on absent variables and IncompatibleArgs on clashes. rename_variables replayed through the "
              "model; results compared with explicit substitution, exactly. C16_code_rename_variable: PolyhedralTerm.rename_variable "
              "as translated from polyhedra.py on this run (gen/TermGen.v) equals the model function, and C16_code_rename_variables: "
              "PolyhedralIoContract.rename_variables as translated from polyhedral_iocontract.py (gen/WrapGen.v) equals the model's fold (T1 tie)."),
        design="4 (C16)", note=NOTE_R),
    "C19": dict(
        technique="Coq proof over the regenerated IoContract.__eq__/__hash__ (T1) and the term model + pairwise observation of == and hash() on real objects",
        text=("Theorems C19_contract_eq_fields (equal iff all four fields equal, for every domain; re-proved against the regenerated "
              "__eq__, so comparing the wrong field breaks it), reflexivity/symmetry/transitivity at term, list and contract level, "
              "equal objects have equal hash keys, copies are equal (props/C19.v). Real objects: every single-field edit compares "
              "unequal both ways, copies / twins / dictionary round trips equal and hash equally, transitivity on generated triples; "
              "the same pairs decided by the model inside Coq. C19_code_term_eq/_copy/_init: PolyhedralTerm.__eq__, copy and the "
              "constructor as translated from polyhedra.py on this run equal the model functions (T1 tie)."),
        design="4 (C19)", note=NOTE_R + " hash(x) = H(key x) for an arbitrary H; signed zero outside the model."),
    "C03": dict(
        technique="Coq proof about a hand-written executable model + correspondence with LP replay + certified exact oracle",
        text=("Theorems C03_sound/_complete/_false_has_witness/_total/_refl/_sublist/_infeasible_* (props/C03.v) about model/Poly.v "
              "poly_refines for every exact LP oracle, and the contract-level reduction proved on the T1 translation; the "
              "implementation must agree with the model on replayed LP answers and is checked against certified must-True/"
              "must-False verdicts. C03_code_*: refines, verify_polytope_containment and is_polytope_empty as translated from polyhedra.py on this run (numpy arrays and linprog as named primitives) equal model/Poly.v (T1 tie)."),
        design="4 (C03)", note=NOTE_R),
    "C04": dict(
        technique="Coq proof about a hand-written executable model + correspondence with LP replay + certified exact oracle",
        text=("Theorems C04_refine / C04_relax / C04_every_tactic / C04_kaykobad_cone / C04_errors_total (props/C04.v) about "
              "model/Tactics.v: for every LP oracle meeting lp_spec 0 and EVERY tactic order (any list of tactic numbers), "
              "refining returns constraints that with the context imply the originals, relaxing returns constraints implied by "
              "them that mention no eliminated variable; each of the five tactics is proved implication-preserving (Kaykobad cone "
              "lemma for arbitrary n, LP bound, change of variable, substitution chains by induction on fuel, LP-active rows with "
              "sign-checked multipliers). The model is replayed on the implementation's recorded LP answers and must reproduce terms "
              "(1e-9) and tactic numbers exactly; C04 is also decided exactly on every implementation result. C04_code_*: the term "
              "arithmetic the tactics use (isolate_variable, substitute_variable, remove_variable, multiply, __add__, "
              "get_coefficient, contains_var, vars) and the pure-Python glue of PolyhedralTermList (_transform, _transform_term with the "
              "TACTICS table, both elimination wrappers, _get_kaykobad_context, _tactic_1..5 over abstract LP/sympy primitives) as "
              "translated from polyhedra.py on this run equal the model functions of model/Term.v and model/Tactics.v (T1 tie)."),
        design="4 (C04)", note=NOTE_R + " sympy.solve is replaced in the model by exact Gauss-Jordan (solutions compared at 1e-9); inputs must not use the reserved variable name '_' (C04_underscore_is_reserved shows why)."),
    "C09": dict(
        technique="Coq proof about hand-written executable models (PEG parser, folding actions) + exhaustive/differential correspondence + exact semantic oracle",
        text=("Theorems C09_fold_sound (for every syntax tree of the grammar: the polyhedral terms produced by the folding parse "
              "actions hold at a real point exactly when the written relation holds under ordinary real arithmetic), C09_parse_sound "
              "(its composition with the parser model), C09_convex (convexity error iff an absolute term ends up with a non-positive "
              "coefficient), C09_string_errors (every string is read or rejected with the syntax / convexity error, nothing else), "
              "C09_parser_total and the whitespace-insensitivity theorems; C09_code_*: the syntax classes, all parse actions and the "
              "expression-to-terms conversion as translated from data.py / grammar.py / serializer.py on this run equal model/Syntax.v "
              "(replaying the generated parse actions over any tree gives fold_expr), and C09_code_parse_expr: the grammar's rule structure "
              "as translated from grammar.py equals the hand-written PEG parser on every string (props/C09.v). model/Grammar.v is validated "
              "against the real pyparsing grammar on every token string up to length 3/4 and random strings; model/Syntax.v against the "
              "real parse actions; end to end the implementation must agree with parse_terms and with an independent exact decision "
              "of the relation's meaning over all real points."),
        design="4 (C09)", note=NOTE_R + " The pyparsing engine is not derived (validated PEG model); literals are exact decimals; constant arithmetic exact."),
    "C10": dict(
        technique="Coq proof about hand-written executable models (JSON forms, exact %.4g printer) + character-exact correspondence + exact round-trip oracle",
        text=("Theorems C10_machine_roundtrip / C10_machine_file_roundtrip (from_dict (to_machine_dict c) = c, file form read back), "
              "C10_fmt4_value and the round4 laws (the printed %.4g number is exactly a symmetric, idempotent 4-significant-digit "
              "rounding), C10_partition, C10_print_meaning_rounded / _exact (the printed strings, read as syntax trees, mean the "
              "constraints with every number rounded as printed; exactly opposite pairs fold without loss) (props/C10.v); "
              "C10_string_roundtrip / _exact / _tree / _number (props/C10b.v): every STRING the printer emits is read back by the "
              "character-level grammar model as the printer's tree (literals normalised), so parsing all printed strings gives terms "
              "meaning the 4-digit rounding of the original (exactly the original for exactly printable numbers and pairs), for "
              "every printable list over grammar-readable variable names. "
              "C10_code_* / C14_code_*: to_machine_dict, to_dict, from_dict, validate_contract_dict, _check_clause and the file "
              "reader/writer (between json.load and json.dumps) as translated from the source on this run equal model/Json.v (T1 tie); "
              "C10_code_compound_to_dict / _from_strings / _write_compound: the compound contract's dictionary form as translated on this run "
              "equals model/JsonCompound.v, and C10_compound_roundtrip / _file_read_back / C10_compound_string_roundtrip: to_dict emits one string "
              "list per alternative, in order, each side from its own alternatives, and reading it back yields alternative by alternative "
              "lists of the same meaning (no alternative lost, added, merged or reordered). "
              "model/Printer.v agrees with Python character for character on doubles across decades/ties/switch-overs and on "
              "to_str_list; model/Json.v agrees on dictionaries; real round trips through dicts, strings and files are re-decided exactly."),
        design="4 (C10)", note=NOTE_R + " The string round trip uses the real parser (model: C09); -0.0/NaN/inf outside the models."),
    "C11": dict(
        technique="Coq proof about a hand-written executable model + correspondence (LP replay) + exact evaluation oracle",
        text=("Theorems C11_contains_exact/_contains_real/_unassigned/_mono (model/Term.v contains_behavior: membership decided exactly, "
              "boundary included; ValueError iff a constrained variable is unassigned) and C11_is_empty (poly_is_empty true iff no real "
              "point satisfies the list, for every exact total LP oracle); implementation and model compared exactly inside Coq on "
              "boundary-adjacent dyadic behaviours and thin systems; answers re-decided with exact rational arithmetic. C11_code_evaluate / _contains_behavior: the methods as translated from polyhedra.py on this run equal the model functions (T1 tie)."),
        design="4 (C11)", note=NOTE_R),
    "C12": dict(
        technique="Coq proof about a hand-written executable model + correspondence with LP replay + certified exact oracle",
        text=("Theorems C12_value/_none/_error/_empty_raises/_unbounded_none/_bounds (props/C12.v) about poly_optimize for every exact "
              "total LP oracle: the value is the attained optimum, None exactly when non-empty and unbounded in the requested "
              "direction, ValueError exactly when empty, bounds contain every behaviour; the implementation is replayed through the "
              "model and compared with an exact rational LP. C12_code_optimize / _get_variable_bounds: optimize and get_variable_bounds as translated from the source on this run equal the model (T1 tie)."),
        design="4 (C12)", note=NOTE_R + " The objective string is parsed by the real grammar (model of the parser: C09)."),
    "C13": dict(
        technique="Coq proof: soundness of a static ownership checker over a heap-level effect language, instantiated by computation on the effect program extracted from the source on every run (T1) + session-machine theorems (partial) + lock-step histories on the real library with deep snapshots, aliasing analysis and fresh-interpreter replay",
        text=("PARTIAL. Heap level (props/C13h.v): base/PyHeap.v models objects as mutable cells addressed by references (aliasing is real, stores and "
              "in-place list operations update the cell) with an executable oracle-driven interpreter and a static checker of 'writes only to "
              "what this activation allocated'; proofs/PyHeapFacts.v proves for EVERY checked program that a terminating run of a function that "
              "does not declare mutates_self changes no cell that existed before the call (frame), that declared receiver-mutators change at "
              "most the receiver's cell, that results claimed fresh are new objects, and that any sequence of pure calls leaves the initial heap "
              "intact. gen/HeapGen.v is the effect program of 212 pacti functions regenerated from /repo/src on every run (translator/"
              "py2coq_heap.py); C13_code_checked re-establishes check_prog pacti_prog = true by computation, so C13_heap_operands_unchanged / "
              "_only_receiver_changed / _results_new / _history_independent / _public_operations (122 public operations by name) hold for the "
              "code as it is now; exactly eight functions (the __init__ methods, the documented in-place IoContract.simplify, one dataclass "
              "__post_init__) declare mutates_self. NOT proved: that results share no mutable state below their top object (term objects may be "
              "shared between lists; by the frame theorem no library call can observe it), equality of results across heaps, termination; three "
              "parse actions that scale freshly parsed objects in place and utils/plots.py are outside the effect program. Value level "
              "(props/C13.v): C13_frame_partial / _globals_partial / _history_independent_partial about the functional session machine "
              "model/Session.v (near-definitional). Detection with a concrete history is by lock-step runs on the real library: every pool member, "
              "list argument and module-level state is snapshotted around each of 12-30 operations per history, results are analysed for shared "
              "mutable objects and mutated in place, and every step is repeated in the same session and in a fresh interpreter."),
        design="4 (C13)", note=NOTE_T1 + " Trusted for the heap level: the extractor translator/py2coq_heap.py (statement classification tables, external callables assumed read-only, annotations used to treat Var/str/int/float/bool values as atoms: docs/HEAPGEN_REPORT.md A1-A9). The purity of the real CPython objects beyond that is established only on the explored histories."),
    "C14": dict(
        technique="Coq proof over models with explicit escape sites + exhaustive fault enumeration through real files + exception classification",
        text=("Theorems of props/C14.v: the algebra layer (regenerated from source) yields only IncompatibleArgs or an error of a "
              "primitive; elimination, simplify, refines, optimize, contains_behavior of the polyhedral model yield only ValueErr (the "
              "remaining escape kinds are pinned to causes: IndexError/fuel only inside tactic 4's recursion); C14_strings: for EVERY "
              "string the parsing entry point fails only with the syntax or convexity error; for ANY json value the "
              "machine reader returns a contract of exactly the required shape or FormatErr/ValueErr/IncompatibleArgs. Every single-"
              "field deletion and kind change of valid dictionaries in both representations is enumerated through real files, and "
              "every public operation is run on adversarial shapes with operands snapshotted around failing calls."),
        design="4 (C14)", note=NOTE_R + " Integer literals >= 2^1024 and unknown extra keys of a string-form dictionary still escape (outside the enumerated faults; DESIGN 5)."),
    "C17": dict(
        technique="Coq proof about a hand-written executable model proved equal to the translation of the source (T1) + correspondence with LP replay + exact semantic oracle",
        text=("Theorems C17_contains/_intersect/_le_sound/_disjoint_check/_merge (props/C17.v) about model/Compound.v for every exact "
              "total LP oracle: membership iff some alternative, intersection alternatives denote exactly the intersection of the "
              "unions with only empty ones dropped, <= sound, overlap rejected iff two alternatives share a behaviour (touching "
              "counts), compound merge; every NestedPolyhedra/PolyhedralIoContractCompound operation is replayed through the model "
              "(exact comparison, canary), and C17 is re-decided exactly on the real objects. C17_code_*: every method of "
              "NestedTermList / IoContractCompound as translated from compundiocontract.py on this run (gen/CompoundGen.v) equals "
              "the model function (T1 tie: an edit of the source breaks the matching obligation)."),
        design="4 (C17)", note=NOTE_R),
    "C18": dict(
        technique="Coq proof about a hand-written executable model with validated geometric oracles + correspondence + exact end-to-end oracle",
        text=("Theorems C18_corners (verified exact corner enumeration), C18_glue (the rows handed to the geometry are exactly the "
              "slice at the given values and limits), C18_vertices (if Qhull returns the corner set the result is exactly the corners, "
              "all inside the slice, sorted by angle around the centroid), C18_degenerate, C18_empty_slice, C18_arguments, sort "
              "permutation/sortedness, unreachable assert (props/C18.v). Qhull and the Chebyshev/fallback LPs are oracles whose "
              "every answer is validated against the verified corners; partial in that sense. The real routine is replayed through "
              "the model (rows, points, order, error kind) and re-decided against an independent exact polygon computation. C18_code_*: the whole vertex routine (constraints_to_vertices, _substitute_in_termlist, _gen_boundary_constraints, _get_bounding_vertices with the Qhull try and the four fallback LPs, _get_feasible_point) as translated from plots.py on this run equals model/Plots.v over the named Qhull / linprog / norm / sort primitives (T1 tie)."),
        design="4 (C18)", note=NOTE_R + " Qhull/Chebyshev LP are foreign code, modelled by their input/output contract only; the start point of the list depends on float sign noise at the atan2 branch cut (cut_low oracle)."),
}

PENDING_PROOF_REPAIR = set()
NOT_YET = {
    "C03": "check built; proofs being repaired after the D1 fix changed the model (tolerance in containment)",
    "C07": "check built; proofs/PolyLP.v being repaired after the D1 fix changed the model",
}


def main():
    checks = []
    for pid in sorted(CHECKS):
        if pid in PENDING_PROOF_REPAIR:
            continue
        c = CHECKS[pid]
        checks.append({
            "property_id": pid,
            "quick_cmd": f"./check {pid} --tier quick",
            "thorough_cmd": f"./check {pid} --tier thorough",
            "evidence_file": f"/verif/evidence/{pid}.json",
            "replay_cmd_template": f"./check {pid} --replay {{path}}",
            "engine": "coq-proof",
            "level_claimed": {"category": "proof", "text": c["text"], "design_ref": "DESIGN.md section " + c["design"]},
            "level_note": c["note"],
            "technique": c["technique"],
        })
    na = [{"property_id": p, "reason": r} for p, r in sorted(NOT_YET.items()) if p not in CHECKS or p in PENDING_PROOF_REPAIR]
    man = {
        "version": 1,
        "setup_cmd": "./setup.sh",
        "hooks": {
            "guard": "PACTI_VERIF",
            "enable": "no source hooks: checks import /repo/src with PYTHONPATH=/repo/src PACTI_VERIF=1 and wrap scipy.optimize.linprog as seen by pacti from the outside",
            "baseline_off_cmd": "cd /repo && /venv/bin/python -m pytest -ra -q -p no:cacheprovider --timeout=900 --continue-on-collection-errors",
            "source_commits": [],
            "add_only": True,
        },
        "engines": [{"name": "coq-proof", "path": "/verif/coq", "serves_properties": sorted(set(CHECKS) - PENDING_PROOF_REPAIR),
                     "kind_free_text": "Coq 8.16.1 development: base/ (semantics, Farkas checker), gen/ (regenerated from source), model/ (hand-written executable models), proofs/, props/ (one file of theorem statements per property)"}],
        "checks": checks,
        "not_applicable": na,
        "notes": "See DESIGN.md. fix: commits in /repo are listed in known_findings.json.",
    }
    with open(os.path.join(VERIF, "MANIFEST.json"), "w") as fh:
        json.dump(man, fh, indent=1)
    print("manifest:", [c["property_id"] for c in checks], "not yet:", [x["property_id"] for x in na])


if __name__ == "__main__":
    main()
