#!/usr/bin/env python3
"""Sensitivity experiment for the translation of the syntax layer behind C09 (translator/py2coq_syntax.py ->
gen/SyntaxGen.v: data.py, the parse actions of grammar.py, _expression_to_polyhedral_terms of serializer.py) and of
the equality proofs proofs/SyntaxGen*.v.

For each small edit of the Python source (applied to a scratch copy of the source tree, one at a time) the
translator is run into a scratch copy of the Coq tree and proofs/SyntaxGenFacts.vo is rebuilt (`make -k`, every coqc
under `timeout`).  Semantic edits must be rejected by the translator (fail closed: TRANSLATOR-UNSUPPORTED, the
output file is poisoned) or break a proof; harmless rewrites must pass.  Nothing outside the scratch directory is
written (except the report); the scratch directory is removed at the end.

usage: syngen_mutations.py <verif dir> <repo dir> <scratch dir> [report.md] [--keep] [--only ID,ID,...]
"""
import os
import re
import shutil
import subprocess
import sys

PY = "/venv/bin/python"
DAT = "src/pacti/terms/polyhedra/syntax/data.py"
GRM = "src/pacti/terms/polyhedra/syntax/grammar.py"
SER = "src/pacti/terms/polyhedra/serializer.py"
TARGETS = ["proofs/SyntaxGenFacts.vo"]
GEN = "SyntaxGen.v"

# (id, kind, file, description, [(old text, new text), ...])   kind: "semantic" | "harmless"
EDITS = [
    ("M01", "semantic", DAT, "same_term_list compares only the factors dict and ignores the inner constant (seeded change C09)",
     [('        s = f"{self.term_list}"\n        o = f"{other.term_list}"\n        return s == o\n',
       "        return self.term_list.factors == other.term_list.factors\n")]),
    ("M02", "semantic", DAT, "_combine_optional_floats rewritten as (f1 or 1.0) + (f2 or 1.0): a zero coefficient is read as a "
     "missing one (seeded change C09b)",
     [("    if f1 is None:\n        if f2 is None:\n            return 2.0\n        return f2 + 1\n    if f2 is None:\n"
       "        return f1 + 1\n    return f1 + f2\n",
       "    return (f1 or 1.0) + (f2 or 1.0)\n")]),
    ("M03", "semantic", DAT, "_combine_optional_floats(None, None) returns None (defect D5 re-introduced)",
     [("        if f2 is None:\n            return 2.0\n", "        if f2 is None:\n            return None\n")]),
    ("M04", "semantic", DAT, "PolyhedralSyntaxTermList.negate forgets the constant",
     [("        c = -self.constant\n        fs = {}\n", "        c = self.constant\n        fs = {}\n")]),
    ("M05", "semantic", DAT, "PolyhedralSyntaxTermList.add drops the variables that occur only in `other`",
     [("                elif fv == \"-0.0\":\n                    fs.pop(f)\n            else:\n                fs[f] = v\n",
       "                elif fv == \"-0.0\":\n                    fs.pop(f)\n")]),
    ("M06", "semantic", DAT, "expand: the negative branch of _generate_absolute_term_combinations uses the positive sign",
     [("                c = c.add(absolute_term_list[i].negate().to_term_list())\n",
       "                c = c.add(absolute_term_list[i].to_term_list())\n")]),
    ("M07", "semantic", DAT, "PolyhedralSyntaxAbsoluteTerm.to_term_list ignores the coefficient",
     [("        else:\n            m = self.coefficient\n", "        else:\n            m = 1.0\n")]),
    ("M08", "semantic", DAT, "PolyhedralSyntaxAbsoluteTerm.is_positive with >= for >",
     [("        return self.coefficient > 0\n", "        return self.coefficient >= 0\n")]),
    ("M09", "semantic", SER, "_leq_expression_to_polyhedral_terms drops the last pair of a chain a <= b <= c",
     [("    for a, b in zip(e.sides, e.sides[1:]):\n        a_minus_b", "    for a, b in zip(e.sides, e.sides[1:-1]):\n        a_minus_b")]),
    ("M10", "semantic", SER, "_eql_expression_to_polyhedral_terms produces only one direction",
     [("    pts.append(rhs_minus_lhs.to_polyhedral_term())\n", "")]),
    ("M11", "semantic", SER, "_check_absolute_terms: the convexity test is inverted",
     [("        if not at.is_positive():\n", "        if at.is_positive():\n")]),
    ("M12", "semantic", GRM, "_parse_arithmetic_chain keeps only the first operation (defect D5b re-introduced)",
     [("        else:\n            result = result - operand\n    return result\n",
       "        else:\n            result = result - operand\n        break\n    return result\n")]),
    ("M13", "semantic", DAT, "PolyhedralSyntaxTermList.is_positive with >= for > on the constant",
     [("        if self.constant > 0:\n            return True\n", "        if self.constant >= 0:\n            return True\n")]),
    ("M14", "semantic", DAT, "PolyhedralSyntaxTermList.is_positive looks at the LAST factor in name order",
     [("        var = sorted(self.factors)[0]\n", "        var = sorted(self.factors)[-1]\n")]),
    ("M15", "semantic", DAT, "to_polyhedral_term does not negate the constant",
     [("        return PolyhedralTerm(variables=fs, constant=-self.constant)\n",
       "        return PolyhedralTerm(variables=fs, constant=self.constant)\n")]),
    ("M16", "semantic", DAT, "_combine_or_append appends the term even when it was combined",
     [("    if not appended:\n        r.append(term)\n    return r\n", "    r.append(term)\n    return r\n")]),
    ("M17", "semantic", DAT, "PolyhedralSyntaxAbsoluteTermList.negate keeps the absolute terms",
     [("absolute_term_list=[at.negate() for at in self.absolute_term_list]", "absolute_term_list=self.absolute_term_list.copy()")]),
    ("M18", "semantic", DAT, "PolyhedralSyntaxAbsoluteTermList.expand forgets the term list in the combinations",
     [("                tlc = PolyhedralSyntaxTermList(\n                    constant=self.term_list.constant, factors=self.term_list.factors.copy()\n"
       "                ).add(tl)\n",
       "                tlc = PolyhedralSyntaxTermList(constant=0, factors={}).add(tl)\n")]),
    ("M19", "semantic", DAT, "PolyhedralSyntaxEqlExpression.__post_init__ stores the operator leq",
     [("        self.operator = PolyhedralSyntaxOperator.eql", "        self.operator = PolyhedralSyntaxOperator.leq")]),
    ("M20", "semantic", GRM, "_parse_signed_term negates on \"+\"",
     [("    tl = group[1]\n    assert isinstance(tl, PolyhedralSyntaxTermList)\n    if sign == \"-\":\n        return tl.negate()\n    return tl\n\n\n"
       "def _parse_term_list",
       "    tl = group[1]\n    assert isinstance(tl, PolyhedralSyntaxTermList)\n    if sign == \"+\":\n        return tl.negate()\n    return tl\n\n\n"
       "def _parse_term_list")]),
    ("M21", "semantic", GRM, "_parse_factor_paren_terms does not scale the constant",
     [("    pt.constant *= f\n", "")]),
    ("M22", "semantic", GRM, "_parse_paren_abs_or_terms: a missing absolute coefficient becomes -f",
     [("            at.coefficient = f\n", "            at.coefficient = -f\n")]),
    ("M23", "semantic", GRM, "_parse_first_or_addl_paren_abs_or_terms: a parenthesised group is not negated under \"-\"",
     [("    elif isinstance(term, PolyhedralSyntaxAbsoluteTermList):\n        if symbol == \"-\":\n            term = term.negate()\n"
       "        current = PolyhedralSyntaxAbsoluteTermList(term_list=term_list, absolute_term_list=absolute_term_list).add(term)\n",
       "    elif isinstance(term, PolyhedralSyntaxAbsoluteTermList):\n"
       "        current = PolyhedralSyntaxAbsoluteTermList(term_list=term_list, absolute_term_list=absolute_term_list).add(term)\n")]),
    ("M24", "semantic", GRM, "_parse_number_and_variable multiplies by number twice",
     [("        variable_term.factors[k] *= number\n", "        variable_term.factors[k] *= number * number\n")]),
    ("M25", "semantic", GRM, "_parse_abs_or_terms ignores absolute terms",
     [("    for term in group:\n        if isinstance(term, PolyhedralSyntaxTermList):\n            term_list = term_list.add(term)\n"
       "        elif isinstance(term, PolyhedralSyntaxAbsoluteTerm):\n            absolute_term_list = _combine_or_append(absolute_term_list, term)\n\n"
       "    return PolyhedralSyntaxAbsoluteTermList(term_list=term_list, absolute_term_list=absolute_term_list)\n\n\ndef _parse_paren_abs_or_terms",
       "    for term in group:\n        if isinstance(term, PolyhedralSyntaxTermList):\n            term_list = term_list.add(term)\n\n"
       "    return PolyhedralSyntaxAbsoluteTermList(term_list=term_list, absolute_term_list=absolute_term_list)\n\n\ndef _parse_paren_abs_or_terms")]),
    ("M26", "semantic", SER, "_geq_expression_to_polyhedral_terms computes a - b (>= read as <=)",
     [("minus_a_plus_b: PolyhedralSyntaxAbsoluteTermList = a.negate().add(b)", "minus_a_plus_b: PolyhedralSyntaxAbsoluteTermList = a.add(b.negate())")]),
    ("M27", "semantic", SER, "_expression_to_polyhedral_terms dispatches leq expressions to the geq function",
     [("        if e.operator == PolyhedralSyntaxOperator.leq:\n", "        if e.operator == PolyhedralSyntaxOperator.geq:\n")]),
    ("M28", "semantic", GRM, "_parse_absolute_term drops the coefficient",
     [("    return PolyhedralSyntaxAbsoluteTerm(term_list=term_list, coefficient=coefficient)\n",
       "    return PolyhedralSyntaxAbsoluteTerm(term_list=term_list, coefficient=None)\n")]),
    ("M29", "semantic", DAT, "PolyhedralSyntaxTermList gets a new method (unexpected method in a translated class)",
     [("    def to_polyhedral_term(self: \"PolyhedralSyntaxTermList\") -> PolyhedralTerm:\n",
       "    def scale(self, f: float) -> \"PolyhedralSyntaxTermList\":\n        return PolyhedralSyntaxTermList(constant=self.constant * f, factors=self.factors)\n\n"
       "    def to_polyhedral_term(self: \"PolyhedralSyntaxTermList\") -> PolyhedralTerm:\n")]),
    ("M30", "semantic", DAT, "to_term_list renamed away (a listed method is missing)",
     [("    def to_term_list(self: \"PolyhedralSyntaxAbsoluteTerm\")", "    def as_term_list(self: \"PolyhedralSyntaxAbsoluteTerm\")")]),
    ("M31", "semantic", DAT, "_factor_repr prints the coefficient 1.0 (the string building the injectivity assumption is pinned to changes)",
     [("    if n == \"1.0\":\n        return v\n    elif", "    if n == \"1.0\":\n        return f\"{n}{v}\"\n    elif")]),
    ("M32", "semantic", DAT, "PolyhedralSyntaxTermList.negate written with a while loop (construct outside the subset)",
     [("        for f, v in self.factors.items():\n            fs[f] = -v\n        return PolyhedralSyntaxTermList(constant=c, factors=fs)\n",
       "        items = list(self.factors.items())\n        while items:\n            f, v = items.pop()\n            fs[f] = -v\n"
       "        return PolyhedralSyntaxTermList(constant=c, factors=fs)\n")]),
    ("M33", "semantic", DAT, "PolyhedralSyntaxAbsoluteTerm gets a new field (the record changes)",
     [("    term_list: PolyhedralSyntaxTermList\n    coefficient: Optional[float] = dataclasses.field(default=None)\n",
       "    term_list: PolyhedralSyntaxTermList\n    coefficient: Optional[float] = dataclasses.field(default=None)\n"
       "    exponent: Optional[float] = dataclasses.field(default=None)\n")]),
    ("M34", "semantic", GRM, "_parse_term_list starts the sum from the constant 1",
     [("reduce(PolyhedralSyntaxTermList.add, group, PolyhedralSyntaxTermList(constant=0, factors={}))",
       "reduce(PolyhedralSyntaxTermList.add, group, PolyhedralSyntaxTermList(constant=1, factors={}))")]),
    ("H01", "harmless", DAT, "PolyhedralSyntaxTermList.add: locals renamed (fs -> merged, f -> name, v -> value, fv -> shown)", None),
    ("H02", "harmless", DAT, "logging added (import logging; logging.debug in negate, add and _combine_or_append)",
     [("import dataclasses\n", "import dataclasses\nimport logging\n"),
      ("        c = -self.constant\n        fs = {}\n", "        c = -self.constant\n        logging.debug(\"negate %s\", self.constant)\n        fs = {}\n"),
      ("        fs = self.factors.copy()\n        for f, v in other.factors.items():\n",
       "        fs = self.factors.copy()\n        logging.debug(f\"adding {len(other.factors)} factors\")\n        for f, v in other.factors.items():\n"),
      ("    appended = False\n    for at in atl:\n", "    appended = False\n    logging.info(\"combine or append\")\n    for at in atl:\n")]),
    ("H03", "harmless", GRM, "the two independent initialisations of _parse_abs_or_terms / _parse_multi_paren_abs_or_terms reordered", None),
    ("H04", "harmless", DAT, "PolyhedralSyntaxAbsoluteTerm.is_positive / negate: an if/else for the early return",
     [("        if self.coefficient is None:\n            return True\n        return self.coefficient > 0\n",
       "        if self.coefficient is None:\n            return True\n        else:\n            return self.coefficient > 0\n"),
      ("            return PolyhedralSyntaxAbsoluteTerm(term_list=self.term_list, coefficient=-1.0)\n"
       "        return PolyhedralSyntaxAbsoluteTerm(term_list=self.term_list, coefficient=self.coefficient * -1.0)\n",
       "            return PolyhedralSyntaxAbsoluteTerm(term_list=self.term_list, coefficient=-1.0)\n"
       "        else:\n            return PolyhedralSyntaxAbsoluteTerm(term_list=self.term_list, coefficient=self.coefficient * -1.0)\n")]),
    ("H05", "harmless", SER, "_eql_expression_to_polyhedral_terms: both differences computed first, then both appended; locals renamed",
     [("    lhs_minus_rhs: PolyhedralSyntaxTermList = e.lhs.add(e.rhs.negate())\n    pts.append(lhs_minus_rhs.to_polyhedral_term())\n\n"
       "    rhs_minus_lhs: PolyhedralSyntaxTermList = e.rhs.add(e.lhs.negate())\n    pts.append(rhs_minus_lhs.to_polyhedral_term())\n",
       "    forward: PolyhedralSyntaxTermList = e.lhs.add(e.rhs.negate())\n    backward: PolyhedralSyntaxTermList = e.rhs.add(e.lhs.negate())\n"
       "    pts.append(forward.to_polyhedral_term())\n    pts.append(backward.to_polyhedral_term())\n")]),
    ("H06", "harmless", GRM, "parse actions: `group` renamed to `grp` everywhere, a comment and a docstring added", None),
]


PREAMBLE = """# T1 for the syntax layer behind C09 (data.py, the parse actions of grammar.py, the serializer)

Generated by `harness/syngen_mutations.py`
(rerun: `/venv/bin/python harness/syngen_mutations.py <verif> /repo <scratch> docs/SYNGEN_REPORT.md`).

## 1. What is translated

`translator/py2coq_syntax.py` (a fourth generator, in a module of its own; `py2coq.main` has one import line and one
`guard("SyntaxGen.v", ...)` line for it) renders, from the current `/repo/src` on every run, into `coq/gen/SyntaxGen.v`:

* `src/pacti/terms/polyhedra/syntax/data.py` — the dataclasses as Coq records GENERATED from their field declarations
  (`PolyhedralSyntaxTermList`, `PolyhedralSyntaxAbsoluteTerm`, `PolyhedralSyntaxAbsoluteTermList`,
  `PolyhedralSyntaxEqlExpression` with `__post_init__`, `PolyhedralSyntaxIneqExpression`; the enum
  `PolyhedralSyntaxOperator`; `PolyhedralSyntaxExpression` as the sum of its two subclasses), the methods
  `PolyhedralSyntaxTermList.(is_positive, negate, add, to_polyhedral_term)`,
  `PolyhedralSyntaxAbsoluteTerm.(is_positive, negate, same_term_list, to_term_list)`,
  `PolyhedralSyntaxAbsoluteTermList.(expand, negate, add, is_constant)` and the functions `_combine_optional_floats`,
  `_combine_or_append`, `_generate_absolute_term_combinations`;
* `src/pacti/terms/polyhedra/syntax/grammar.py` — all 23 module-level functions, i.e. the parse ACTIONS
  (`_parse_only_variable` ... `_parse_expression`, `_to_absolute_term_or_term`, `_parse_arithmetic_chain`), over
  dynamically typed tokens (`tok` of `coq/base/PySyntax.v`: str, float, the three list classes, an expression, or a
  `ParseResults` = list of tokens).  The pyparsing grammar objects are NOT translated (`model/Grammar.v` stays
  hand-written and tied by T2);
* `src/pacti/terms/polyhedra/serializer.py` — `_eql_expression_to_polyhedral_terms`, `_check_absolute_terms`,
  `_leq_/_geq_expression_to_polyhedral_terms`, `_expression_to_polyhedral_terms`.  Not the printer
  (`model/Printer.v`), not `validate_contract_dict`, not the entry point `polyhedral_termlist_from_string`
  (`model/ParseAll.v`).

New vocabulary: `coq/base/PySyntax.v` (ints as `Z` with Python's negative indexing, slices, `zip`, `enumerate`,
`itertools.product`, `Optional[float]` with `x or d`, `sorted`, dict `==` / `len`, opaque message strings, the
abstract repr of a float and of a term list, the token type with `len` / `[i]` / `[a::k]` / `asList()` / `== "lit"` /
`in {...}` / dynamic float arithmetic).  Functions are pure or monadic (`M _`) exactly as the body requires.
New in the subset: `isinstance` tests and asserts as `match` on the token constructor (the name is narrowed in the
branch), `x is None` as `match` on the option (names and attribute paths), joins of if-branches that first bind a name
or bind it at different dynamic types (injected into `tok`), in-place updates `o.a.b = e`, `o.a.b op= e`,
`o.a.d[k] op= e` of owned objects as record updates, `for k in d: d[k] op= e`, `for x in o.lst: x.attr = e`,
`reduce(Class.method, group, init)`, dict / list literals, `Enum` members, dataclass constructors with defaults,
`default_factory` and `__post_init__`.

Fail closed (`TRANSLATOR-UNSUPPORTED[SyntaxGen.v]: ...`; the output file is replaced by a stub that does not
compile) on any construct outside the subset, a missing listed function / method, an unexpected method, field,
decorator or class-level statement in a translated class, an unexpected module-level function, a module-level
rebinding of a name the functions use, an in-place update of an object that is not provably local, and a change of
`_factor_repr` / `PolyhedralSyntaxTermList.__repr__` / `PolyhedralSyntaxAbsoluteTerm.__repr__` (pinned by the sha256
of their normalised source).  Output is deterministic; `logging.*` calls and docstrings are ignored.

## 2. Equality theorems (all closed under the global context)

`to_stl`, `to_sabs`, `to_satl`, `to_sexpr` (proofs/SyntaxGenBase.v) are the bijections between the generated records
and the hand-written ones of `model/Syntax.v` (`to_of_*`, `of_to_*`).  `gwfs t` says that the association list
standing for the dict `t.factors` has pairwise distinct keys (`gwfabs`, `gwfatl`, `gwf_expr`: the same for every
term list inside).

| file | theorem | statement |
|---|---|---|
| SyntaxGenTermList.v | `stl_is_positive_eq` | `PolyhedralSyntaxTermList_is_positive t = stl_is_positive (to_stl t)` |
| | `stl_negate_eq` | `gwfs t -> to_stl (PolyhedralSyntaxTermList_negate t) = stl_negate (to_stl t)` |
| | `stl_add_eq` | `mmap to_stl (PolyhedralSyntaxTermList_add a b) = ret (stl_add (to_stl a) (to_stl b))` |
| | `stl_to_polyhedral_term_eq` | `gwfs t -> PolyhedralSyntaxTermList_to_polyhedral_term t = stl_to_pterm (to_stl t)` (through the translated `PolyhedralTerm.__init__` of gen/TermGen.v) |
| SyntaxGenAbsTerm.v | `abs_is_positive_eq` | `PolyhedralSyntaxAbsoluteTerm_is_positive a = abs_is_positive (to_sabs a)` |
| | `abs_negate_eq` | `to_sabs (PolyhedralSyntaxAbsoluteTerm_negate a) = abs_negate (to_sabs a)` |
| | `same_term_list_eq` | `PolyhedralSyntaxAbsoluteTerm_same_term_list a b = same_term_list (to_sabs a) (to_sabs b)` — through the stated assumption about `__repr__` (§3) |
| | `abs_to_term_list_eq` | `gwfabs a -> to_stl (PolyhedralSyntaxAbsoluteTerm_to_term_list a) = abs_to_term_list (to_sabs a)` |
| | `combine_optional_floats_eq` | `data_combine_optional_floats f1 f2 = combine_optional_floats f1 f2` |
| | `combine_or_append_eq` | `map to_sabs (data_combine_or_append atl term) = combine_or_append (map to_sabs atl) (to_sabs term)` |
| | `generate_absolute_term_combinations_eq` | `Forall gwfabs atl -> mmap (map to_stl) (data_generate_absolute_term_combinations atl) = ret (generate_absolute_term_combinations (map to_sabs atl))` |
| SyntaxGenAbsTermList.v | `satl_expand_eq` | `gwfatl a -> mmap (map to_stl) (PolyhedralSyntaxAbsoluteTermList_expand a) = ret (satl_expand (to_satl a))` |
| | `satl_negate_eq` | `gwfs (gterms a) -> to_satl (PolyhedralSyntaxAbsoluteTermList_negate a) = satl_negate (to_satl a)` |
| | `satl_add_eq` | `mmap to_satl (PolyhedralSyntaxAbsoluteTermList_add a b) = ret (satl_add (to_satl a) (to_satl b))` |
| | `satl_is_constant_eq` | `PolyhedralSyntaxAbsoluteTermList_is_constant a = satl_is_constant (to_satl a)` |
| | `eql_expression_new`, `ineq_expression_new` | the constructors (with `__post_init__`: operator = eql) against `SEql` / `SIneq` |
| SyntaxGenSerializer.v | `eql_expression_eq` | `gwfs lhs -> gwfs rhs -> serializer_eql_expression_to_polyhedral_terms e = ret (eql_expression_to_polyhedral_terms (to_stl lhs) (to_stl rhs))` |
| | `check_absolute_terms_eq` | `serializer_check_absolute_terms s l = check_absolute_terms (map to_sabs l)` |
| | `leq_expression_eq`, `geq_expression_eq` | `Forall gwfatl sides -> serializer_leq/geq_expression_to_polyhedral_terms s e = ineq_expression_to_polyhedral_terms OpLeq/OpGeq (map to_satl sides)` (the composition `pair_difference` / `pair_terms` / `adjacent` / `concat_mapM` of model/Syntax.v) |
| | `expression_to_polyhedral_terms_eq` | `gwf_expr e -> serializer_expression_to_polyhedral_terms s e = expression_to_polyhedral_terms (to_sexpr e)` |
| SyntaxGenGrammar.v | `parse_only_variable_eq`, `parse_number_and_variable_eq`, `parse_term_*`, `parse_first_term_eq`, `parse_signed_term_eq`, `parse_term_list_eq`, `parse_paren_terms_eq`, `parse_factor_paren_terms_eq`, `parse_absolute_term_*`, `parse_signed_abs_term_eq`, `parse_first_abs_term_*`, `to_absolute_term_or_term_eq`, `parse_abs_or_term_eq`, `parse_abs_or_terms_eq`, `parse_paren_abs_or_terms_*`, `parse_first_or_addl_*`, `parse_multi_paren_abs_or_terms_eq`, `parse_equality_expression_eq`, `parse_expression_sides_eq`, `parse_leq_expression_eq`, `parse_geq_expression_eq`, `parse_expression_eq` | each parse action, on the token shape the grammar hands to it (with and without the optional `*` token), returns the step of model/Syntax.v: `apply_sign`, `fold_left stl_add _ stl_zero`, `stl_scale_factors`, `stl_scale`, `mkAbs`, `abs_negate`, `fold_left atl_push _ satl_zero`, `satl_scale`, `satl_add satl_zero _`, `fold_left satl_add _ satl_zero`, `SEql`, `SIneq` |
| | `parse_arithmetic_chain_eq` | `grammar_parse_arithmetic_chain (G (TokFloat a :: chain_toks l)) = mmap TokFloat (ceval (chain_tree (CNum a) l))` for a chain of ANY length (`chain_tree` = the left-associative tree) |
| SyntaxGenFold.v | `g_expr_eq` | `mmap to_sexpr (g_expr star e) = parse_expr e` — replaying the generated parse actions bottom-up over ANY syntax tree `e` of model/Ast.v (`g_expr`: the token shapes of `harness/syntax_cases.py:_Builder`) |
| | `g_fold_expr_eq` | `(x <- g_expr star e ;; serializer_expression_to_polyhedral_terms s x) = fold_expr e` — parse actions + serializer = the hand-written fold, for every tree, error cases included, NO precondition |

All equalities are pointwise equalities of monadic results (values and error kinds: `ValueError` -> `ValueErr`,
`PolyhedralSyntaxConvexException` -> `ConvexErr`, a failed `assert` -> `Escape "AssertionError"`, `IndexError`,
`KeyError`, `ZeroDivisionError`, `TypeError`, `AttributeError` -> `Escape _`).

**Why `gwfs` is needed where it appears, and why it is harmless.**  `negate`, `to_term_list`, `to_polyhedral_term` and
the in-place scaling loops of the parse actions build or update a dict item by item, the hand model maps over the
association list.  On a list with a repeated key — which denotes no Python dict — the two differ
(`Example negate_repeated_key`, `to_polyhedral_term_repeated_key`, `to_term_list_repeated_key`, `eql_repeated_key`).
Everything the parse actions build satisfies it (`g_expr_wf`), so the end-to-end theorem has no hypothesis.  `add`,
`is_positive` (the sort is stable: `head_ok_sort`), `same_term_list`, `_combine_*`, `_check_absolute_terms`,
`is_constant` and every token-plumbing step are equal on EVERY input.

## 3. Python semantics that are approximated (each is an `assumption:` line and in the header of gen/SyntaxGen.v)

* **`__repr__` is not translated.**  `same_term_list` compares `f"{self.term_list}"` with `f"{other.term_list}"`; float
  formatting through `_factor_repr` cannot be rendered over exact rationals.  The translator renders `f"{tl}"` as the
  abstract value `stl_repr_key constant factors` = (items sorted by variable name, constant) and `==` on two of them as
  `repr_key_eqb` (numbers as numbers), i.e. it ASSUMES that `PolyhedralSyntaxTermList.__repr__` is injective in
  exactly that data.  The assumption is pinned to the sha256 of the normalised source of `_factor_repr`,
  `PolyhedralSyntaxTermList.__repr__` and `PolyhedralSyntaxAbsoluteTerm.__repr__` (any edit of them poisons
  gen/SyntaxGen.v until re-validated) and tested on the real code by `harness/syngen_repr_check.py`: 4 500 - 14 000
  term lists per run (random, permuted, one factor / variable / constant changed), 0 counterexamples for finite float
  constants and factors and grammar-valid names.  Outside that domain, found by the same script:
  (a) sign of a zero factor at the head: `"0.0x"` vs `"-0.0x"` (known; `harness/syntax_cases.py` skips it);
  (b) a non-zero INT constant prints without `.0` (`2 + x` vs `2.0 + x`): not reachable, the only int the parse
  actions store is the constant 0, which prints as nothing like 0.0;
  (c) **inf / nan collide with variables named `inf` / `nan`**: `repr` of constant `inf` is `"inf"`, which is also the
  repr of the factor dict `{inf: 1.0}`.  Reachable through the overflowing literal `1e999`:
  `|1e999 + x| + |inf + x| <= 1` is read as `2|inf + x| <= 1` with the VARIABLE `inf` gone
  (`polyhedral_termlist_from_string` returns `2.0*x <= -inf`, `-2.0*x <= inf`).  Outside the exact-rational model
  (no inf), reported as a finding.
* `f"{x}"` of a float compared with the canonical repr of a float constant `c` is `x == c` (`fv == "0.0"`,
  `fv == "-0.0"` are both `x == 0`); `str(x)` of a syntax object is the opaque `tt` (only collected and counted).
* int and float are one numeric type (exact rationals); ints used as lengths / indices are `Z`; `Optional[float]` is
  `option Q`; NaN, inf, rounding, signed zero are not modelled.
* tokens: every operation on a token of the wrong dynamic type is the `Escape` Python raises (`len(1.0)`: TypeError,
  `"ab"[5]`: IndexError, `x in {"="}` on an unhashable dataclass: TypeError, `.asList()` on a non-ParseResults:
  AttributeError) — checked on the real pyparsing 3.3.2; dynamic `+ - * /` is defined on two floats and rendered as
  TypeError otherwise (Python would concatenate two str / two ParseResults); `reduce(PolyhedralSyntaxTermList.add,
  group, init)` raises AttributeError on a non-term-list element (checked on the real code); `asList()` keeps nested
  ParseResults as groups.  `_parse_arithmetic_chain` is annotated `-> float` but returns whatever token it computed:
  the generated function returns a token.
* parse actions update the token objects they receive IN PLACE (`variable_term.factors[k] *= number`,
  `pt.constant *= f`, `at.coefficient = f`); this is rendered as building the updated value, which is sound when
  nothing else refers to the object (pyparsing builds fresh results, no memoisation: the seeded change C13b is
  exactly a violation of this, detected by C13's histories, not here).
* `d.copy()` / `l.copy()` is the identity; `l.append(x)` / `d[k] = v` / `d.pop(k)` on a dict / list built by the same
  function (checked: literal, comprehension or `.copy()`; not aliased, not passed on) is rebinding.
* a failed `assert` is `Escape "AssertionError"` (python -O not modelled); exception messages are dropped after
  checking that they are built from total operations (`type()`, `str()`, `len()`, f-strings), exception TYPES kept.
* `PolyhedralSyntaxExpression` is the sum of its two subclasses (the base class is an empty dataclass that the
  translated code never instantiates); `PolyhedralSyntaxAbsoluteTermOrTerm` is a token.
* `PolyhedralTerm(variables=..., constant=...)` is `gen/TermGen.v:PolyhedralTerm_init` (so a poisoned TermGen.v also
  stops SyntaxGen.v); `Var(k)` is the identity on names.

## 4. Discrepancies between model/Syntax.v and the Python source

None inside the model's domain: every definition of `model/Syntax.v` that mirrors translated code is EQUAL to the
generated function (on association lists that denote dicts), and the whole fold is equal with no hypothesis.  Worth
knowing:
* an inequality expression object whose `operator` field is `eql` (never built by the parse actions) is treated as
  `>=` by `_expression_to_polyhedral_terms` (`if e.operator == leq ... else geq`); `model/Syntax.v:sop` has no such
  value, `to_sop` maps it to `OpGeq` (`Example ineq_with_eql_operator`);
* the inf / nan collision of `__repr__` above is a behaviour of the Python that the exact-rational hand model cannot
  express (the model has no inf);
* `model/Syntax.v` has no counterpart for ill-typed tokens (its input is the typed syntax tree); the generated parse
  actions return the `Escape` Python raises there.

## 5. Sensitivity experiment

Each row below is one edit of the Python source applied to a scratch copy of `/repo/src`; the translator is run into a
scratch copy of `coq/` and `proofs/SyntaxGenFacts.vo` is rebuilt with `make -k` (every `coqc` under `timeout 600`).
A *semantic* edit must be rejected by the translator (fail closed) or break an equality proof; a *harmless* rewrite
must still translate and prove.  The outcome names every theorem whose proof script stops compiling (with `make -k`,
files that depend on a broken file are not attempted) and says whether the generated text (sha line excluded) differs
from the one generated from the unmodified source.  M01 and M02 are the two seeded changes `seeded/C09` and
`seeded/C09b-combine-floats-falsy-zero`; M03 and M12 re-introduce the repaired defects D5 and D5b.

"""


def sh(cmd, cwd=None, timeout=3600):
    p = subprocess.run(cmd, cwd=cwd, stdout=subprocess.PIPE, stderr=subprocess.STDOUT, text=True, timeout=timeout)
    return p.returncode, p.stdout


def apply_edit(text, ident, pairs):
    if ident == "H01":
        a = text.index("    def add(self: \"PolyhedralSyntaxTermList\"")
        b = text.index("    def to_polyhedral_term", a)
        seg = text[a:b]
        for old, new in (("fs", "merged"), ("fv", "shown"), ("f", "name"), ("v", "value")):
            seg = re.sub(rf"(?<![\w.\"]){old}(?![\w\"])", new, seg)
        seg = seg.replace('name"{', 'f"{')       # the f-string prefix is not a local
        assert seg != text[a:b] and "merged[name] += value" in seg and 'f"{merged[name]}"' in seg, seg
        return text[:a] + seg + text[b:]
    if ident == "H03":
        old = ("    term_list: PolyhedralSyntaxTermList = PolyhedralSyntaxTermList(constant=0)\n"
               "    absolute_term_list: List[PolyhedralSyntaxAbsoluteTerm] = []\n\n    for term in group:\n")
        new = ("    absolute_term_list: List[PolyhedralSyntaxAbsoluteTerm] = []\n"
               "    term_list: PolyhedralSyntaxTermList = PolyhedralSyntaxTermList(constant=0)\n\n    for term in group:\n")
        assert text.count(old) == 2
        return text.replace(old, new)
    if ident == "H06":
        a = text.index("def _parse_only_variable")
        b = text.index("# Grammar rules")
        seg = re.sub(r"\bgroup\b", "grp", text[a:b])
        seg = seg.replace("def _parse_term_list(tokens: pp.ParseResults) -> PolyhedralSyntaxTermList:\n",
                          "def _parse_term_list(tokens: pp.ParseResults) -> PolyhedralSyntaxTermList:\n"
                          "    \"\"\"Sum of the signed terms.\"\"\"\n    # left fold\n")
        assert seg != text[a:b]
        return text[:a] + seg + text[b:]
    for old, new in pairs:
        assert text.count(old) == 1, (ident, old, text.count(old))
        text = text.replace(old, new, 1)
    return text


def all_errors(log):
    """[(file, line, message)] for every coqc error of a `make -k` log"""
    out = []
    for m in re.finditer(r'File "\./([^"]+)", line (\d+), characters [^\n]*\n(Error:.*?)(?=\nmake|\nFile "|\nCOQC|\Z)', log, re.S):
        msg = " ".join(m.group(3).split())
        k = re.search(r"Unable to unify|Impossible to unify|The term|Found no subterm|Tactic failure|No such|Cannot|Not an inductive|"
                      r"Wrong|Illegal|The reference|Unable to find|No matching", msg)
        out.append((m.group(1), int(m.group(2)), ("Error: " + msg[k.start():] if k else msg)[:170]))
    return out


def enclosing(vfile, line):
    name = "?"
    for i, l in enumerate(open(vfile), 1):
        m = re.match(r"\s*(?:Theorem|Lemma|Corollary|Example|Definition|Fixpoint|Goal)\s+([\w']+)", l)
        if m:
            name = m.group(1)
        if i >= line:
            break
    return name


def main(verif, repo, scratch, report=None, keep=False, only=None):
    if os.path.exists(scratch):
        shutil.rmtree(scratch)
    os.makedirs(scratch)
    coq = os.path.join(scratch, "coq")
    shutil.copytree(os.path.join(verif, "coq"), coq, ignore=shutil.ignore_patterns("cases"), copy_function=shutil.copy2)
    orig = {rel: open(os.path.join(repo, rel)).read() for rel in (DAT, GRM, SER)}
    rows = []
    baseline = {}

    def run(ident, kind, rel, desc, pairs):
        tree = os.path.join(scratch, "repo")
        if os.path.exists(tree):
            shutil.rmtree(tree)
        shutil.copytree(os.path.join(repo, "src"), os.path.join(tree, "src"))
        if ident != "ORIG":
            text = apply_edit(orig[rel], ident, pairs)
            with open(os.path.join(tree, rel), "w") as fh:
                fh.write(text)
            rc, out = sh([PY, "-c", f"import ast; ast.parse(open({os.path.join(tree, rel)!r}).read())"])
            assert rc == 0, out

        def gen_text():
            return "".join(l for l in open(os.path.join(coq, "gen", GEN)) if "sha256" not in l)
        rc, out = sh([PY, os.path.join(verif, "translator", "py2coq.py"), tree, os.path.join(coq, "gen")])
        msg = [l for l in out.splitlines() if l.startswith("TRANSLATOR-UNSUPPORTED")]
        other = [l for l in msg if not l.startswith(f"TRANSLATOR-UNSUPPORTED[{GEN}]")]
        assert not other, other        # only gen/SyntaxGen.v may be poisoned by these edits
        if rc != 0 and not msg:
            res, passed = ("translator CRASHED", out.strip()[-300:]), False
        elif msg:
            # fail closed: gen/SyntaxGen.v is replaced by a stub that does not compile
            rc2, log = sh(["make", "-k", "-j8", "COQC=timeout 600 coqc"] + TARGETS, cwd=coq)
            assert rc2 != 0, "the poisoned gen/SyntaxGen.v compiled"
            res, passed = ("translator rejects (gen/SyntaxGen.v poisoned, nothing depending on it compiles)", msg[0][:260]), False
        else:
            if ident == "ORIG":
                baseline["t"] = gen_text()
            changed = gen_text() != baseline["t"]
            rc2, log = sh(["make", "-k", "-j8", "COQC=timeout 600 coqc"] + TARGETS, cwd=coq)
            if rc2 == 0:
                res, passed = ("translates; all equality proofs COMPILE", ""), True
            else:
                errs = all_errors(log)
                if errs:
                    names = [f"`{enclosing(os.path.join(coq, f), line)}` ({f}:{line})" for f, line, _ in errs]
                    res = ("translates; proof FAILS: " + ", ".join(names), errs[0][2])
                else:
                    res = ("translates; build FAILS", log.strip()[-200:])
                passed = False
            res = (res[0] + (" [generated text differs from the original's]" if changed else ""), res[1])
        ok = (passed == (kind in ("harmless", "original")))
        rows.append((ident, kind, os.path.basename(rel) if rel else "", desc, res[0], res[1], ok))
        print(f"{ident} [{kind}] {desc}\n    -> {res[0]} {res[1]}\n    {'as expected' if ok else 'UNEXPECTED'}", flush=True)

    run("ORIG", "original", None, "unmodified /repo/src", None)
    for ident, kind, rel, desc, pairs in EDITS:
        if only and ident not in only:
            continue
        run(ident, kind, rel, desc, pairs)
    run("ORIG", "original", None, "unmodified /repo/src again (after all edits)", None)
    bad = [r for r in rows if not r[6]]
    if report:
        with open(report, "w") as fh:
            fh.write(PREAMBLE)
            sem = [r for r in rows if r[1] == "semantic"]
            fh.write(f"Summary: {len(sem)} semantic edits — {sum('proof FAILS' in r[4] for r in sem)} break an equality "
                     f"proof, {sum('translator rejects' in r[4] for r in sem)} are rejected by the translator, "
                     f"{sum('COMPILE' in r[4] for r in sem)} pass unnoticed; "
                     f"{sum(r[1] == 'harmless' for r in rows)} harmless rewrites — "
                     f"{sum(r[1] == 'harmless' and 'COMPILE' in r[4] for r in rows)} still translate and prove.  "
                     f"Unexpected outcomes: {len(bad)}.\n\n")
            fh.write("| id | kind | file | edit | outcome | first error |\n|---|---|---|---|---|---|\n")
            for ident, kind, rel, desc, res, err, ok in rows:
                fh.write(f"| {ident} | {kind} | {rel} | {desc} | {res} | {err.replace('|', '/')} |\n")
    tree = os.path.join(scratch, "repo")
    if os.path.exists(tree):
        shutil.rmtree(tree)          # the scratch SOURCE tree is always removed
    if not keep:
        shutil.rmtree(scratch)
    print("unexpected outcomes:", len(bad))
    return 1 if bad else 0


if __name__ == "__main__":
    argv = sys.argv[1:]
    only = None
    if "--only" in argv:
        i = argv.index("--only")
        only = set(argv[i + 1].split(","))
        del argv[i:i + 2]
    args = [a for a in argv if a != "--keep"]
    sys.exit(main(*args, keep="--keep" in argv, only=only))
