#!/usr/bin/env python3
"""Cross-check of the SYMBOLIC replay of translator/py2coq_grammar.py against the real pyparsing objects.

The translator never imports pyparsing: it replays the module-level statements of grammar.py on symbolic nodes
(`.set_parse_action` mutates and returns the object, `|=` appends to a MatchFirst in place / builds a new one, `<<=`
fills the Forward, strings are promoted to Literals).  This script imports the REAL grammar
(PYTHONPATH=/repo/src; refuses to run unless pacti.__file__ is under <repo>/src), dumps the object graph below
`expression` (class, literal spellings, parse-action names, Optional defaults; anonymous nested And / MatchFirst
spliced on both sides; the expansion of infixNotation is summarised by its operand and operator levels) and compares
it with the dump of the translator's graph.  Exit status 0 iff the two dumps are identical.

usage: PYTHONPATH=<repo>/src /venv/bin/python harness/gramgen_structure_check.py <verif dir> <repo dir>
"""
import ast
import os
import sys


def real_dump(repo):
    import pacti
    assert pacti.__file__.startswith(os.path.join(repo, "src")), pacti.__file__
    import pyparsing as pp
    from pacti.terms.polyhedra.syntax import grammar as G
    infix = G.arithmetic_expr
    seen = {}

    def act(e):
        out = []
        for f in e.parseAction:
            nm = getattr(f, "__name__", "?")
            w = getattr(f, "__wrapped__", None)
            out.append(getattr(w, "__name__", nm) if w else nm)
        return out

    def kids(e, cls):
        out = []
        for k in e.exprs:
            if type(k) is cls and not k.parseAction and type(e) is cls:
                out.extend(kids(k, cls))
            else:
                out.append(k)
        return out

    def d(e):
        if e is infix:
            return ("Infix", d(G.floating_point_number), [sorted([G.mult.match, G.div.match]), sorted([G.plus.match, G.minus.match])])
        t = type(e).__name__
        a = act(e)
        if isinstance(e, pp.Forward):
            if id(e) in seen:
                return ("ForwardRef",)
            seen[id(e)] = True
            return ("Forward", d(e.expr))
        if isinstance(e, pp.CaselessLiteral):
            return ("Caseless", e.match, a)
        if isinstance(e, pp.Literal):
            return ("Lit", e.match, a)
        if isinstance(e, pp.Suppress):
            return ("SLit", d(e.expr)[1])
        if isinstance(e, pp.Regex):                     # oneOf("+ -") compiles to a Regex
            return ("OneOf", e.pattern, a)
        if isinstance(e, pp.Word):
            return ("Word", "".join(sorted(e.initChars))[:12], len(e.initChars), len(e.bodyChars), a)
        if isinstance(e, (pp.And, pp.MatchFirst, pp.Or)):
            return (t, [d(k) for k in (kids(e, type(e)) if not isinstance(e, pp.Or) else e.exprs)], a)
        if isinstance(e, pp.Opt):
            dv = e.defaultValue
            return ("Optional", None if dv is pp.Opt._Opt__optionalNotMatched else dv, d(e.expr), a)
        if isinstance(e, (pp.ZeroOrMore, pp.OneOrMore, pp.Group, pp.Combine)):
            return (t, d(e.expr), a)
        raise SystemExit(f"unexpected pyparsing class {t}")
    return d(G.expression)


def sym_dump(verif, repo):
    sys.path.insert(0, os.path.join(verif, "translator"))
    import py2coq_grammar as T
    ev = T.run_module(ast.parse(open(os.path.join(repo, T.GRAMMAR)).read()))
    g = T.Gen(ev)
    seen = {}

    def a(n):
        if n.action is None:
            return []
        return ["<lambda>"] if n.action.startswith("lambda") else [n.action]

    def d(n):
        k = n.kind
        if k == "Infix":
            return ("Infix", d(n.kids[0]), [sorted(o.text for o in T.flat(op, "MatchFirst")) for op, _ in n.levels])
        if k == "Forward":
            if n in seen:
                return ("ForwardRef",)
            seen[n] = True
            return ("Forward", d(n.kids[0]))
        if k == "Caseless":
            return ("Caseless", n.text, a(n))
        if k == "Lit":
            return ("Lit", n.text, a(n))
        if k == "SLit":
            return ("SLit", n.text)
        if k == "OneOf":
            return ("OneOf", "[" + "".join("\\" + c if c in "-]^\\" else c for c in n.alts) + "]", a(n))
        if k == "Word":
            return (("Word", "0123456789", 10, 10, a(n)) if n.text == "nums" else
                    ("Word", "ABCDEFGHIJKL", 52, 63, a(n)))
        if k in ("And", "MatchFirst"):
            return (k, [d(x) for x in T.flat(n, k)], a(n))
        if k == "Or":
            return (k, [d(x) for x in n.kids], a(n))
        if k == "Optional":
            return ("Optional", n.default, d(n.kids[0]), a(n))
        return (k, d(n.kids[0]), a(n))
    return d(g.root)


if __name__ == "__main__":
    verif, repo = sys.argv[1], sys.argv[2]
    r, s = real_dump(repo), sym_dump(verif, repo)
    if r == s:
        n = repr(r).count("(")
        print(f"gramgen_structure_check: the symbolic replay and the real pyparsing objects agree ({n} nodes)")
        sys.exit(0)
    import pprint
    a, b = pprint.pformat(r, width=150).splitlines(), pprint.pformat(s, width=150).splitlines()
    for i, (x, y) in enumerate(zip(a, b)):
        if x != y:
            print(f"first difference at line {i}:\n  real:     {x}\n  symbolic: {y}")
            break
    sys.exit(1)
