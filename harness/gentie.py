#!/usr/bin/env python3
"""Append a block of T1-tie theorems (generated function = hand model) to a props file.
usage: gentie.py <props file> <marker> "<Require Import line>" "<comment>" name=lemma ...
The statement of each theorem is the type Coq prints for the lemma (plain if that re-parses, with implicit arguments shown otherwise),
so the property file shows exactly what is proved and cannot drift."""
import re
import subprocess
import sys
import os

COQ = os.path.join(os.path.dirname(os.path.dirname(os.path.abspath(__file__))), "coq")
FLAGS = "-Q base '' -Q gen '' -Q model '' -Q proofs '' -Q props ''"


def coqtop(body):
    p = os.path.join("/tmp", f"gentie_{os.getpid()}.v")
    open(p, "w").write(body)
    r = subprocess.run(f"cd {COQ} && timeout 300 coqtop {FLAGS} -batch -l {p}", shell=True, capture_output=True, text=True)
    os.remove(p)
    return r.stdout + r.stderr


def types(header, names, implicit):
    body = header + "\nSet Printing Width 118. Set Printing Depth 1000.\n" + ("Set Printing Implicit.\n" if implicit else "") + "".join(f"Check @{n}.\n" for n in names)
    out = coqtop(body)
    res, cur = {}, None
    for line in out.splitlines():
        m = re.match(r"^@?([\w']+)(\s+:.*)?$", line)
        if m and m.group(1) in names and not line.startswith(" "):
            cur = m.group(1)
            res[cur] = [m.group(2).strip() if m.group(2) else ""]
            continue
        if cur is not None:
            res[cur].append(line)
    # `context` (a common Python parameter name) is a keyword of Coq's term grammar: rename the bound variable in the statement
    return {k: re.sub(r"\bcontext\b", "context_", "\n".join(v).strip()[1:].strip()) for k, v in res.items()}


def main():
    props, marker, imports, comment = sys.argv[1:5]
    pairs = [a.split("=") for a in sys.argv[5:]]
    path = os.path.join(COQ, props)
    src = open(path).read()
    if marker in src:
        src = src[:src.index(marker)].rstrip("\n") + "\n"
    header = src + "\n" + imports + "\n"
    plain = types(header, [l for _, l in pairs], False)
    full = types(header, [l for _, l in pairs], True)
    block = f"\n{marker}\n{imports}\n(* {comment} *)\n"
    for name, lemma in pairs:
        for ty in (plain.get(lemma), full.get(lemma)):
            if not ty:
                continue
            thm = f"Theorem {name} :\n  {ty}.\nProof. exact @{lemma}. Qed.\n"
            out = coqtop(header + thm)
            if "Error" not in out:
                block += thm + f"Print Assumptions {name}.\n"
                break
        else:
            raise SystemExit(f"cannot state {name} = {lemma}: {out[-600:]}")
    open(path, "w").write(src + block)
    print(props, "+", len(pairs), "tie theorems")


if __name__ == "__main__":
    main()
