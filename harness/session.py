"""Session histories for C13: a pool of real pacti objects, operations applied to pool members, deep
snapshots around every call, aliasing analysis of results, in-place mutation of results, and replay of
every step from serialised arguments (also in a fresh interpreter, in a different order)."""
from __future__ import annotations

import json
import os
import subprocess
import sys
from fractions import Fraction as F

HERE = os.path.dirname(os.path.abspath(__file__))


# ---------------------------------------------------------------- serialisation (exact: float.hex)
def ser_term(t):
    return {"v": [[str(k), float(v).hex()] for k, v in t.variables.items()], "c": float(t.constant).hex()}


def ser_tl(tl):
    return [ser_term(t) for t in tl.terms]


def ser_contract(c):
    return {"i": [str(v) for v in c.inputvars], "o": [str(v) for v in c.outputvars], "a": ser_tl(c.a), "g": ser_tl(c.g)}


def de_term(d):
    from pacti.iocontract import Var
    from pacti.terms.polyhedra import PolyhedralTerm
    return PolyhedralTerm({Var(k): float.fromhex(v) for k, v in d["v"]}, float.fromhex(d["c"]))


def de_tl(l):
    from pacti.terms.polyhedra import PolyhedralTermList
    return PolyhedralTermList([de_term(d) for d in l])


def de_contract(d):
    from pacti.contracts import PolyhedralIoContract
    from pacti.iocontract import Var
    return PolyhedralIoContract(assumptions=de_tl(d["a"]), guarantees=de_tl(d["g"]), input_vars=[Var(v) for v in d["i"]],
                                output_vars=[Var(v) for v in d["o"]], simplify=False)


def ser_value(v):
    from pacti.contracts import PolyhedralIoContract
    from pacti.terms.polyhedra import PolyhedralTermList
    if isinstance(v, PolyhedralIoContract):
        return {"k": "contract", "x": ser_contract(v)}
    if isinstance(v, PolyhedralTermList):
        return {"k": "terms", "x": ser_tl(v)}
    if isinstance(v, tuple) and len(v) == 2 and isinstance(v[1], list):      # (result, tactic statistics): time field dropped
        return {"k": "pair", "x": ser_value(v[0]), "stats": [[[int(s[0]), int(s[2])] for s in one] if one and isinstance(one[0], tuple) else
                                                            ([int(one[0]), int(one[2])] if isinstance(one, tuple) else one) for one in v[1]]}
    if isinstance(v, float):
        return {"k": "float", "x": v.hex()}
    if isinstance(v, (bool, int, str)) or v is None:
        return {"k": "plain", "x": v}
    if isinstance(v, (list, tuple)):
        return {"k": "list", "x": [ser_value(x) for x in v]}
    if isinstance(v, dict):
        return {"k": "dict", "x": [[str(k), ser_value(x)] for k, x in v.items()]}
    return {"k": "repr", "x": repr(v)}


def de_arg(a):
    from pacti.iocontract import Var
    k = a["k"]
    if k == "contract":
        return de_contract(a["x"])
    if k == "terms":
        return de_tl(a["x"])
    if k == "vars":
        return [Var(v) for v in a["x"]]
    if k == "behavior":
        return {Var(n): float.fromhex(v) for n, v in a["x"]}
    return a["x"]


# ---------------------------------------------------------------- the operations (name -> callable on deserialised args)
def run_op(op, args):
    from pacti.contracts import PolyhedralIoContract
    from pacti.terms.polyhedra.serializer import polyhedral_termlist_from_string
    from pacti.terms.polyhedra import PolyhedralTermList
    if op == "compose":
        return args[0].compose(args[1], args[2], args[3])
    if op == "compose_tactics":
        return args[0].compose_tactics(args[1], args[2], args[3], args[4])
    if op == "quotient":
        return args[0].quotient(args[1], args[2], args[3])
    if op == "merge":
        return args[0].merge(args[1])
    if op == "refines":
        return args[0].refines(args[1])
    if op == "rename":
        return args[0].rename_variables([tuple(m) for m in args[1]])
    if op == "rename_one":
        from pacti.iocontract import Var
        return args[0].rename_variable(Var(args[1]), Var(args[2]))
    if op == "copy":
        return args[0].copy()
    if op == "elim_refine":
        return args[0].elim_vars_by_refining(args[1], args[2], args[3], args[4])
    if op == "elim_relax":
        return args[0].elim_vars_by_relaxing(args[1], args[2], args[3], args[4])
    if op == "tl_simplify":
        return args[0].simplify(args[1])
    if op == "tl_refines":
        return args[0].refines(args[1])
    if op == "contains":
        return args[0].contains_behavior(args[1])
    if op == "optimize":
        return args[0].optimize(args[1], args[2])
    if op == "bounds":
        return args[0].get_variable_bounds(args[1])
    if op == "to_machine_dict":
        return args[0].to_machine_dict()
    if op == "dict_roundtrip":
        return PolyhedralIoContract.from_dict(args[0].to_machine_dict(), simplify=args[1])
    if op == "to_dict":
        return args[0].to_dict()
    if op == "string_roundtrip":
        return PolyhedralIoContract.from_strings(**args[0].to_dict(), simplify=args[1])
    if op == "parse":
        return PolyhedralTermList(polyhedral_termlist_from_string(args[0]))
    if op == "to_str_list":
        return args[0].to_str_list()
    raise ValueError(op)


def outcome(op, args):
    """(kind, serialised value or exception type)"""
    try:
        return ["ok", ser_value(run_op(op, args))]
    except Exception as e:  # noqa: BLE001
        return ["err", type(e).__name__]


# ---------------------------------------------------------------- aliasing
def mutable_ids(obj, acc=None):
    """ids of the mutable objects reachable from obj (lists, dicts, pacti objects except Var)"""
    from pacti.iocontract import Var
    acc = {} if acc is None else acc
    if isinstance(obj, (str, int, float, bool, Var)) or obj is None:
        return acc
    if id(obj) in acc:
        return acc
    if isinstance(obj, (list, dict)) or hasattr(obj, "__dict__"):
        acc[id(obj)] = type(obj).__name__
    if isinstance(obj, dict):
        for k, v in obj.items():
            mutable_ids(k, acc)
            mutable_ids(v, acc)
    elif isinstance(obj, (list, tuple)):
        for x in obj:
            mutable_ids(x, acc)
    elif hasattr(obj, "__dict__"):
        for v in vars(obj).values():
            mutable_ids(v, acc)
    return acc


def mutate_in_place(v):
    """scribble over a result: lists grow, a coefficient and a constant are overwritten"""
    from pacti.contracts import PolyhedralIoContract
    from pacti.iocontract import Var
    from pacti.terms.polyhedra import PolyhedralTerm, PolyhedralTermList
    if isinstance(v, tuple):
        for x in v:
            mutate_in_place(x)
    elif isinstance(v, PolyhedralIoContract):
        v.inputvars.append(Var("zz_in"))
        v.outputvars.append(Var("zz_out"))
        mutate_in_place(v.a)
        mutate_in_place(v.g)
    elif isinstance(v, PolyhedralTermList):
        for t in v.terms:
            for k in list(t.variables):
                t.variables[k] = 12345.0
            t.constant = -54321.0
            t.variables[Var("zz_new")] = 1.0
        v.terms.append(PolyhedralTerm({Var("zz_t"): 1.0}, 0.0))
    elif isinstance(v, list):
        v.append("zz")
    elif isinstance(v, dict):
        for k in list(v):
            mutate_in_place(v[k])
        v["zz"] = 1


def module_state():
    import pacti.contracts.polyhedral_iocontract as pc
    import pacti.terms.polyhedra.polyhedra as pp
    return {"order_poly": list(pp.TACTICS_ORDER), "order_contract": list(pc.TACTICS_ORDER),
            "tactics": sorted(pp.PolyhedralTermList.TACTICS.keys())}


# ---------------------------------------------------------------- fresh-interpreter replay
def replay_fresh(steps, reverse=True):
    """steps: list of {"op":…, "args":[serialised]} -> list of outcomes computed in a new interpreter, in another order"""
    env = dict(os.environ)
    order = list(range(len(steps)))
    if reverse:
        order.reverse()
    p = subprocess.run([sys.executable, os.path.join(HERE, "session.py"), "--replay"], input=json.dumps({"steps": steps, "order": order}),
                       capture_output=True, text=True, env=env, timeout=600)
    if p.returncode != 0:
        raise RuntimeError("fresh replay failed: " + p.stderr[-800:])
    return json.loads(p.stdout.strip().splitlines()[-1])


def _replay_main():
    import logging
    logging.disable(logging.CRITICAL)
    data = json.loads(sys.stdin.read())
    import pacti
    assert os.path.realpath(pacti.__file__).startswith(os.path.realpath(os.environ.get("VERIF_REPO", "/repo") + "/src")), pacti.__file__
    res = [None] * len(data["steps"])
    import io
    import contextlib
    for i in data["order"]:
        st = data["steps"][i]
        with contextlib.redirect_stdout(io.StringIO()):
            res[i] = outcome(st["op"], [de_arg(a) for a in st["args"]])
    print(json.dumps(res))


if __name__ == "__main__" and "--replay" in sys.argv:
    _replay_main()
