"""Recorder shims: wrap scipy.optimize.linprog as seen by pacti (from the outside, no repo hook)."""
from __future__ import annotations

from fractions import Fraction as F

import numpy as np

import pacti.terms.polyhedra.polyhedra as P

_real_linprog = P.linprog
CALLS = []
ENABLED = [False]
LAST_VARS = [None]
_real_t2p = P.PolyhedralTermList.termlist_to_polytope


def _t2p(terms, context):
    res = _real_t2p(terms, context)
    LAST_VARS[0] = [str(v) for v in res[0]]
    return res


P.PolyhedralTermList.termlist_to_polytope = staticmethod(_t2p)


def _wrapped(c, A_ub=None, b_ub=None, **kw):
    res = _real_linprog(c=c, A_ub=A_ub, b_ub=b_ub, **kw)
    if ENABLED[0]:
        try:
            cc = [float(x) for x in np.asarray(c, dtype=float).ravel()]
            A = np.asarray(A_ub, dtype=float)
            bb = [float(x) for x in np.asarray(b_ub, dtype=float).ravel()]
            rows = [[float(x) for x in r] for r in A] if A.ndim == 2 else []
            names = LAST_VARS[0] if LAST_VARS[0] is not None and len(LAST_VARS[0]) == len(cc) else None
            if names is None:
                names = [f"?{i}" for i in range(len(cc))]
            CALLS.append({
                "vars": names, "c": cc, "A": rows, "b": bb, "status": int(res["status"]),
                "fun": None if res["fun"] is None else float(res["fun"]),
                "slack": None if res.get("slack") is None else [float(x) for x in np.asarray(res["slack"]).ravel()],
            })
        except Exception as e:  # noqa: BLE001
            CALLS.append({"unrecordable": repr(e)})
    return res


P.linprog = _wrapped


class Recording:
    def __enter__(self):
        CALLS.clear()
        ENABLED[0] = True
        return CALLS

    def __exit__(self, *a):
        ENABLED[0] = False


def frac(x):
    return F(float(x))


def coq_table(calls):
    """Render recorded calls as a Gallina list (lp_problem * lp_answer)."""
    import coqfmt as cf
    items = []
    for k in calls:
        if "unrecordable" in k:
            continue
        rows = cf.lst(f"({cf.qlist(frac(x) for x in r)}, {cf.q(frac(b))})" for r, b in zip(k["A"], k["b"]))
        prob = f"(mkLP {cf.svars(k['vars'])} {cf.qlist(frac(x) for x in k['c'])} {rows})"
        st = k["status"]
        if st == 0 and k["fun"] is not None:
            sl = k["slack"] if k["slack"] is not None else []
            ans = f"(LpOpt {cf.q(frac(k['fun']))} {cf.qlist(frac(x) for x in sl)})"
        elif st == 2:
            ans = "LpInfeasible"
        elif st == 3:
            ans = "LpUnbounded"
        else:
            ans = f"(LpOther {st})"
        items.append(f"({prob}, {ans})")
    return cf.lst(items)


def validate_calls(calls, tol=1e-6):
    """Compare each recorded HiGHS answer with the exact rational LP.  Returns (n, disagreements)."""
    import exactlp
    bad = []
    n = 0
    for k in calls:
        if "unrecordable" in k or not k["A"]:
            continue
        n += 1
        r = exactlp.lp_min([frac(x) for x in k["c"]], [[frac(x) for x in row] for row in k["A"]], [frac(x) for x in k["b"]])
        st = {0: "opt", 2: "infeasible", 3: "unbounded"}.get(k["status"], "other")
        if st != r["status"]:
            bad.append({"call": k, "exact": r["status"]})
        elif st == "opt" and abs(k["fun"] - float(r["value"])) > tol * (1 + abs(float(r["value"]))):
            bad.append({"call": k, "exact_value": str(r["value"])})
    return n, bad
