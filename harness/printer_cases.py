"""Correspondence of coq/model/Printer.v with the Python printer.

(i)  fmt4 / round4 / decimal_value  vs  format(x, ".4g")  on >= 100000 doubles, character for character;
(ii) to_str_list  vs  PolyhedralTermList.to_str_list  on >= 2000 generated term lists, exact string equality.

The Coq side is evaluated by vm_compute in shards (<= 2000 numbers / <= 250 term lists per file, up to
8 coqc in parallel); each shard prints only the indices that mismatch.

    PYTHONPATH=/repo/src:/verif/harness PYTHONHASHSEED=0 /venv/bin/python /verif/harness/printer_cases.py

PRINTER_COQ=<dir> evaluates against another copy of the coq/ tree (it must contain model/Printer.vo).
"""
from __future__ import annotations

import math
import os
import random
import struct
import sys
from concurrent.futures import ThreadPoolExecutor
from decimal import Decimal
from fractions import Fraction as F

import common
import coqfmt

if os.environ.get("PRINTER_COQ"):
    common.COQ = os.environ["PRINTER_COQ"]
    common.CASES = os.path.join(common.COQ, "cases")

JOBS = 8
FMT_SHARD = 2000
TL_SHARD = 250

HEADER = """From Coq Require Import List String Bool QArith ZArith.
Import ListNotations.
Require Import Py Sem Term Printer.
Open Scope string_scope.
Fixpoint bad {A} (ok : A -> bool) (i : nat) (l : list A) : list nat :=
  match l with
  | [] => []
  | a :: r => if ok a then bad ok (S i) r else i :: bad ok (S i) r
  end.
Fixpoint strs_eqb (a b : list string) : bool :=
  match a, b with
  | [], [] => true
  | x :: r, y :: s => String.eqb x y && strs_eqb r s
  | _, _ => false
  end.
"""


def coq_str(s: str) -> str:
    return '"' + s.replace('"', '""') + '"'


# ------------------------------------------------------------------------------------------------
# doubles
# ------------------------------------------------------------------------------------------------
def _bits(x: float) -> int:
    return struct.unpack("<q", struct.pack("<d", x))[0]


def _from_bits(b: int) -> float:
    return struct.unpack("<d", struct.pack("<q", b))[0]


def ulps(x: float, k: int) -> float:
    """the double k ulps above (below) a positive finite x"""
    return _from_bits(_bits(x) + k)


def fmt_numbers(seed=20260928):
    rng = random.Random(seed)
    xs = []

    def add(x, neighbours=0):
        x = float(x)
        if x == 0.0 or not math.isfinite(x):
            return
        x = abs(x)
        for k in range(-neighbours, neighbours + 1):
            xs.append(ulps(x, k))

    # random across magnitudes 1e-12 .. 1e18
    for _ in range(62000):
        add(10.0 ** rng.uniform(-12, 18))
    # random mantissas with few digits (many trailing zeros to strip)
    for _ in range(6000):
        add(rng.randint(1, 9999) * 10.0 ** rng.randint(-12, 14))
    for _ in range(3000):
        add(round(rng.uniform(-5, 5), rng.choice([1, 2, 3])))
    # decade boundaries 9.9995e k, 9.9994999e k, 1e k, and their neighbours
    for k in range(-13, 19):
        for m in ("9.9995", "9.9994999", "9.99949999999999", "9.99950000000001", "1", "9.999", "1.0005", "1.00049999999"):
            add(float(f"{m}e{k}"), 6)
    # decimal "ties" (as doubles most are not ties)
    for _ in range(5000):
        m = rng.randint(1000, 9999)
        add(float(f"{m}5e{rng.randint(-16, 12)}"), 1)
    for s in ("1.2345", "0.00012345", "12345.0", "1234.5", "0.12345", "123.45", "12.345", "1.0005", "2.5", "0.5", "1e-4", "1e4"):
        add(float(s), 3)
    # exact dyadic ties (m + 1/2) * 10^k: 2m+1 an odd multiple of 5^j over 2 * 10^j, scaled by powers of ten
    for j in range(0, 7):
        step = 5 ** j
        cands = [n for n in range(2001, 20000, 2) if n % step == 0]
        if len(cands) > 1500:
            cands = rng.sample(cands, 1500)
        for n in cands:
            for kk in (0, rng.randint(1, 12)):
                v = F(n, 2 * 10 ** j) * 10 ** kk
                f = float(v)
                if F(f) == v:
                    add(f, 1)
    for k in range(-30, 40):
        add(2048.5 * 2.0 ** k, 1)
        add(1000.5 * 2.0 ** k, 1)
    # integers
    for n in range(1, 3000):
        add(n)
    for n in range(9900, 10100):
        add(n)
    for _ in range(3000):
        add(rng.randint(1, 10 ** rng.randint(1, 18)))
    # powers of two and small multiples
    for k in range(-45, 62):
        for c in (1, 3, 5, 7):
            add(c * 2.0 ** k, 1)
    # the fixed / scientific switch-over at 1e-4 and 1e4
    for s in ("9999.5", "9999.4999999", "9999", "10000", "9999.49", "9999.51", "10001", "10005", "99995", "0.0001", "0.00009999",
              "0.000099995", "0.0000999949", "0.00010001", "0.00010005", "0.000100049", "0.00001", "0.001", "1000", "999.95", "99.995"):
        add(float(s), 8)
    for _ in range(1500):
        add(rng.uniform(9990, 10010))
        add(rng.uniform(0.0000999, 0.0001001))
    # tolerance-sized numbers the term printer sees
    for s in ("1e-8", "6e-9", "1e-5", "1.00001", "0.99999", "1.00049999", "1.0005"):
        add(float(s), 2)
    # half of them negative, plus zero
    out = []
    for i, x in enumerate(xs):
        out.append(-x if i % 2 else x)
    out.append(0.0)
    return out


def fmt_shard_body(xs):
    rows = []
    for x in xs:
        s = format(x, ".4g")
        rows.append(f"({coqfmt.q(F(x))}, {coq_str(s)}, {coqfmt.q(F(Decimal(s)))})")
    body = HEADER
    body += "Definition cases : list (Q * string * Q) := " + coqfmt.lst(rows) + ".\n"
    body += 'Eval vm_compute in ("FMT", bad (fun c => String.eqb (fmt4 (fst (fst c))) (snd (fst c))) 0 cases).\n'
    body += 'Eval vm_compute in ("R4", bad (fun c => Qeq_bool (round4 (fst (fst c))) (snd c)) 0 cases).\n'
    body += ('Eval vm_compute in ("VAL", bad (fun c => match decimal_value (fmt4 (fst (fst c))) with '
             "Some v => Qeq_bool v (round4 (fst (fst c))) | None => false end) 0 cases).\n")
    return body


def run_shards(jobs, timeout=900):
    res = {}
    with ThreadPoolExecutor(max_workers=JOBS) as ex:
        futs = {ex.submit(common.run_cases, n, b, timeout): n for n, b in jobs}
        for f, n in futs.items():
            res[n] = f.result()
    return res


def check_fmt(verbose=True):
    xs = fmt_numbers()
    shards = [xs[i:i + FMT_SHARD] for i in range(0, len(xs), FMT_SHARD)]
    jobs = [(f"printer_fmt_{i}", fmt_shard_body(sh)) for i, sh in enumerate(shards)]
    res = run_shards(jobs)
    mism = {"FMT": [], "R4": [], "VAL": []}
    errors = []
    for i, sh in enumerate(shards):
        rc, out = res[f"printer_fmt_{i}"]
        for tag in mism:
            idx = common.parse_nat_list(out, tag)
            if rc != 0 or idx is None:
                errors.append((i, common.first_error(out)))
                break
            mism[tag] += [(i * FMT_SHARD + k, sh[k]) for k in idx]
    if verbose:
        print(f"fmt4: {len(xs)} doubles in {len(shards)} shards; mismatches: "
              + ", ".join(f"{t}={len(v)}" for t, v in mism.items()) + f"; shard errors: {len(errors)}")
        for t, v in mism.items():
            for k, x in v[:20]:
                print(f"  {t} mismatch at {k}: x={x!r} python={format(x, '.4g')!r}")
        for i, e in errors[:5]:
            print(f"  shard {i}: {e}")
    return len(xs), sum(len(v) for v in mism.values()), len(errors)


# ------------------------------------------------------------------------------------------------
# term lists
# ------------------------------------------------------------------------------------------------
NAMES = ["x", "y", "z", "w", "a", "ab", "B", "x10", "x2", "u_1"]
RTOL = 1e-5
ATOL = 1e-8


def _threshold(y: float) -> float:
    return ATOL + RTOL * abs(y)


def near(rng, y: float) -> float:
    """a float near y: inside, outside, or on the edge of the isclose tolerance around y"""
    t = _threshold(y)
    kind = rng.randrange(9)
    sgn = rng.choice([-1.0, 1.0])
    if kind == 0:
        return y
    if kind == 1:
        return y + sgn * t * rng.uniform(0.0, 0.98)
    if kind == 2:
        return y + sgn * t * rng.uniform(1.02, 3.0)
    if kind == 3:      # the edge, computed the way numpy does, +- a few ulps
        x = y + sgn * t
        return ulps(abs(x), rng.randint(-3, 3)) * (1.0 if x > 0 else -1.0) if x != 0 else x
    if kind == 4:
        return y * (1 + sgn * 5e-6)
    if kind == 5:
        return y * (1 + sgn * 1.2e-5)
    if kind == 6:
        return y + sgn * t * rng.uniform(0.999999, 1.000001)
    if kind == 7:
        return y + sgn * 5e-4 * abs(y)
    return y + sgn * t


def rand_coef(rng) -> float:
    k = rng.randrange(12)
    if k == 0:
        return near(rng, 1.0)
    if k == 1:
        return near(rng, -1.0)
    if k == 2:
        v = near(rng, 0.0)
        return v if v != 0.0 else 5e-9
    if k == 3:
        return float(rng.choice([1, -1, 2, -2, 3, -3, 10, -10, 100, 1000, 10000, 12345, -123456]))
    if k == 4:
        return rng.choice([0.5, -0.5, 0.25, 1.5, -1.5, 0.125, 2.5])
    if k == 5:
        return round(rng.uniform(-5, 5), rng.choice([1, 2, 3])) or 1.0
    if k == 6:
        return rng.uniform(-2, 2) or 1.0
    if k == 7:
        return rng.choice([-1.0, 1.0]) * 10.0 ** rng.uniform(-7, 7)
    if k == 8:
        return rng.choice([1.00049999, -1.0005, 1.0005, 0.99995, 9999.5, 0.000099995, 1e-4, 1e4, 99995.0, 1.2345, 2.675])
    if k == 9:
        return rng.choice([1.0, -1.0])
    if k == 10:
        return rng.choice([1e-8, -1e-8, 6e-9, 1.0000001e-8, 2e-8, -5e-9, 1e-9])
    return float(rng.randint(-9, 9)) or 2.0


def rand_const(rng) -> float:
    k = rng.randrange(8)
    if k == 0:
        return 0.0
    if k == 1:
        return near(rng, 0.0)
    if k == 2:
        return float(rng.randint(-20, 20))
    if k == 3:
        return round(rng.uniform(-10, 10), rng.choice([1, 2, 3]))
    if k == 4:
        return rng.uniform(-100, 100)
    if k == 5:
        return rng.choice([-1.0, 1.0]) * 10.0 ** rng.uniform(-9, 9)
    if k == 6:
        return rng.choice([6e-9, -6e-9, 1e-8, 4e-9, 5.1e-9, 1e-9, 9999.5, 12345.0, 1e-4, 0.5])
    return float(rng.randint(-3, 3))


def rand_term(rng, names):
    n = rng.choice([0, 1, 1, 2, 2, 2, 3, 3, 4])
    vs = rng.sample(names, min(n, len(names)))
    return ({v: rand_coef(rng) for v in vs}, rand_const(rng))


def partner(rng, t):
    """a term (approximately, exactly, or not quite) opposite to t, with a related constant"""
    coeffs, c = t
    items = list(coeffs.items())
    rng.shuffle(items)
    mode = rng.randrange(6)
    new = {}
    for v, a in items:
        if mode == 0:
            new[v] = -a
        elif mode in (1, 2, 3):
            new[v] = near(rng, -a)
        else:
            new[v] = -a if rng.random() < 0.7 else near(rng, -a)
        if new[v] == 0.0:
            new[v] = -a
    if mode == 5 and rng.random() < 0.5:
        # break the variable sets
        if new and rng.random() < 0.5:
            new.pop(next(iter(new)))
        else:
            new["q"] = rng.choice([1.0, 1e-9, -2.0])
    ck = rng.randrange(9)
    if ck == 0:
        nc = -c
    elif ck == 1:
        nc = c
    elif ck == 2:
        nc = near(rng, -c)
    elif ck == 3:
        nc = near(rng, c)
    elif ck == 4:
        nc = rng.choice([6e-9, -6e-9, 0.0, 1e-8, 4e-9, -1e-8, 2e-8])
    elif ck == 5:
        nc = rand_const(rng)
    elif ck == 6:
        nc = -c if c != 0 else 0.0
    elif ck == 7:
        nc = c + rng.choice([-1.0, 1.0]) * _threshold(c)
    else:
        nc = -c + rng.choice([-1.0, 1.0]) * _threshold(c)
    return (new, nc)


def tl_cases(n=2600, seed=7):
    rng = random.Random(seed)
    cases = []
    for i in range(n):
        names = rng.sample(NAMES, rng.choice([1, 2, 3, 4, 4]))
        size = rng.randint(1, 6)
        ts = []
        while len(ts) < size:
            r = rng.random()
            if ts and r < 0.55:
                base = rng.choice(ts)
                p = partner(rng, base)
                pos = rng.randint(0, len(ts))
                ts.insert(pos, p)
            else:
                t = rand_term(rng, names)
                if i % 5 == 0 and rng.random() < 0.5:
                    # small constants on both sides: rule 3 material
                    t = (t[0], rng.choice([6e-9, -6e-9, 4e-9, 0.0, 1e-8, 7e-9]))
                ts.insert(rng.randint(0, len(ts)), t)
        # negative zero is out of the model's scope (format(-0.0, ".4g") == "-0"): x + 0.0 maps -0.0 to 0.0
        ts = [(co, c + 0.0) for co, c in ts]
        cases.append(ts)
    return cases


def tl_shard_body(cases, expected):
    rows = []
    for ts, exp in zip(cases, expected):
        rows.append(f"({coqfmt.terms(ts)}, {coqfmt.lst(coq_str(s) for s in exp)})")
    body = HEADER
    body += "Definition cases : list (list pterm * list string) := " + coqfmt.lst(rows) + ".\n"
    body += 'Eval vm_compute in ("TL", bad (fun c => strs_eqb (to_str_list (fst c)) (snd c)) 0 cases).\n'
    body += ('Eval vm_compute in ("ITEMS", bad (fun c => strs_eqb (map item_str (items (fst c))) (snd c)) 0 cases).\n')
    return body


def check_term_lists(verbose=True):
    import gen
    raw = tl_cases()
    cases, expected = [], []
    stats = {"=": 0, "| <=": 0, "| = 0": 0, "<=": 0, "empty lhs": 0}
    for ts in raw:
        tl = gen.mktl(ts)
        strs = tl.to_str_list()
        cases.append(coqfmt.pts_of(tl))        # what the constructor kept, insertion order, exact rationals
        expected.append(strs)
        for s in strs:
            if s.endswith("| = 0"):
                stats["| = 0"] += 1
            elif "| <= " in s:
                stats["| <="] += 1
            elif " = " in s:
                stats["="] += 1
            else:
                stats["<="] += 1
            if s.startswith(" <=") or s.startswith(" =") or s.startswith("||"):
                stats["empty lhs"] += 1
    shards = [(cases[i:i + TL_SHARD], expected[i:i + TL_SHARD]) for i in range(0, len(cases), TL_SHARD)]
    jobs = [(f"printer_tl_{i}", tl_shard_body(c, e)) for i, (c, e) in enumerate(shards)]
    res = run_shards(jobs)
    mism, errors = [], []
    for i, (c, e) in enumerate(shards):
        rc, out = res[f"printer_tl_{i}"]
        for tag in ("TL", "ITEMS"):
            idx = common.parse_nat_list(out, tag)
            if rc != 0 or idx is None:
                errors.append((i, common.first_error(out)))
                break
            mism += [(tag, i * TL_SHARD + k) for k in idx]
    if verbose:
        print(f"to_str_list: {len(cases)} term lists ({sum(len(c) for c in cases)} terms, "
              f"{sum(len(e) for e in expected)} strings; kinds {stats}); mismatches: {len(mism)}; shard errors: {len(errors)}")
        for tag, k in mism[:10]:
            print(f"  {tag} mismatch at {k}: terms={raw[k]!r}\n     python={expected[k]!r}")
        for i, e in errors[:5]:
            print(f"  shard {i}: {e}")
    return len(cases), len(mism), len(errors)


def check_examples(verbose=True):
    """The Python side of the Examples of proofs/PrinterFacts.v (documented limitations)."""
    import gen
    from pacti.terms.polyhedra.serializer import polyhedral_termlist_from_string
    from pacti.utils.errors import PolyhedralSyntaxException

    def rejected(s):
        try:
            polyhedral_termlist_from_string(s)
        except PolyhedralSyntaxException:
            return True
        return False

    facts = [
        ("near_opposite_pair", gen.mktl([({"x": 1.000495}, -2000.0), ({"x": -1.000505}, 2000.0)]).to_str_list() == ["1 x = -2000"]),
        ("rule3_unparseable", gen.mktl([({"x": 1.0}, 6e-9), ({"x": -1.0}, 6e-9)]).to_str_list() == ["|x| = 0"]),
        ("rule3 string rejected by the grammar", rejected("|x| = 0")),
        ("tiny_abs_prints_as_equality", gen.mktl([({"x": 1.0}, 1e-9), ({"x": -1.0}, 1e-9)]).to_str_list() == ["x = 1e-09"]),
        ("lhs_quirks", gen.mktl([({"x": 1e-9, "y": 1.0}, 1.0), ({}, 3.0)]).to_str_list() == [" + y <= 1", " <= 3"]),
        ("empty lhs rejected by the grammar", rejected(" <= 3")),
        ("one_x", gen.mktl([({"x": 1.0001}, 0.0)]).to_str_list() == ["1 x <= 0"]),
        ("demo_strings", gen.mktl([({"x": 1.0, "y": 2.0}, 3.0), ({"z": -0.5, "x": 1.0}, 4.0), ({"y": -2.0, "x": -1.0}, -3.0),
                                   ({"z": 1.0}, 10000.0), ({"x": -1.0, "z": 0.5}, 4.0)]).to_str_list()
         == ["x + 2 y = 3", "|x - 0.5 z| <= 4", "z <= 1e+04"]),
        ("fmt4_examples", [format(x, ".4g") for x in (1.0, 9999.5, 1e16, 1 / 3, -100.1, 5e-7)]
         == ["1", "1e+04", "1e+16", "0.3333", "-100.1", "5e-07"]),
    ]
    bad = [name for name, ok in facts if not ok]
    if verbose:
        print(f"examples: {len(facts)} Python-side facts of the Coq Examples; failing: {bad}")
    return len(facts), len(bad)


def ensure_model():
    """model/Printer.vo must exist (and be current) in the coq tree the shards are compiled in."""
    vo = os.path.join(common.COQ, "model", "Printer.vo")
    v = os.path.join(common.COQ, "model", "Printer.v")
    if not os.path.exists(vo) or os.path.getmtime(vo) < os.path.getmtime(v):
        rc, out = common.coqc(os.path.join("model", "Printer.v"))
        if rc != 0:
            raise SystemExit("model/Printer.v does not compile:\n" + common.first_error(out))


def selftest():
    common.assert_pacti_from_repo()
    ensure_model()
    n0, m0 = check_examples()
    n1, m1, e1 = check_fmt()
    n2, m2, e2 = check_term_lists()
    ok = (m0 == 0 and m1 == 0 and e1 == 0 and m2 == 0 and e2 == 0 and n1 >= 100000 and n2 >= 2000)
    print("printer_cases selftest:", "OK" if ok else "FAILED")
    return ok


if __name__ == "__main__":
    common.ensure_env()
    sys.exit(0 if selftest() else 1)
