#!/usr/bin/env python3
"""Sensitivity experiment for the translation of the STRUCTURE of the pyparsing grammar behind C09
(translator/py2coq_grammar.py -> gen/GrammarGen.v: the module-level pyparsing expressions of grammar.py) and of the
equality proofs proofs/GrammarGen*.v.

For each small edit of grammar.py (applied to a scratch copy of the source tree, one at a time) the translator is run
into a scratch copy of the Coq tree and proofs/GrammarGenFacts.vo is rebuilt (`make -k`, every coqc under `timeout`).
Semantic edits must be rejected by the translator (fail closed: TRANSLATOR-UNSUPPORTED[GrammarGen.v], the output file
is poisoned) or break a proof; harmless rewrites must pass.  Nothing outside the scratch directory is written (except
the report); the scratch SOURCE tree is removed at the end, the whole scratch directory unless --keep.

usage: gramgen_mutations.py <verif dir> <repo dir> <scratch dir> [report.md] [--keep] [--only ID,ID,...]
"""
import os
import re
import shutil
import subprocess
import sys

PY = "/venv/bin/python"
GRM = "src/pacti/terms/polyhedra/syntax/grammar.py"
TARGETS = ["proofs/GrammarGenFacts.vo"]
GEN = "GrammarGen.v"
NUM = "(floating_point_number ^ paren_arith_expr)"

# (id, kind, description, [(old text, new text), ...] | None)   kind: "semantic" | "harmless"
EDITS = [
    ("M01", "semantic", "first_abs_or_term: the two alternatives of the MatchFirst swapped (first_term | first_abs_term)",
     [("pp.Group(first_abs_term | first_term)", "pp.Group(first_term | first_abs_term)")]),
    ("M02", "semantic", "term: alternatives reordered (number_and_variable | only_variable | only_number)",
     [("pp.Group(only_variable | number_and_variable | only_number)",
       "pp.Group(number_and_variable | only_variable | only_number)")]),
    ("M03", "semantic", "first_term: the Optional around the sign removed (a leading sign becomes mandatory)",
     [('pp.Group(pp.Optional(symbol, default="+") + term)', "pp.Group(symbol + term)")]),
    ("M04", "semantic", "terms: ZeroOrMore(signed_term) -> OneOrMore(signed_term)",
     [("pp.Group(first_term + pp.ZeroOrMore(signed_term))", "pp.Group(first_term + pp.OneOrMore(signed_term))")]),
    ("M05", "semantic", "leq_expression: OneOrMore -> ZeroOrMore (a side alone is an expression)",
     [('pp.OneOrMore("<=" + multi_paren_abs_or_terms)', 'pp.ZeroOrMore("<=" + multi_paren_abs_or_terms)')]),
    ("M06", "semantic", "number_and_variable: the `*` between number and variable made mandatory",
     [(NUM + ' + pp.Optional("*") + variable)', NUM + ' + "*" + variable)')]),
    ("M07", "semantic", "number_and_variable: the optional `*` spelled `/`",
     [(NUM + ' + pp.Optional("*") + variable)', NUM + ' + pp.Optional("/") + variable)')]),
    ("M08", "semantic", "equality_operator: `==` dropped (only `=`)",
     [('pp.Or([pp.Literal("=="), pp.Literal("=")])', 'pp.Literal("=")')]),
    ("M09", "semantic", "leq_expression and geq_expression: the literals `<=` and `>=` swapped",
     [('pp.OneOrMore("<=" + multi_paren_abs_or_terms)', 'pp.OneOrMore(">=" + multi_paren_abs_or_terms)'),
      ('pp.OneOrMore(">=" + multi_paren_abs_or_terms))\n    .set_parse_action(_parse_geq_expression)',
       'pp.OneOrMore("<=" + multi_paren_abs_or_terms))\n    .set_parse_action(_parse_geq_expression)')]),
    ("M10", "semantic", "parse actions attached to the wrong rules (_parse_first_term on signed_term and back)",
     [(".set_parse_action(_parse_first_term).set_name", ".set_parse_action(_parse_signed_term).set_name"),
      ("pp.Group(symbol + term).set_parse_action(_parse_signed_term)", "pp.Group(symbol + term).set_parse_action(_parse_first_term)")]),
    ("M11", "semantic", "abs_or_terms gets the action of multi_paren_abs_or_terms",
     [(".set_parse_action(_parse_abs_or_terms)", ".set_parse_action(_parse_multi_paren_abs_or_terms)")]),
    ("M12", "semantic", "terms: the parse action removed",
     [("pp.Group(first_term + pp.ZeroOrMore(signed_term)).set_parse_action(_parse_term_list).set_name",
       "pp.Group(first_term + pp.ZeroOrMore(signed_term)).set_name")]),
    ("M13", "semantic", "floating_point_number: Combine removed (whitespace accepted inside a number)",
     [("    pp.Combine(\n        pp.Or([", "    (\n        pp.Or([")]),
    ("M14", "semantic", "floating_point_number: the exponent part dropped",
     [('\n        + pp.Optional(pp.CaselessLiteral("E") + pp.Optional(pp.oneOf("+ -")) + pp.Word(pp.nums))', "")]),
    ("M15", "semantic", "floating_point_number: the exponent letter is case sensitive (pp.Literal(\"E\"))",
     [('pp.CaselessLiteral("E")', 'pp.Literal("E")')]),
    ("M16", "semantic", "floating_point_number: the sign of the exponent made mandatory",
     [('pp.CaselessLiteral("E") + pp.Optional(pp.oneOf("+ -"))', 'pp.CaselessLiteral("E") + pp.oneOf("+ -")')]),
    ("M17", "semantic", "floating_point_number: the `.5` form of the mantissa requires no digits (\".\" alone)",
     [('"." + pp.Word(pp.nums)])', '"." + pp.Optional(pp.Word(pp.nums))])')]),
    ("M18", "semantic", "variable: names may start with a digit (pp.Word(pp.alphanums, ...))",
     [('pp.Word(pp.alphas, pp.alphanums + "_")', 'pp.Word(pp.alphanums, pp.alphanums + "_")')]),
    ("M19", "semantic", "paren_terms: the parentheses made optional",
     [('pp.Group("(" + terms + ")")', 'pp.Group(pp.Optional("(") + terms + pp.Optional(")"))')]),
    ("M20", "semantic", "abs_term: the bars accept an empty body",
     [('+ "|" + terms + "|")', '+ "|" + pp.Optional(terms) + "|")')]),
    ("M21", "semantic", "abs_term: the closing bar replaced by `)`",
     [('+ "|" + terms + "|")', '+ "|" + terms + ")")')]),
    ("M22", "semantic", "arithmetic_expr: the two precedence levels of infixNotation swapped",
     [("        (mult | div, 2, pp.opAssoc.LEFT, _parse_arithmetic_chain),\n        (plus | minus, 2, pp.opAssoc.LEFT, _parse_arithmetic_chain),\n",
       "        (plus | minus, 2, pp.opAssoc.LEFT, _parse_arithmetic_chain),\n        (mult | div, 2, pp.opAssoc.LEFT, _parse_arithmetic_chain),\n")]),
    ("M23", "semantic", "arithmetic_expr: the multiplicative level made right-associative",
     [("(mult | div, 2, pp.opAssoc.LEFT,", "(mult | div, 2, pp.opAssoc.RIGHT,")]),
    ("M24", "semantic", "arithmetic_expr: `/` moved to the additive level",
     [("(mult | div, 2,", "(mult, 2,"), ("(plus | minus, 2,", "(plus | minus | div, 2,")]),
    ("M25", "semantic", "only_number: `^` replaced by `|` (paren_arith_expr outside an Or: its actions run at another time)",
     [("only_number = floating_point_number ^ paren_arith_expr", "only_number = floating_point_number | paren_arith_expr")]),
    ("M26", "semantic", "symbol also accepts `*`",
     [('symbol = pp.oneOf("+ -")', 'symbol = pp.oneOf("+ - *")')]),
    ("M27", "semantic", "an extra rule that `expression` does not use",
     [("# Produces an PolyhedralSyntaxAbsoluteTerm\nabs_term = (", "spare_term = pp.Group(symbol + variable)\n\n# Produces an PolyhedralSyntaxAbsoluteTerm\nabs_term = (")]),
    ("M28", "semantic", "abs_term: the coefficient made mandatory",
     [("pp.Group(pp.Optional(" + NUM + ' + pp.Optional("*")) + "|" + terms', "pp.Group((" + NUM + ' + pp.Optional("*")) + "|" + terms')]),
    ("M29", "semantic", "expression: leq_expression tried before equality_expression",
     [("pp.Group(equality_expression | leq_expression | geq_expression)", "pp.Group(leq_expression | equality_expression | geq_expression)")]),
    ("M30", "semantic", "first_paren_abs_or_terms: the sign in front of a parenthesised group made mandatory",
     [('pp.Group(pp.Optional(symbol, default="+") + paren_abs_or_terms | first_abs_or_term)',
       "pp.Group(symbol + paren_abs_or_terms | first_abs_or_term)")]),
    ("M31", "semantic", "addl_abs_or_term: signed_abs_term dropped (no absolute value after the first term)",
     [("pp.Group(signed_abs_term | signed_term)", "pp.Group(signed_term)")]),
    ("M32", "semantic", "paren_abs_or_terms: the parenthesised body is `terms` (no absolute value inside parentheses)",
     [('+ "(" + abs_or_terms + ")")', '+ "(" + terms + ")")')]),
    ("M33", "semantic", "only_variable no longer accepts parenthesised terms (`only_variable |= paren_terms` removed)",
     [("only_variable |= paren_terms\n", "")]),
    ("M34", "semantic", "equality_expression: the sides are multi_paren_abs_or_terms",
     [("pp.Group(terms + equality_operator + terms)", "pp.Group(multi_paren_abs_or_terms + equality_operator + multi_paren_abs_or_terms)")]),
    ("H01", "harmless", "the rule `signed_term` renamed to `sterm_rule`, `terms` to `term_sum` (consistently)", None),
    ("H02", "harmless", "every set_name string changed", None),
    ("H03", "harmless", "an intermediate variable `coefficient = " + NUM + " + pp.Optional(\"*\")` introduced and used in abs_term and paren_abs_or_terms", None),
    ("H04", "harmless", "comments, a bare string statement and `# noqa` markers added", None),
    ("H05", "harmless", "`a | b | c` written pp.MatchFirst([a, b, c]) in expression; pp.Literal(\"==\") written \"==\"; set_parse_action written setParseAction",
     [("pp.Group(equality_expression | leq_expression | geq_expression)", "pp.Group(pp.MatchFirst([equality_expression, leq_expression, geq_expression]))"),
      ('pp.Or([pp.Literal("=="), pp.Literal("=")])', 'pp.Or(["==", pp.Literal("=")])'),
      ("pp.Group(symbol + term).set_parse_action(_parse_signed_term)", "pp.Group(symbol + term).setParseAction(_parse_signed_term)")]),
    ("H06", "harmless", "only_number built in one step: `only_number = (" + NUM[1:-1] + ") | paren_terms`",
     [("only_number = floating_point_number ^ paren_arith_expr\n", "only_number = (floating_point_number ^ paren_arith_expr) | paren_terms\n"),
      ("only_number |= paren_terms\n", "")]),
]


def apply_edit(text, ident, pairs):
    a = text.index("# Grammar rules")
    head, seg = text[:a], text[a:]
    if ident == "H01":
        seg2 = re.sub(r"(?<![\w\"])signed_term(?![\w\"])", "sterm_rule", seg)
        seg2 = re.sub(r"(?<![\w\"])terms(?![\w\"])", "term_sum", seg2)
        assert seg2 != seg and "sterm_rule = pp.Group(symbol + term)" in seg2 and "term_sum = pp.Group(" in seg2
        return head + seg2
    if ident == "H02":
        seg2 = re.sub(r'set_name\("(\w+)"\)', lambda m: f'set_name("the rule {m.group(1)} (renamed)")', seg)
        assert seg2.count("(renamed)") >= 20
        return head + seg2
    if ident == "H03":
        seg2 = seg.replace("variable = pp.Word(", "coefficient = " + NUM + ' + pp.Optional("*")\n\nvariable = pp.Word(', 1)
        old = "pp.Optional(" + NUM + ' + pp.Optional("*"))'
        assert seg2.count(old) == 2
        return head + seg2.replace(old, "pp.Optional(coefficient)")
    if ident == "H04":
        seg2 = seg.replace("# Produces a PolyhedralSyntaxTermList\nterm = ", '# the central rule\n"""term: a variable, a scaled variable or a number"""\n# (see model/Grammar.v)\nterm = ', 1)
        seg2 = seg2.replace('symbol = pp.oneOf("+ -").set_name("symbol")', 'symbol = pp.oneOf("+ -").set_name("symbol")  # noqa: WPS000 sign token', 1)
        assert seg2.count("noqa: WPS000") == 1 and "the central rule" in seg2
        return head + seg2
    for old, new in pairs:
        assert text.count(old) == 1, (ident, old, text.count(old))
        text = text.replace(old, new, 1)
    return text


PREAMBLE = """# T1 for the STRUCTURE of the pyparsing grammar behind C09 (the module-level expressions of grammar.py)

Generated by `harness/gramgen_mutations.py`
(rerun: `/venv/bin/python harness/gramgen_mutations.py <verif> /repo <scratch> docs/GRAMGEN_REPORT.md`).

## 1. What is translated

`translator/py2coq_grammar.py` (a new generator module; `py2coq.main` has one import line and one
`guard("GrammarGen.v", ...)` line for it; no other translator file is edited) reads, with Python's `ast` only (neither
pyparsing nor pacti is imported), the module-level statements of `src/pacti/terms/polyhedra/syntax/grammar.py` that
build pyparsing expressions and REPLAYS them on symbolic objects with identity: `x.set_parse_action(f)` mutates `x` and
returns it (so `only_variable = variable.set_parse_action(...)` puts the action on every use of `variable`), `x |= e`
appends in place when `x` is a MatchFirst and builds `MatchFirst([x, e])` otherwise (the three `|=` of the source),
`fwd <<= e` fills the Forward, a plain string operand is promoted to a Literal, `a, b, c, d = map(pp.Literal, "+-*/")`
binds four Literals, `cast(T, x)` / `.set_name(..)` return `x`.  The object graph below `expression` is then rendered
into `coq/gen/GrammarGen.v`: one Gallina parser per grammar rule (a rule = an object carrying a parse action, plus the
`infixNotation`; objects without an action — `symbol`'s uses, `only_number`, `equality_operator`, the operator
literals, any intermediate variable — are rendered in place), over the SAME combinator library as `model/Grammar.v`
(`bind`, `alt`, `opt`, `many`, `many1`, `lit`, `lit_raw`, `variable`, `digits1`, result type `res` with `RDiv`/`ROut`)
plus the new hand-written vocabulary file `coq/base/PyParsing.v`.  The parse ACTIONS (what they compute) stay with
`py2coq_syntax.py` -> `gen/SyntaxGen.v`; here an action is rendered as the tree constructor of `model/Ast.v` for the
rule it is attached to: WHICH action runs WHERE.  The cross-check `harness/gramgen_structure_check.py` imports the real
grammar and compares the real pyparsing object graph (classes, spellings, action names, Optional defaults) with the
symbolic one: identical.

### Mapping table (anything else: `TRANSLATOR-UNSUPPORTED[GrammarGen.v]`, the output file is poisoned)

| pyparsing | Gallina | remark |
|---|---|---|
| `"t"`, `pp.Literal("t")` | `skip lit "t"` | a token of the rule (counts for the positions the action indexes); trees hold no literal |
| `pp.Suppress("t")` | `skip lit "t"` | NOT a token of the rule: the token signature of the rule changes |
| `a + b + c` | `x1 <- a ;; x2 <- b ;; x3 <- c ;; ret (constructor)` | nested anonymous Ands flattened; `x <- p ;; ret x` written `p` |
| `a \\| b \\| c`, `pp.MatchFirst([..])`, `x \\|= e` | `alt a (alt b c)` | source order; nested anonymous MatchFirsts flattened |
| `a ^ b`, `pp.Or([a, b])` | `por a b` | longest match, ties to the first; `or_actions (por a b)` when an alternative is `paren_arith_expr` |
| `pp.Optional(a)` | `opt a` | `default="+"` only on a sign (the constructor then uses `sign_or_plus`) |
| `pp.ZeroOrMore(a)` / `pp.OneOrMore(a)` | `many a` / `many1 a` | |
| `pp.Group(a)` | `a` | must agree with the token shape the action expects (`tokens[0]` is the group, or flat tokens) |
| `pp.Word(pp.alphas, pp.alphanums + "_")` | `variable` | any other character sets: rejected |
| `pp.oneOf("+ -")` | `symbol := one_of [("+", Plus); ("-", Minus)]` | spellings outside the table or a spelling that is a prefix of a later one: rejected |
| `pp.Combine(a)` | `combine (a in raw mode)` | raw mode: `pp.Word(pp.nums)` -> `digits1`, `"t"` -> `lit_text_raw "t"`, `pp.CaselessLiteral("E")` -> `caseless_literal_raw "E"`, `pp.oneOf` -> `one_of_raw`, `+` -> `cat`, `pp.Optional` -> `opt_text`, `^` -> `por`; no whitespace skipping inside |
| `pp.Forward()` ... `f <<= a` | `Fixpoint term n := match n with O => pout \\| S n' => term_step n (term n') end` | the cycle term -> paren_terms -> terms -> term is cut at `term` (table `FORWARD_CUT`), as `p_term` in the model; the other members of the cycle are `X_of n term_rec`, instantiated as `X n := X_of n (term n)`; any other cycle, a second Forward, an unfilled Forward: rejected |
| `pp.infixNotation(base, [(op, 2, pp.opAssoc.LEFT, action), ..])` | `infix_notation base [(operators, fold_left_assoc); ..] n` | operand = `base \\| "(" whole ")"`; one left-associative chain per level, tightest first; operators `* / + -` -> `OMul ODiv OAdd OSub`; other arity / associativity / action / lpar-rpar arguments: rejected |
| `x.set_parse_action(f)` / `setParseAction` | constructor `ACTIONS[f]` | below; a second action on one object, an action on a Literal / Forward, an unknown action: rejected |
| `x.set_name(..)`, `cast(T, x)`, comments, docstrings, `# noqa` | ignored | |

### Action table (`ACTIONS`; per action: the rules it may sit on, Group or flat, the token signature, tree type, constructor)

| action | rule | tokens | tree |
|---|---|---|---|
| `lambda t: float(t[0])` | floating_point_number | text | `CNum (literal_value text)` |
| `lambda t: t[0][0]` | paren_arith_expr (Group) | cexpr | itself |
| `_parse_arithmetic_chain` | the levels of arithmetic_expr | chain | `fold_left_assoc` |
| `_parse_only_variable` | only_variable (= every use of `variable`) | var | `TVar v` |
| `_parse_number_and_variable` | number_and_variable | cexpr, `*`?, lterm | `num_times_var k t` (= `TNumVar k v` on `TVar v`) |
| `_parse_factor_paren_terms` | factor_paren_terms (Group) | cexpr, `*`?, lterms | `TNumParen k ts` |
| `_parse_term` | term (Group) | lterm | itself; a number becomes `TNum k`, parenthesised terms `TParen ts` (coercions) |
| `_parse_first_term` / `_parse_signed_term` | first_term / signed_term (Group) | sign?+ / sign, lterm | `(sign_or_plus sg, t)` / `(sg, t)` |
| `_parse_term_list` | terms (Group) | sterm, list sterm | `Terms (fst a) (snd a) l` |
| `_parse_paren_terms` | paren_terms (Group; contents of the Forward) | lit, lterms, lit | `ts` |
| `_parse_absolute_term` | abs_term (Group) | cexpr?, lit, lterms, lit | `(k, ts)` |
| `_parse_signed_abs_term` / `_parse_first_abs_term` | signed_abs_term / first_abs_term (Group) | sign / sign?+, absterm | `AAbs sg k ts` |
| `_parse_abs_or_term` (x2) | first_abs_or_term, addl_abs_or_term (Group) | aterm | itself; a first_term / signed_term becomes `ATerm sg t` |
| `_parse_abs_or_terms` | abs_or_terms (Group) | aterm, list aterm | `a :: l` |
| `_parse_paren_abs_or_terms` | paren_abs_or_terms (Group) | cexpr?, lit, list aterm, lit | `(k, l)` |
| `_parse_first_or_addl_paren_abs_or_terms` (x2) | first_/addl_paren_abs_or_terms (Group) | pitem | `PGroup sg k l` for `[sign] paren_abs_or_terms`, `PPlain a` otherwise |
| `_parse_multi_paren_abs_or_terms` | multi_paren_abs_or_terms (Group) | pitem, list pitem | `p :: l` |
| `_parse_equality_expression` | equality_expression (Group) | lterms, lit, lterms | `EEq l r` |
| `_parse_leq_expression` / `_parse_geq_expression` | leq_ / geq_expression (Group) | side, list side | `ELeq (s :: l)` / `EGeq (s :: l)` |
| `_parse_expression` | expression (Group) | expr | itself |

The literal spellings (`"("`, `"|"`, `"*"`, `"=="`, `"="`, `"<="`, `">="`, `"."`, `"E"`), the order of alternatives, what
is optional / repeated / suppressed, and where the Combine sits all come from the source; the table only says which
constructor belongs to which action and what token shape that action indexes.

Fail closed on: any pyparsing construct, call pattern, keyword argument, operator or module-level statement outside the
tables; a missing action (`missing grammar rule`), an action on more or fewer rules than listed, an action the table
does not know; a token signature that differs from the one the action expects (a literal made optional or suppressed,
an Optional removed or added, a rule of another tree type); a grammar object bound at module level that `expression`
does not use (`unexpected extra grammar rule`); `paren_arith_expr` used outside an Or; a plain re-assignment of a
grammar name.  Output is deterministic and independent of the Python NAMES of the rules (generated names come from the
action table), of `set_name` strings, comments and intermediate variables.
"""

PREAMBLE2 = """
## 2. Equality theorems (all closed under the global context; no functional extensionality)

`peq p q := forall s, p s = q s` (proofs/GrammarGenBase.v, with the congruence rules of every combinator, the monad
laws and two lemmas that turn pyparsing's Or into an ordered choice: `por_alt_disjoint`, `por_alt_longer`).
`fla := fold_left_assoc`.  Every statement holds for EVERY fuel `n` and every input string; NO precondition.

| file | theorem | statement |
|---|---|---|
| GrammarGenTokens.v | `symbol_eq` | `GrammarGen.symbol = Grammar.symbol` (reflexivity) |
| | `floating_point_number_eq` | `peq GrammarGen.floating_point_number fpn_c` (through `mantissa_eq`, `exponent_eq`, `caseless_E`, `fpn_raw_eq`) |
| | `arithmetic_expr_eq` | `forall n, peq (GrammarGen.arithmetic_expr n) (p_arith fla n)` — `infix_notation` with the levels and operators of the source is the model's precedence climbing |
| | `number_eq` | `peq (or_actions (por floating_point_number (paren_arith_expr n))) (number fla n)` |
| | `coef_eq` | the same followed by `Optional("*")` is `coef fla n` |
| | `eq_op_eq` | `peq (por (lit "==") (lit "=")) eq_op` |
| GrammarGenTerms.v | `terms_of_eq`, `paren_terms_of_eq` | `peq pt pt' -> peq (GrammarGen.terms_of n pt) (Grammar.terms_of pt')`, same for `paren_terms_of` / `paren_of` |
| | `number_and_variable_eq`, `factor_paren_terms_of_eq` | the two alternatives of number_and_variable are the model's `k <- coef ;; v <- variable ;; ret (TNumVar k v)` and `k <- coef ;; ts <- paren_of pt ;; ret (TNumParen k ts)` |
| | `term_eq` | `forall n, peq (GrammarGen.term n) (p_term fla n)` — the six alternatives in source order, recursion through the Forward |
| | `terms_eq`, `paren_terms_eq`, `first_term_eq`, `signed_term_eq` | `peq (GrammarGen.terms n) (Grammar.terms fla n)`, ..., `peq (x <- GrammarGen.first_term n ;; ret (ATerm (fst x) (snd x))) (Grammar.first_term fla n)` |
| GrammarGenExpr.v | `abs_term_eq`, `first_abs_term_eq`, `signed_abs_term_eq`, `first_abs_or_term_eq`, `addl_abs_or_term_eq`, `abs_or_terms_eq`, `paren_abs_or_terms_eq`, `first_paren_abs_or_terms_eq`, `addl_paren_abs_or_terms_eq`, `multi_paren_abs_or_terms_eq`, `equality_expression_eq`, `leq_expression_eq`, `geq_expression_eq`, `expression_eq` | `peq (GrammarGen.R n) (Grammar.R fla n)` for each rule R (`multi_paren_abs_or_terms` against `Grammar.multi`); one theorem per rule, each using only the STATEMENTS of the earlier ones |
| GrammarGenFacts.v | `parse_expr_fuel_gen_eq` | `forall n s, GrammarGen.parse_expr_fuel n s = Grammar.parse_expr_fuel n s` |
| | **`parse_expr_gen_eq`** | `forall s, GrammarGen.parse_expr s = Grammar.parse_expr s` |
| | `parse_expr_gen_total`, `grammar_rules_gen_eq` | the generated parser never runs out of fuel; all rule equalities as one conjunction |

Rules covered: every rule of the grammar — floating_point_number, plus / minus / mult / div, arithmetic_expr,
paren_arith_expr, variable, symbol, paren_terms (Forward and contents), only_variable, number_and_variable (both
alternatives), only_number, term, first_term, signed_term, terms, abs_term, signed_abs_term, first_abs_term,
first_abs_or_term, addl_abs_or_term, abs_or_terms, paren_abs_or_terms, first_paren_abs_or_terms,
addl_paren_abs_or_terms, multi_paren_abs_or_terms, equality_operator, equality_expression, leq_expression,
geq_expression, expression, and `parse_string(s, parse_all=True)`.
Compile times: every new file about 1 s (base/PyParsing.v, gen/GrammarGen.v, the five proof files).

**Where `model/Grammar.v` is not literally the source, and the lemma that bridges it** (none changes the language or
the tree):
* every `^` (Or, longest match) of the source is an ordered choice `alt` in the model: the two mantissa forms
  (`mantissa_eq`: a digit against `"."`), `floating_point_number ^ paren_arith_expr` (`number_eq`, by
  `fpn_c_not_paren`: a number never starts with `"("`), `"==" ^ "="` (`eq_op_eq`: the first alternative is the longer);
* the model evaluates a parenthesised constant (`div_check`, ZeroDivisionError) at the end of `paren_arith`; the source
  does it when the Or re-parses its winning alternative with parse actions on (`or_actions`) — the translator accepts
  `paren_arith_expr` only as an alternative of an Or, where the two coincide (`number_eq`);
* the model inlines first_term / signed_term into `terms_of` and writes the coefficient `(number) [*]` as the rule
  `coef` (re-association of binds: `peq_bind_assoc`); leq_expression / geq_expression are one parametrised
  `ineq_expression`; only_variable / number_and_variable / only_number are inlined into `p_term` as six alternatives
  (the last one, `paren_terms` again, is unreachable in both);
* the tree of `variable` under `_parse_only_variable` is `TVar v`, which `_parse_number_and_variable` turns into
  `TNumVar k v` (`num_times_var`, total: `k * (t)` on any other tree).

## 3. What is approximated (each is an `assumption:` line and in the header of gen/GrammarGen.v)

* **The pyparsing ENGINE is not derived.**  Packrat off; whitespace `" \\t\\n\\r"` skipped before every token that is not
  inside a Combine; MatchFirst = ordered choice; Or = longest match, first among equals; Optional / ZeroOrMore /
  OneOrMore greedy, never giving back; an exception that is not a ParseException raised by a parse action aborts the
  parse: all of this IS the combinator library of `model/Grammar.v` + `base/PyParsing.v`, validated against the real
  engine by `harness/grammar_cases.py` (1 600 331 token strings exhaustively once, <= 3 / <= 4 tokens on every run).
* a parse action is rendered as the tree constructor the table gives for it (checked against the token shape);
  WHAT it computes is `gen/SyntaxGen.v` (`g_fold_expr_eq`).
* `or_actions`: Or compares alternatives with actions off and re-parses the winner with actions on, so
  ZeroDivisionError escapes exactly when the whole parenthesised constant matched (checked on the real library:
  `(1/0 x <= 1` ParseException, `(1/0) <=` ZeroDivisionError — as `GrammarGen.parse_expr` computes).
* nested anonymous `|` / `+` flattened (associativity); `x <- p ;; ret x` written `p`; Group only nests tokens;
  `set_name`, `cast`, comments ignored.
* Forward / infixNotation on fuel (one unit per passage through the Forward, per parenthesis nesting);
  `GrammarFacts.parse_expr_total`: fuel > length is never exhausted; pyparsing's `FollowedBy` look-ahead inside
  infixNotation is not rendered (it only avoids re-parsing).
* `oneOf` in source order (checked: no spelling is a prefix of a later one); CaselessLiteral returns its defining
  string; `pp.alphas` / `pp.nums` are the ASCII letters / digits.
* `|=` appends in place on a MatchFirst and builds a new one otherwise; `set_parse_action` mutates (cross-checked on the
  real objects by `harness/gramgen_structure_check.py`).

## 4. Discrepancies between model/Grammar.v and the source

**None.**  Every generated rule is equal to its hand-written counterpart for every fuel and every string, so
`parse_expr_gen_eq` has no precondition and there is no string to report.  Spot check of the generated parser against
the real library (`PYTHONPATH=/repo/src`, `pacti.__file__` under /repo/src, `expression.parse_string(s, parse_all=True)`):
`(1/0 x <= 1`, `(1/0)x <= 1`, `(1/0) <=`, `x <= (1/0`, `2 x = = 3`, `2x == 3`, `2x = 3`, `1 e5 <= 2`, `1E+x <= 2`,
`.5x<=1`, `1.<=x`, `. 5 <= x`, `3 | x | <= 1`, `(2*3/4)(x+y) <= 1` — accept / ParseException / ZeroDivisionError agree
on all 14.  Worth knowing, not a discrepancy: the last alternative of only_number (`paren_terms`) can never fire
(only_variable tried it first), in the model as in the source.

## 5. Sensitivity experiment

Each row below is one edit of `grammar.py` applied to a scratch copy of `/repo/src`; the translator is run into a scratch
copy of `coq/` and `proofs/GrammarGenFacts.vo` is rebuilt with `make -k` (every `coqc` under `timeout 600`).  A *semantic*
edit must be rejected by the translator (fail closed) or break an equality proof; a *harmless* rewrite must still
translate and prove.  The outcome names every theorem whose proof script stops compiling (with `make -k`, files that
depend on a broken file are not attempted) and says whether the generated text differs from the original's.

"""
PREAMBLE3 = ""


def sh(cmd, cwd=None, timeout=3600):
    p = subprocess.run(cmd, cwd=cwd, stdout=subprocess.PIPE, stderr=subprocess.STDOUT, text=True, timeout=timeout)
    return p.returncode, p.stdout


def all_errors(log):
    """[(file, line, message)] for every coqc error of a `make -k` log"""
    out = []
    for m in re.finditer(r'File "\./([^"]+)", line (\d+), characters [^\n]*\n(Error:.*?)(?=\nmake|\nFile "|\nCOQC|\Z)', log, re.S):
        msg = " ".join(m.group(3).split())
        k = re.search(r"Unable to unify|Impossible to unify|The term|Found no subterm|Tactic failure|No such|Cannot|Not an inductive|"
                      r"Wrong|Illegal|The reference|Unable to find|No matching|Attempt to save", msg)
        out.append((m.group(1), int(m.group(2)), ("Error: " + msg[k.start():] if k else msg)[:170]))
    return out


def enclosing(vfile, line):
    name = "?"
    for i, l in enumerate(open(vfile), 1):
        m = re.match(r"\s*(?:Theorem|Lemma|Corollary|Example|Definition|Fixpoint|Goal)\s+([\w']+)", l)
        if m:
            name = m.group(1)
        if i >= line:
            break
    return name


def main(verif, repo, scratch, report=None, keep=False, only=None):
    if os.path.exists(scratch):
        shutil.rmtree(scratch)
    os.makedirs(scratch)
    coq = os.path.join(scratch, "coq")
    shutil.copytree(os.path.join(verif, "coq"), coq, ignore=shutil.ignore_patterns("cases"), copy_function=shutil.copy2)
    orig = open(os.path.join(repo, GRM)).read()
    rows = []
    baseline = {}

    def run(ident, kind, desc, pairs):
        tree = os.path.join(scratch, "repo")
        if os.path.exists(tree):
            shutil.rmtree(tree)
        shutil.copytree(os.path.join(repo, "src"), os.path.join(tree, "src"))
        if ident != "ORIG":
            text = apply_edit(orig, ident, pairs)
            assert text != orig, ident
            with open(os.path.join(tree, GRM), "w") as fh:
                fh.write(text)
            rc, out = sh([PY, "-c", f"import ast; ast.parse(open({os.path.join(tree, GRM)!r}).read())"])
            assert rc == 0, out

        def gen_text():
            return open(os.path.join(coq, "gen", GEN)).read()
        rc, out = sh([PY, os.path.join(verif, "translator", "py2coq.py"), tree, os.path.join(coq, "gen")])
        msg = [l for l in out.splitlines() if l.startswith(f"TRANSLATOR-UNSUPPORTED[{GEN}]")]
        if rc != 0 and not msg:
            res, passed = ("translator CRASHED", out.strip()[-300:]), False
        elif msg:
            # fail closed: gen/GrammarGen.v is replaced by a stub that does not compile
            rc2, log = sh(["make", "-k", "-j8", "COQC=timeout 600 coqc"] + TARGETS, cwd=coq)
            assert rc2 != 0, "the poisoned gen/GrammarGen.v compiled"
            res, passed = ("translator rejects (gen/GrammarGen.v poisoned, nothing depending on it compiles)",
                           msg[0][len(f"TRANSLATOR-UNSUPPORTED[{GEN}]: "):][:300]), False
        else:
            if ident == "ORIG":
                baseline.setdefault("t", gen_text())
            changed = gen_text() != baseline["t"]
            rc2, log = sh(["make", "-k", "-j8", "COQC=timeout 600 coqc"] + TARGETS, cwd=coq)
            if rc2 == 0:
                res, passed = ("translates; all equality proofs COMPILE", ""), True
            else:
                errs = all_errors(log)
                if errs:
                    names = [f"`{enclosing(os.path.join(coq, f), line)}` ({f}:{line})" for f, line, _ in errs]
                    res = ("translates; proof FAILS: " + ", ".join(names), errs[0][2])
                else:
                    res = ("translates; build FAILS", log.strip()[-200:])
                passed = False
            res = (res[0] + (" [generated text differs from the original's]" if changed else
                             " [generated text IDENTICAL to the original's]"), res[1])
        ok = (passed == (kind in ("harmless", "original")))
        rows.append((ident, kind, desc, res[0], res[1], ok))
        print(f"{ident} [{kind}] {desc}\n    -> {res[0]} {res[1]}\n    {'as expected' if ok else 'UNEXPECTED'}", flush=True)

    run("ORIG", "original", "unmodified /repo/src", None)
    for ident, kind, desc, pairs in EDITS:
        if only and ident not in only:
            continue
        run(ident, kind, desc, pairs)
    run("ORIG", "original", "unmodified /repo/src again (after all edits)", None)
    bad = [r for r in rows if not r[5]]
    if report:
        with open(report, "w") as fh:
            fh.write(PREAMBLE + PREAMBLE2 + PREAMBLE3)
            sem = [r for r in rows if r[1] == "semantic"]
            fh.write(f"Summary: {len(sem)} semantic edits — {sum('proof FAILS' in r[3] for r in sem)} break an equality "
                     f"proof, {sum('translator rejects' in r[3] for r in sem)} are rejected by the translator, "
                     f"{sum('COMPILE' in r[3] for r in sem)} pass unnoticed; "
                     f"{sum(r[1] == 'harmless' for r in rows)} harmless rewrites — "
                     f"{sum(r[1] == 'harmless' and 'COMPILE' in r[3] for r in rows)} still translate and prove.  "
                     f"Unexpected outcomes: {len(bad)}.\n\n")
            fh.write("| id | kind | edit of grammar.py | outcome | first error / translator message |\n|---|---|---|---|---|\n")
            for ident, kind, desc, res, err, ok in rows:
                fh.write(f"| {ident} | {kind} | {desc.replace('|', '&#124;')} | {res} | {err.replace('|', '&#124;')} |\n")
    tree = os.path.join(scratch, "repo")
    if os.path.exists(tree):
        shutil.rmtree(tree)          # the scratch SOURCE tree is always removed
    if not keep:
        shutil.rmtree(scratch)
    print("unexpected outcomes:", len(bad))
    return 1 if bad else 0


if __name__ == "__main__":
    argv = sys.argv[1:]
    only = None
    if "--only" in argv:
        i = argv.index("--only")
        only = set(argv[i + 1].split(","))
        del argv[i:i + 2]
    args = [a for a in argv if a != "--keep"]
    sys.exit(main(*args, keep="--keep" in argv, only=only))
