#!/usr/bin/env python3
"""Sensitivity experiment for the translation of the string printer of pacti (translator/py2coq_printer.py ->
gen/PrinterGen.v) and of the equality proofs proofs/PrinterGen{Base,Opposite,Lhs,Fold}.v.

For each small edit of the Python source (applied to a scratch copy of the source tree, one at a time) the
translator is run into a scratch copy of the Coq tree and proofs/PrinterGenFacts.vo is rebuilt (`make -k`, every coqc
under `timeout`).  Semantic edits must be rejected by the translator (fail closed: TRANSLATOR-UNSUPPORTED, the output
file is poisoned) or break a proof; harmless rewrites must pass.  Nothing outside the scratch directory is written
(except the report); the scratch source tree is always removed, the scratch directory unless --keep.

usage: printgen_mutations.py <verif dir> <repo dir> <scratch dir> [report.md] [--keep]
"""
import os
import re
import shutil
import subprocess
import sys

PY = "/venv/bin/python"
SER = "src/pacti/terms/polyhedra/serializer.py"
POL = "src/pacti/terms/polyhedra/polyhedra.py"
TARGETS = ["proofs/PrinterGenFacts.vo"]
GEN = "PrinterGen.v"

ISCLOSE = ("    return bool(\n        np.isclose(\n            f1, f2, rtol=float_closeness_relative_tolerance, "
           "atol=float_closeness_absolute_tolerance, equal_nan=True\n        )\n    )\n")
RULE3 = ("                if condition:\n"
         "                    # inverse of rule 3\n"
         "                    # rewrite as 2 terms given input match: | LHS | = 0\n"
         "                    # pos: LHS <= 0\n"
         "                    # neg: -(LHS) <= 0\n"
         "                    s = \"|\" + _lhs_str(tp) + \"| = 0\"\n"
         "                    ts.remove(tn)\n"
         "                    return s, ts\n"
         "                elif _are_numbers_approximatively_equal(tp.constant, tn.constant):\n")
POS_BRANCH = ("                if first:\n"
              "                    res += _number_to_string(coeff) + \" \" + var.name\n"
              "                else:\n"
              "                    res += \" + \" + _number_to_string(coeff) + \" \" + var.name\n")
FINAL = "    s = _lhs_str(tp) + \" <= \" + _number_to_string(tp.constant)\n    return s, ts\n"

# (id, kind, file, description, [(old text, new text), ...])   kind: "semantic" | "harmless"
EDITS = [
    ("M01", "semantic", SER, "SEEDED C10: _are_polyhedral_terms_opposite loses its first loop (every variable of `other` "
     "must occur in `self`): a partner over a strict superset of the variables is folded",
     [("    for var in other.variables.keys():\n        if not self.contains_var(var):\n            return False\n\n", "")]),
    ("M02", "semantic", SER, "SEEDED C10b: the fold keeps only the terms AFTER the partner (`for pos, tn in enumerate(ts)`, "
     "`rest = ts[pos + 1 :]`, `return s, rest`) instead of removing the partner", None),
    ("M03", "semantic", SER, "SEEDED C10c: _are_numbers_approximatively_equal calls math.isclose with the two tolerances "
     "crossed (rel_tol=absolute tolerance, abs_tol=relative tolerance; `import math` replaces `import numpy as np`)",
     [("import numpy as np\n", ""), ("\"\"\"Transformations between polyhedral structures and strings.\"\"\"\n",
                                     "\"\"\"Transformations between polyhedral structures and strings.\"\"\"\nimport math\n"),
      (ISCLOSE, "    if math.isnan(f1) or math.isnan(f2):\n        return math.isnan(f1) and math.isnan(f2)\n"
                "    # math.isclose is much cheaper than np.isclose on python scalars\n"
                "    return math.isclose(\n        f1, f2, rel_tol=float_closeness_absolute_tolerance, "
                "abs_tol=float_closeness_relative_tolerance\n    )\n")]),
    ("M04", "semantic", SER, "the `=` and `|...| <=` cases swapped (rule 4 prints `|LHS| <= c`, rule 2 prints `LHS = c`)",
     [("                s = _lhs_str(tp) + \" = \" + _number_to_string(tp.constant)\n",
       "                s = \"|\" + _lhs_str(tp) + \"| <= \" + _number_to_string(tp.constant)\n"),
      ("                    s = \"|\" + _lhs_str(tp) + \"| <= \" + _number_to_string(tp.constant)\n",
       "                    s = _lhs_str(tp) + \" = \" + _number_to_string(tp.constant)\n")]),
    ("M05", "semantic", SER, "the `|LHS| = 0` rule dropped (two near-zero constants fall through to the `|LHS| <= c` test)",
     [(RULE3, "                if _are_numbers_approximatively_equal(tp.constant, tn.constant):\n")]),
    ("M06", "semantic", SER, "`|LHS| <= c` prints the constant of the SECOND term (tn.constant)",
     [("                    s = \"|\" + _lhs_str(tp) + \"| <= \" + _number_to_string(tp.constant)\n",
       "                    s = \"|\" + _lhs_str(tp) + \"| <= \" + _number_to_string(tn.constant)\n")]),
    ("M07", "semantic", SER, "coefficient -1 printed as `-1 x` when it comes first",
     [("                res += \"-\" + var.name\n", "                res += \"-1 \" + var.name\n")]),
    ("M08", "semantic", SER, "a leading `+` kept: a positive first coefficient is printed with the ` + ` separator",
     [(POS_BRANCH, "                res += \" + \" + _number_to_string(coeff) + \" \" + var.name\n")]),
    ("M09", "semantic", SER, "the partner is searched only among the ADJACENT term (`for tn in ts[:1]`)",
     [("    for tn in ts:\n", "    for tn in ts[:1]:\n")]),
    ("M10", "semantic", SER, "the opposite test compares the CONSTANTS instead of the coefficients",
     [("        if not _are_numbers_approximatively_equal(-value, other.variables[var]):\n",
       "        if not _are_numbers_approximatively_equal(-self.constant, other.constant):\n")]),
    ("M11", "semantic", SER, "np.isclose called with the tolerance arguments swapped (rtol=absolute, atol=relative)",
     [("rtol=float_closeness_relative_tolerance, atol=float_closeness_absolute_tolerance",
       "rtol=float_closeness_absolute_tolerance, atol=float_closeness_relative_tolerance")]),
    ("M12", "semantic", SER, "variables printed in dict insertion order (the `varlist.sort(...)` line dropped)",
     [("    varlist.sort(key=lambda x: str(x[0]))\n", "")]),
    ("M13", "semantic", SER, "the rest of the list is handed back reversed when no partner is found (`ts.reverse()`)",
     [(FINAL, FINAL.replace("    return s, ts\n", "    ts.reverse()\n    return s, ts\n"))]),
    ("M14", "semantic", SER, "`first = False` dropped: every printed variable is treated as the first one (no separators)",
     [("        first = False\n", "")]),
    ("M15", "semantic", SER, "np.isclose(f2, f1, ...): the two numbers swapped (the test is asymmetric: rtol scales |b|)",
     [("            f1, f2, rtol=", "            f2, f1, rtol=")]),
    ("M16", "semantic", SER, "rule 4 tests tp.constant against tn.constant instead of -tn.constant",
     [("            if _are_numbers_approximatively_equal(tp.constant, -tn.constant):\n",
       "            if _are_numbers_approximatively_equal(tp.constant, tn.constant):\n")]),
    ("M17", "semantic", SER, "the opposite test compares value (not -value) with the partner's coefficient",
     [("_are_numbers_approximatively_equal(-value, other.variables[var])",
       "_are_numbers_approximatively_equal(value, other.variables[var])")]),
    ("M18", "semantic", SER, "the coefficient-0 test dropped: a coefficient close to 0 is printed (`elif not ...(coeff, float(0))` "
     "becomes `else`)",
     [("        elif not _are_numbers_approximatively_equal(coeff, float(0)):\n", "        else:\n")]),
    ("M19", "semantic", POL, "to_str_list drops one more term per round (`ts = rest[1:]`)",
     [("            ts = rest\n        return str_list\n", "            ts = rest[1:]\n        return str_list\n")]),
    ("M20", "semantic", POL, "to_str_list collects the strings in reverse order (`str_list = [s] + str_list`)",
     [("            str_list.append(s)\n            ts = rest\n", "            str_list = [s] + str_list\n            ts = rest\n")]),
    ("M21", "semantic", SER, "_are_polyhedral_terms_opposite called with its arguments swapped (the closeness test is asymmetric)",
     [("        if _are_polyhedral_terms_opposite(tp, tn):\n", "        if _are_polyhedral_terms_opposite(tn, tp):\n")]),
    ("M22", "semantic", SER, "numbers printed with 3 significant digits (`.3g`: a format the primitive does not cover)",
     [("        return f\"{n:.4g}\"\n", "        return f\"{n:.3g}\"\n")]),
    ("M23", "semantic", SER, "_lhs_str removed (a listed function is missing)",
     [("def _lhs_str(term: PolyhedralTerm)", "def _lhs_string(term: PolyhedralTerm)")]),
    ("M24", "semantic", SER, "ts.remove(tn) wrapped in try/except ValueError (outside the subset)",
     [("                s = _lhs_str(tp) + \" = \" + _number_to_string(tp.constant)\n                ts.remove(tn)\n",
       "                s = _lhs_str(tp) + \" = \" + _number_to_string(tp.constant)\n                try:\n"
       "                    ts.remove(tn)\n                except ValueError:\n                    pass\n")]),
    ("M25", "semantic", POL, "to_str_list stops when one term is left (`while len(ts) > 1:`: no fuel measure is known)",
     [("        while ts:\n            s, rest = serializer.polyhedral_term_list_to_strings(ts)\n",
       "        while len(ts) > 1:\n            s, rest = serializer.polyhedral_term_list_to_strings(ts)\n")]),
    ("M26", "semantic", SER, "the partner is removed from the list but the loop goes on (`ts.remove(tn)` not followed by return "
     "in rule 3)",
     [("                    s = \"|\" + _lhs_str(tp) + \"| = 0\"\n                    ts.remove(tn)\n                    return s, ts\n",
       "                    s = \"|\" + _lhs_str(tp) + \"| = 0\"\n                    ts.remove(tn)\n")]),
    ("H01", "harmless", SER, "locals renamed (_lhs_str: res -> out, coeff -> coefficient, varlist -> items; "
     "polyhedral_term_list_to_strings: tn -> candidate, s -> text)", None),
    ("H02", "harmless", SER, "`import logging`, logging.debug(...) calls and a docstring added to _lhs_str and "
     "polyhedral_term_list_to_strings",
     [("import numpy as np\n", "import logging\n\nimport numpy as np\n"),
      ("    varlist = list(term.variables.items())\n",
       "    \"\"\"Left-hand side of a term.\"\"\"\n    logging.debug(\"printing %s\", term)\n    varlist = list(term.variables.items())\n"),
      ("    tp = terms[0]\n\n", "    tp = terms[0]\n    logging.debug(\"first term %s\", tp)\n\n")]),
    ("H03", "harmless", SER, "string concatenations of polyhedral_term_list_to_strings written as f-strings",
     [(FINAL, "    s = f\"{_lhs_str(tp)} <= {_number_to_string(tp.constant)}\"\n    return s, ts\n"),
      ("                s = _lhs_str(tp) + \" = \" + _number_to_string(tp.constant)\n",
       "                s = f\"{_lhs_str(tp)} = {_number_to_string(tp.constant)}\"\n")]),
    ("H04", "harmless", SER, "_are_polyhedral_terms_opposite iterates over the dict itself (`for var in other.variables:`); "
     "_lhs_str tests `0 < coeff`",
     [("    for var in other.variables.keys():\n", "    for var in other.variables:\n"),
      ("            if coeff > 0:\n", "            if 0 < coeff:\n")]),
    ("H05", "harmless", POL, "to_str_list copies with list(self.terms) and unpacks through a temporary pair",
     [("        ts = self.terms.copy()\n", "        ts = list(self.terms)\n"),
      ("            s, rest = serializer.polyhedral_term_list_to_strings(ts)\n",
       "            pair = serializer.polyhedral_term_list_to_strings(ts)\n            s, rest = pair\n")]),
    ("H06", "harmless", SER, "the rule-3 condition inlined into the `if` (no local `condition`)",
     [("                condition = _are_numbers_approximatively_equal(\n                    tp.constant, float(0)\n"
       "                ) and _are_numbers_approximatively_equal(tn.constant, float(0))\n                if condition:\n",
       "                if _are_numbers_approximatively_equal(tp.constant, float(0)) and _are_numbers_approximatively_equal(\n"
       "                    tn.constant, float(0)\n                ):\n")]),
]


def sh(cmd, cwd=None, timeout=3600):
    p = subprocess.run(cmd, cwd=cwd, stdout=subprocess.PIPE, stderr=subprocess.STDOUT, text=True, timeout=timeout)
    return p.returncode, p.stdout


def segment(text, start, end):
    a = text.index(start)
    b = text.index(end, a)
    return a, b


def apply_edit(text, ident, pairs):
    if ident == "M02":
        old = "    for tn in ts:\n        if _are_polyhedral_terms_opposite(tp, tn):\n"
        assert text.count(old) == 1
        text = text.replace(old, "    for pos, tn in enumerate(ts):\n        if _are_polyhedral_terms_opposite(tp, tn):\n"
                                 "            # tp and tn are serialized together; what is left are the terms after the pair\n"
                                 "            rest = ts[pos + 1 :]\n")
        text2, n = re.subn(r"( +)ts\.remove\(tn\)\n +return s, ts\n", r"\1return s, rest\n", text)
        assert n == 3, n
        return text2
    if ident == "H01":
        a, b = segment(text, "def _lhs_str(", "# opposite terms means:")
        seg = text[a:b]
        for old, new in ((r"\bres\b", "out"), (r"\bcoeff\b", "coefficient"), (r"\bvarlist\b", "items")):
            seg2 = re.sub(old, new, seg)
            assert seg2 != seg
            seg = seg2
        text = text[:a] + seg + text[b:]
        a, b = segment(text, "def polyhedral_term_list_to_strings(", "def _eql_expression_to_polyhedral_terms(")
        seg = text[a:b]
        for old, new in ((r"\btn\b", "candidate"), (r"\bs\b", "text")):
            seg2 = re.sub(old, new, seg)
            assert seg2 != seg
            seg = seg2
        return text[:a] + seg + text[b:]
    for old, new in pairs:
        assert text.count(old) == 1, (ident, old, text.count(old))
        text = text.replace(old, new, 1)
    return text


def all_errors(log):
    """[(file, line, message)] for every coqc error of a `make -k` log"""
    out = []
    for m in re.finditer(r'File "\./([^"]+)", line (\d+), characters [^\n]*\n(Error:.*?)(?=\nmake|\nFile "|\nCOQC|\Z)', log, re.S):
        msg = " ".join(m.group(3).split())
        k = re.search(r"Unable to unify|Impossible to unify|The term|Found no subterm|Tactic failure|No such|Cannot|Not an inductive|"
                      r"Wrong|Illegal|The reference|Unable to find|No matching|Not the right", msg)
        out.append((m.group(1), int(m.group(2)), ("Error: " + msg[k.start():] if k else msg)[:170]))
    return out


def enclosing(vfile, line):
    name = "?"
    for i, l in enumerate(open(vfile), 1):
        m = re.match(r"\s*(?:Theorem|Lemma|Corollary|Example|Definition|Fixpoint|Goal)\s*([\w']*)", l)
        if m:
            name = m.group(1) or "Goal"
        if i >= line:
            break
    return name


PREAMBLE = r"""# T1 for the string printer of polyhedral term lists

Generated by `harness/printgen_mutations.py`
(rerun: `/venv/bin/python harness/printgen_mutations.py <verif> /repo <scratch> docs/PRINTGEN_REPORT.md`).

## 1. What is translated

`translator/py2coq_printer.py` (a generator module of its own; `py2coq.main` has one import line and one
`guard("PrinterGen.v", ...)` line for it; class `PFn`, entry point `gen_printer`) renders, from the current `/repo/src`
on every run, into `coq/gen/PrinterGen.v`:

| source | function | generated definition | monadic |
|---|---|---|---|
| `src/pacti/terms/polyhedra/serializer.py` | `_number_to_string` | `serializer__number_to_string` | no |
| | `_are_numbers_approximatively_equal` | `serializer__are_numbers_approximatively_equal` | no |
| | `_lhs_str` | `serializer__lhs_str` | no |
| | `_are_polyhedral_terms_opposite` | `serializer__are_polyhedral_terms_opposite` | yes (`other.variables[var]`: KeyError) |
| | `polyhedral_term_list_to_strings` | `serializer_polyhedral_term_list_to_strings` | yes (`terms[0]`: IndexError, `ts.remove(tn)`: ValueError, `__eq__`) |
| `src/pacti/terms/polyhedra/polyhedra.py` | `PolyhedralTermList.to_str_list` | `PolyhedralTermList_to_str_list` | yes (the callee, and the fuel of `while ts:`) |

All six listed functions are covered; a module-level helper of `serializer.py` that one of them calls is translated
on demand (before its first user), any other call is rejected.  The module constants
`float_closeness_relative_tolerance` / `float_closeness_absolute_tolerance` are the definitions of `gen/ConstGen.v`
(checked: assigned once, to a literal); `self.contains_var(...)` and the `==` of `list.remove` are the TRANSLATED
`PolyhedralTerm_contains_var` / `PolyhedralTerm_eq` of `gen/TermGen.v` (their signatures are read from the output of
`gen_term`, so an edit of these methods propagates).  Not covered: `PolyhedralTermList.__str__` (a `join` around
`to_str_list`), `PolyhedralTerm.__str__` (the other printer, used for hashing: `model/Term.v:term_key`).

**Not translated, on purpose** — named primitives, the three fields of the class `PrintPrims` of the new vocabulary
file `coq/base/PyPrint.v`, which the generated section is generic in:

| Python | primitive | instance in the proofs (`proofs/PrinterGenBase.v:model_prims`) |
|---|---|---|
| `f"{x:.4g}"` of a float | `format_4g x` | `Printer.fmt4` (proved to print the 4-digit rounding: `PrinterFacts.fmt4_value`) |
| `bool(np.isclose(a, b, rtol=r, atol=t, equal_nan=...))` | `py_bool (np_isclose a b r t)` (argument order a, b, rtol, atol; omitted tolerances get numpy's defaults as literals) | `isclose_fl a b r t := Qle_bool (Qabs (fl (a - b))) (fl (t + fl (r * Qabs b)))` — the body of `Printer.approx_equal` with the tolerances as arguments: one binary64 rounding `fl` per operation, asymmetric in `b` |
| `math.isclose(a, b, rel_tol=r, abs_tol=t)` (not used by the current source; present so that a source that switches to it still translates and the EQUALITY is what fails) | `math_isclose a b r t` | `math_isclose_fl`: CPython's `diff <= fabs(r*b) || diff <= fabs(r*a) || diff <= t`, same rounding discipline |

Everything around them is translated line by line: which numbers are compared, which tolerance goes to which argument
position, which closeness test is tried in which order, what is printed with which separator and sign, how the list
is consumed.  Strings are Coq `string`s: `a + b` and `s += e` are `append` (`++`), an f-string is the concatenation of
its pieces, `str(v)` of a `Var` and `v.name` are `var_name v`.

New vocabulary (`coq/base/PyPrint.v`, on top of `PyDict.v`, `PyLoop.v`, `PyTermList.v`, `PySyntax.v`): `PrintPrims`,
`py_bool`, `math_isnan` (= `false`), `dict_items`, `dict_values`, `list_truth` (`if l:` / `while l:` / `not l`),
`py_slice_to`, `py_slice_between` (next to `py_slice_from` of PySyntax.v), `py_append`, `py_reverse`,
`list_sort_by_str l key` (`l.sort(key=...)` / `sorted(l, key=...)` with a str key: stable insertion sort in code-point
order) and `while_fuel_m fuel acc cond body`.  Reused: `for_list[_m]` (loops without `return`), `for_ret[_m]` (loops
with `return`: `Next` / `Stop` / `Return`, then a `match` on `Done` / `Returned`), `enumerate`, `list_get_m` (`l[i]`:
IndexError), `dict_get` (`d[k]`: KeyError), `list_remove_m PolyhedralTerm_eq` (`l.remove(x)`: first element `==` x,
ValueError when none), `py_list_copy`, `qneg`, `qgt`, `py_float`.

Subset (class `PFn`): typed expressions (`F` float, `B` bool, `S` str, `N` index, `V` Var, `T` PolyhedralTerm, lists,
pairs, dict {Var: float}; int literals are typed by use; `K` is a condition decided by the static types), assignments,
tuple unpacking, `+=` on str / float / index, `if`/`elif`/`else` with joins on the variables the branches assign,
`for` over lists / dict views / `enumerate(...)` with `break`, `continue` and `return` at any depth, `while` over the
truth value of a local list, in-place `append` / `remove` / `sort(key=lambda)` / `reverse` on lists the function built
itself and has not aliased, conditional expressions, `and`/`or`/`not`/`&`/`|`, comparisons, slices with non-negative
bounds, f-strings.  Whether a function — and each loop or join inside a monadic function — is monadic is INFERRED
from its body, so an edit that adds or removes a raising construct changes the TYPE of the generated function.

The `for tn in ts:` loop of `polyhedral_term_list_to_strings` modifies the list it iterates over (`ts.remove(tn)`).
This is accepted only because `return` follows on every path (checked where the update occurs), so the iteration
never continues over the modified list; the update is then a local rebinding and `ts` is not carried to the next
iteration.  Anything else (mutation M26) is rejected.

Fail closed (`TRANSLATOR-UNSUPPORTED[PrinterGen.v]: ...`; the output file is replaced by a stub that does not
compile, so every obligation that depends on it stops checking) on any construct outside the subset (`try`,
comprehensions, nested functions, `global`, `with`, `assert`, `raise`, lambdas other than a sort key, unknown calls
and methods, negative indices, slices with a step, format specifications other than `.4g`, ...), on a missing or
doubly defined listed function, on decorators / unexpected signatures / annotations, on a changed import of a name
the translation gives a meaning to (`np`, `math`, `sympy`, `logging`, `PolyhedralTerm`, `serializer`), on a
module-level or local rebinding of such a name, of a builtin used or of a tolerance constant, on an int literal
passed where a number is expected (the typed model takes numbers to be floats), on `isinstance` against a class
outside the table, on an in-place update of an object that is not provably local and unaliased, on a plain rebinding
of a list inside a loop that iterates over it, on a `while` without a fuel measure, on a changed `Var` class,
`PolyhedralTerm.__init__` (must store `float(value)` / `float(constant)`) or `PolyhedralTermList.__init__`, and
whenever `gen/TermGen.v` itself is rejected.  Output is deterministic; `logging.*` calls and docstrings are ignored.

## 2. Equality theorems (all closed under the global context)

`model_prims` instantiates the three primitives as in the table above; `wft t := NoDup (keys (tvars t))`
(`proofs/TermFacts.v`).

| file | theorem | statement | precondition |
|---|---|---|---|
| proofs/PrinterGenBase.v | `number_to_string_eq` | `@serializer__number_to_string model_prims n = fmt4 n` | none |
| | `are_numbers_approximatively_equal_eq` | `@serializer__are_numbers_approximatively_equal model_prims v1 v2 = approx_equal v1 v2` | none |
| proofs/PrinterGenOpposite.v | `terms_opposite_eq` | `@serializer__are_polyhedral_terms_opposite model_prims self other = ret (terms_opposite self other)` | none |
| proofs/PrinterGenLhs.v | `lhs_str_eq` | `@serializer__lhs_str model_prims t = lhs_str t` | none |
| proofs/PrinterGenFold.v | `term_list_to_strings_eq` | `@serializer_polyhedral_term_list_to_strings model_prims terms = ret (term_list_to_strings terms)` | `Forall wft terms` |
| | `to_str_list_eq` | `@PolyhedralTermList_to_str_list model_prims ts = ret (to_str_list ts)` | `Forall wft ts` |
| | `classify_eqb` | `term_eqb_p e tn = true -> classify tp e = classify tp tn` (a term that is `==` tn is classified like tn) | none |
| | `remove_needs_distinct_keys` (`Example`) | the generated code raises `ValueError`, the hand model answers `["x = 0"]`, on a "term" with the key `x` twice | |
| proofs/PrinterGenFacts.v | the six obligations restated as `Goal`s with `Print Assumptions`; `gen_to_str_list_items`; eight `Example`s evaluating the GENERATED code (`gen_demo`, `gen_superset_not_folded`, `gen_between_kept`, `gen_small_constants_not_folded`, `gen_abs`, `gen_units`, `gen_abs_zero`, `gen_empty`) | | |

The equalities are pointwise equalities of (monadic) results: the value AND the fact that none of the implicit
exceptions (`KeyError` of `other.variables[var]`, `IndexError` of `terms[0]`, `ValueError` of `ts.remove(tn)`,
anything `__eq__` raises, running out of fuel) occurs.  `proofs/PrinterGenBase.v` also holds the shared "shape" lemmas
(`for_ret_all`, `for_ret_m_all`, `for_ret_m_ext`; `lhs_loop` in PrinterGenLhs.v, `to_str_list_loop` / `scan_loop` in
PrinterGenFold.v): they quantify over the loop body and ask for its behaviour POINTWISE, so the proofs do not depend
on generated names or let-structure (mutation H01 renames the locals, H06 removes one).

**Why the precondition, with an `Example`.**  The code removes the partner with `ts.remove(tn)`, i.e. the first
element that is `== tn` by `PolyhedralTerm.__eq__` (the translated `PolyhedralTerm_eq`; `ValueError` if there is
none), where `model/Printer.v:scan` removes it positionally.  The two agree because (A) a term that is `==` tn is
classified exactly like tn (`classify_eqb`, no precondition), so an earlier element `==` tn would have been selected
itself, and (B) tn `==` tn.  (B) needs pairwise distinct keys: on an association list with a repeated key — which
denotes no Python dict — `__eq__` compares a later binding with the FIRST one and is not reflexive, the generated
code raises `ValueError` and the hand model answers (`remove_needs_distinct_keys`).  No Python input is excluded.
(CPython's `list.remove` tries identity before `==`; a value model has no identity, and without NaN a term equals
itself.)

**The fuel.**  `while ts:` becomes `while_fuel_m (len ts) (str_list, ts) (fun '(_, ts) => list_truth ts) body`
(fuel taken at loop entry; `Escape "fuel"` when it runs out while the condition still holds; printed as an
`assumption:` line).  `to_str_list_eq` equates the result with `ret _`, so the fuel never runs out:
`term_list_to_strings_shorter` shows that every call hands back a strictly shorter list made of terms of its argument.

## 3. Python semantics that are approximated (each is also an `assumption:` line of the translator and a line of the generated header)

* a float is the rational it denotes; NaN, inf, signed zeros are not modelled (`math.isnan` is `false`, `equal_nan`
  is ignored); the arithmetic INSIDE `np.isclose` / `%.4g` is the primitives' business (the instances round once per
  operation), the translated code itself only negates (exact);
* one exact-rational type stands for `int` and `float`: a number that reaches the printer is taken to be a Python
  float (checked: `PolyhedralTerm.__init__` stores `float(value)` / `float(constant)`, literals passed are float
  literals or `float(...)`), so `isinstance(n, float)` is True, `isinstance(v, int)` and
  `isinstance(n, sympy.core.numbers.Float)` are False and the branches `return v1 == v2`, `f"{f.num:.4g}"`,
  `str(n)` are dropped as unreachable.  Checked on the real library: only an int ASSIGNED to an attribute
  (`t.constant = 12345`) reaches `str(n)` and prints `x <= 12345` instead of `x <= 1.234e+04`; the constructor never
  stores one;
* a dict is an association list in insertion order; a `PolyhedralTermList` is the list in its field `terms`; objects
  are values: `list(l)`, `l.copy()`, `l[a:]` are the same elements, in-place updates of local fresh lists are
  rebindings (ownership checked syntactically); `list.remove` goes by `==` only (see above);
* a `Var` is its name (checked: `Var.__init__/name/__str__`); `str` order is code-point order (`str_leb`);
* `while` on explicit fuel `len(ts)`;
* `logging.*` and docstrings ignored; comments are not in the AST.

## 4. Discrepancies between `model/Printer.v` and the Python source

None found.  Every translated function is EQUAL to its hand model — the first four on every input, the fold and
`to_str_list` on every list of terms with pairwise distinct keys, which is every list of Python `PolyhedralTerm`s.
Outside that (association lists with a repeated key) generated code and hand model differ as the `Example` shows;
that is the documented convention of the models, not a defect.  The `Example`s of `proofs/PrinterGenFacts.v` evaluate
the GENERATED code on the inputs that separate the three seeded changes (a superset partner, terms between a pair,
constants 4e-6 apart) and on the `=` / `|…| <=` / `|…| = 0` / unit-coefficient cases; the same lists were printed by
the real library (`PYTHONPATH=/repo/src /venv/bin/python`, `pacti.__file__` under `/repo/src`) with the same strings.

## 5. Sensitivity experiment

Each row below is one edit of the Python source applied to a scratch copy of `/repo/src`; the translator is run into
a scratch copy of `coq/` and `proofs/PrinterGenFacts.vo` is rebuilt with `make -k` (every `coqc` under `timeout 600`).
A *semantic* edit must be rejected by the translator (fail closed) or break an equality proof; a *harmless* rewrite
must still translate and prove.  The outcome names every theorem whose proof script stops compiling (with `make -k`,
files that depend on a broken file are not attempted) and says whether the generated text (sha line excluded)
differs from the one generated from the unmodified source.  M01, M02, M03 are the seeded changes C10
(`seeded/C10-opposite-subset`), C10b (`seeded/C10b-fold-drops-between`) and C10c
(`seeded/C10c-closeness-tolerances-crossed`), applied as their patches state them: each translates, changes the
generated text and breaks the matching equality.

"""


def main(verif, repo, scratch, report=None, keep=False):
    if os.path.exists(scratch):
        shutil.rmtree(scratch)
    os.makedirs(scratch)
    coq = os.path.join(scratch, "coq")
    shutil.copytree(os.path.join(verif, "coq"), coq, ignore=shutil.ignore_patterns("cases"), copy_function=shutil.copy2)
    # copytree keeps mtimes of files (copy2), so `make` only rebuilds what the translator rewrites
    orig = {rel: open(os.path.join(repo, rel)).read() for rel in (SER, POL)}
    rows = []
    baseline = {}

    def run(ident, kind, rel, desc, pairs):
        tree = os.path.join(scratch, "repo")
        if os.path.exists(tree):
            shutil.rmtree(tree)
        shutil.copytree(os.path.join(repo, "src"), os.path.join(tree, "src"))
        if ident != "ORIG":
            text = apply_edit(orig[rel], ident, pairs)
            with open(os.path.join(tree, rel), "w") as fh:
                fh.write(text)
            rc, out = sh([PY, "-c", f"import ast; ast.parse(open({os.path.join(tree, rel)!r}).read())"])
            assert rc == 0, out

        def gen_text():     # generated text without the sha256 line of the header
            return "".join(l for l in open(os.path.join(coq, "gen", GEN)) if "sha256" not in l)
        rc, out = sh([PY, os.path.join(verif, "translator", "py2coq.py"), tree, os.path.join(coq, "gen")])
        msg = [l for l in out.splitlines() if l.startswith(f"TRANSLATOR-UNSUPPORTED[{GEN}]")]
        other = [l for l in out.splitlines() if l.startswith("TRANSLATOR-UNSUPPORTED[") and not l.startswith(f"TRANSLATOR-UNSUPPORTED[{GEN}]")]
        if rc != 0:
            res = ("translator crashes", out.strip()[-240:])
            passed = None
        elif msg:
            # fail closed: the rejected output file is replaced by a stub that does not compile, so every
            # obligation that depends on it stops checking
            res = ("translator rejects", msg[0][:300])
            passed = False
        else:
            if ident == "ORIG":
                baseline[GEN] = gen_text()
            changed = gen_text() != baseline[GEN]
            rc2, log = sh(["make", "-k", "-j8", "COQC=timeout 600 coqc"] + TARGETS, cwd=coq)
            if rc2 == 0:
                res = ("translates; all equality proofs COMPILE", "")
                passed = True
            else:
                errs = all_errors(log)
                if errs:
                    names = [f"`{enclosing(os.path.join(coq, f), line)}` ({f}:{line})" for f, line, _ in errs]
                    res = ("translates; proof FAILS: " + ", ".join(names), errs[0][2])
                else:
                    res = ("translates; build FAILS", log.strip()[-200:])
                passed = False
            res = (res[0] + (" [generated text differs from the original's]" if changed else
                             " [generated text IDENTICAL to the original's]"), res[1])
        if other:
            res = (res[0] + f" (another generator also rejects: {other[0][:80]})", res[1])
        ok = (passed is not None and passed == (kind in ("harmless", "original")))
        rows.append((ident, kind, os.path.basename(rel) if rel else "", desc, res[0], res[1], ok))
        print(f"{ident} [{kind}] {desc}\n    -> {res[0]} {res[1]}\n    {'as expected' if ok else 'UNEXPECTED'}", flush=True)

    run("ORIG", "original", None, "unmodified /repo/src", None)
    for ident, kind, rel, desc, pairs in EDITS:
        run(ident, kind, rel, desc, pairs)
    run("ORIG", "original", None, "unmodified /repo/src again (after all edits)", None)
    bad = [r for r in rows if not r[6]]
    if report:
        with open(report, "w") as fh:
            fh.write(PREAMBLE)
            sem = [r for r in rows if r[1] == "semantic"]
            fh.write(f"Summary: {len(sem)} semantic edits — {sum('proof FAILS' in r[4] for r in sem)} break an equality "
                     f"proof, {sum('translator rejects' in r[4] for r in sem)} are rejected by the translator, "
                     f"{sum('COMPILE' in r[4] for r in sem)} pass unnoticed; "
                     f"{sum(r[1] == 'harmless' for r in rows)} harmless rewrites — "
                     f"{sum(r[1] == 'harmless' and 'COMPILE' in r[4] for r in rows)} still translate and prove.  "
                     f"Unexpected outcomes: {len(bad)}.\n\n")
            fh.write("| id | kind | file | edit | outcome | first error |\n|---|---|---|---|---|---|\n")
            for ident, kind, rel, desc, res, err, ok in rows:
                fh.write(f"| {ident} | {kind} | {rel} | {desc} | {res} | {err.replace('|', '/')} |\n")
    tree = os.path.join(scratch, "repo")
    if os.path.exists(tree):
        shutil.rmtree(tree)          # the scratch SOURCE tree is always removed
    if not keep:
        shutil.rmtree(scratch)
    print("unexpected outcomes:", len(bad))
    return 1 if bad else 0


if __name__ == "__main__":
    args = [a for a in sys.argv[1:] if a != "--keep"]
    sys.exit(main(*args, keep="--keep" in sys.argv))
