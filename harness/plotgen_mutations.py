#!/usr/bin/env python3
"""Sensitivity experiment for the translation of the vertex routine of pacti.utils.plots (translator/py2coq_plots.py ->
gen/PlotsGen.v) and of the equality proofs proofs/PlotsGen{Base,Substitute,Vertices,Bounding,Facts}.v.

For each small edit of the Python source (applied to a scratch copy of the source tree, one at a time) the
translator is run into a scratch copy of the Coq tree and proofs/PlotsGenFacts.vo is rebuilt (`make -k`, every coqc
under `timeout`).  Semantic edits must be rejected by the translator (fail closed: TRANSLATOR-UNSUPPORTED, the output
file is poisoned) or break a proof; harmless rewrites must pass.  Nothing outside the scratch directory is written
(except the report); the scratch source tree is always removed, the scratch directory unless --keep.

usage: plotgen_mutations.py <verif dir> <repo dir> <scratch dir> [report.md] [--keep]
"""
import os
import re
import shutil
import subprocess
import sys

PY = "/venv/bin/python"
PLT = "src/pacti/utils/plots.py"
TARGETS = ["proofs/PlotsGenFacts.vo"]
GEN = "PlotsGen.v"

SWAP = "        a_mat[:, [0, 1]] = a_mat[:, [1, 0]]  # noqa: WPS359 Found an iterable unpacking to list\n"
SKIP = ("        if not term.vars:\n"
        "            if term.constant < 0:\n"
        "                raise ValueError(\"Constraint %s is violated by assignment\" % (term_bk))\n"
        "            else:\n"
        "                continue  # noqa: WPS503 Found useless returning `else` statement\n")
NEED = ("    if diff:\n"
        "        raise ValueError(\"Need to set variables %s\" % (diff))\n")
CENTER = "    center = (sum(x) / len(x), sum(y) / len(y))\n"
SORT = "    points = sorted(zip(x, y), key=lambda p: atan2(p[1] - center[1], p[0] - center[0]))\n"
OBJ = ("    obj = np.array([0, 0, 1])\n"
       "    if interior:\n"
       "        obj = np.array([0, 0, -1])\n")

# (id, kind, description, [(old text, new text), ...] | name of a seeded patch)   kind: "semantic" | "harmless"
EDITS = [
    ("M01", "semantic", "SEEDED C18 (seeded/C18, applied as its patch states it): the in-place column swap becomes the "
     "no-op `np.fliplr(a_mat)` (a call whose result is discarded)", "C18"),
    ("M02", "semantic", "SEEDED C18b (seeded/C18b-fallback-default-bounds, as its patch): the four fallback LPs become a "
     "loop that calls linprog WITHOUT `bounds=` (scipy's default x >= 0) and collects the points with generator "
     "expressions", "C18b-fallback-default-bounds"),
    ("M03", "semantic", "SEEDED C18c (seeded/C18c-tight-constant-rows-kept, as its patch): `if not term.vars: if ... < 0: "
     "raise else: continue` flattened into `if not term.vars and term.constant < 0: raise` — satisfied constant rows "
     "reach the vertex computation", "C18c-tight-constant-rows-kept"),
    ("M04", "semantic", "C18 inside the subset: the column swap assigns the columns to themselves "
     "(`a_mat[:, [0, 1]] = a_mat[:, [0, 1]]`)",
     [(SWAP, "        a_mat[:, [0, 1]] = a_mat[:, [0, 1]]\n")]),
    ("M05", "semantic", "C18b inside the subset: `bounds=(None, None)` dropped from the four fallback linprog calls "
     "(scipy's default bounds=(0, None) is passed to the primitive)", None),
    ("M06", "semantic", "boundary term with the wrong sign: the lower x limit is `PolyhedralTerm({x_var: -1}, x_lims[0])`",
     [("PolyhedralTerm({x_var: -1}, -x_lims[0])", "PolyhedralTerm({x_var: -1}, x_lims[0])")]),
    ("M07", "semantic", "x and y limits swapped in the two upper boundary terms",
     [("[PolyhedralTerm({x_var: 1}, x_lims[1])]", "[PolyhedralTerm({x_var: 1}, y_lims[1])]"),
      ("PolyhedralTerm({y_var: 1}, y_lims[1])", "PolyhedralTerm({y_var: 1}, x_lims[1])")]),
    ("M08", "semantic", "the substituted value is added instead of subtracted (`constant=val`)",
     [("PolyhedralTerm(variables={}, constant=-val)", "PolyhedralTerm(variables={}, constant=val)")]),
    ("M09", "semantic", "the violation test `term.constant < 0` as `<= 0` (a tight constant row raises)",
     [("            if term.constant < 0:\n", "            if term.constant <= 0:\n")]),
    ("M10", "semantic", "the check for variables without a value dropped (`if diff: raise ...` removed)", [(NEED, "")]),
    ("M11", "semantic", "the fallback keeps only three of the four directions",
     [("        x = (p1[0], p2[0], p3[0], p4[0])\n        y = (p1[1], p2[1], p3[1], p4[1])\n",
       "        x = (p1[0], p2[0], p3[0])\n        y = (p1[1], p2[1], p3[1])\n")]),
    ("M12", "semantic", "the second fallback LP optimises the first direction again (`c=[0, 1]` twice)",
     [("linprog(c=[0, -1], A_ub=a_mat", "linprog(c=[0, 1], A_ub=a_mat")]),
    ("M13", "semantic", "the angular sort reversed (`points.reverse()` after the sort)",
     [(SORT, SORT + "    points.reverse()\n")]),
    ("M14", "semantic", "the angular sort reversed with `sorted(..., reverse=True)` (a keyword outside the subset)",
     [("key=lambda p: atan2(p[1] - center[1], p[0] - center[0]))", "key=lambda p: atan2(p[1] - center[1], p[0] - center[0]), reverse=True)")]),
    ("M15", "semantic", "atan2 called with its arguments swapped (`atan2(dx, dy)`)",
     [("atan2(p[1] - center[1], p[0] - center[0])", "atan2(p[0] - center[0], p[1] - center[1])")]),
    ("M16", "semantic", "the Chebyshev LP objective sign flipped (interior -> [0, 0, 1])",
     [(OBJ, "    obj = np.array([0, 0, -1])\n    if interior:\n        obj = np.array([0, 0, 1])\n")]),
    ("M17", "semantic", "the half-spaces handed to Qhull without the negation of b",
     [("np.concatenate((a_mat, -np.reshape(b, (-1, 1))), axis=1)", "np.concatenate((a_mat, np.reshape(b, (-1, 1))), axis=1)")]),
    ("M18", "semantic", "the centre of the sort is the first point instead of the mean (`center = (x[0], y[0])`)",
     [(CENTER, "    center = (x[0], y[0])\n")]),
    ("M19", "semantic", "`except QhullError` becomes `except ValueError` (an empty intersection list would go to the fallback)",
     [("    except QhullError:\n", "    except ValueError:\n")]),
    ("M20", "semantic", "infeasibility tested with `res[\"status\"] == 3`",
     [("    if res[\"status\"] == 2:\n", "    if res[\"status\"] == 3:\n")]),
    ("M21", "semantic", "the swap test looks at the wrong variable (`variables[0] == x_var`)",
     [("    if variables[0] == y_var:\n", "    if variables[0] == x_var:\n")]),
    ("M22", "semantic", "the y-axis check tests x_var again (`if x_var in var_values.keys()` twice)",
     [("    if y_var in var_values.keys():\n", "    if x_var in var_values.keys():\n")]),
    ("M23", "semantic", "the boundary terms come first (`_gen_boundary_constraints(...) | constraints`)",
     [("    term_list = constraints | _gen_boundary_constraints(x_var, y_var, x_lims, y_lims)\n",
       "    term_list = _gen_boundary_constraints(x_var, y_var, x_lims, y_lims) | constraints\n")]),
    ("M24", "semantic", "the Chebyshev LP gets b instead of the row norms as third column",
     [("np.concatenate((a_mat, np.linalg.norm(a_mat, axis=1, keepdims=True)), axis=1)",
       "np.concatenate((a_mat, np.reshape(b, (-1, 1))), axis=1)")]),
    ("M25", "semantic", "`interior` defaults to False (the caller does not pass it)",
     [("interior: bool = True", "interior: bool = False")]),
    ("M26", "semantic", "_substitute_in_termlist renamed (a listed function is missing)",
     [("def _substitute_in_termlist(", "def _substitute_in_term_list("),
      ("    plot_tl = _substitute_in_termlist(term_list, var_values)\n", "    plot_tl = _substitute_in_term_list(term_list, var_values)\n")]),
    ("M27", "semantic", "termlist_to_polytope called with its arguments swapped",
     [("PolyhedralTermList.termlist_to_polytope(plot_tl, PolyhedralTermList([]))",
       "PolyhedralTermList.termlist_to_polytope(PolyhedralTermList([]), plot_tl)")]),
    ("M28", "semantic", "the terms are appended BEFORE the substitution (`plot_list.append(term_bk)`)",
     [("        plot_list.append(term)\n", "        plot_list.append(term_bk)\n")]),
    ("H01", "harmless", "locals renamed (_substitute_in_termlist: plot_list -> kept, term_bk -> backup; "
     "_get_bounding_vertices: res -> sol, center -> mid, points -> ordered; constraints_to_vertices: diff -> missing)", None),
    ("H02", "harmless", "`import logging`, logging.debug(...) calls and docstrings added to _substitute_in_termlist and "
     "_get_bounding_vertices",
     [("import matplotlib.pyplot as plt", "import logging\n\nimport matplotlib.pyplot as plt"),
      ("    plot_list = []\n", "    \"\"\"Fix the non-plotted variables.\"\"\"\n    logging.debug(\"substituting %s\", var_values)\n    plot_list = []\n"),
      ("    halfspaces = np.concatenate(", "    logging.debug(\"interior point %s\", interior_point)\n    halfspaces = np.concatenate(")]),
    ("H03", "harmless", "the useless `else:` before `continue` removed",
     [(SKIP, SKIP.replace("            else:\n                continue  # noqa: WPS503 Found useless returning `else` statement\n",
                          "            continue\n"))]),
    ("H04", "harmless", "`0 > term.constant` for `term.constant < 0`; `x_var in var_values` for `x_var in var_values.keys()`",
     [("            if term.constant < 0:\n", "            if 0 > term.constant:\n"),
      ("    if x_var in var_values.keys():\n", "    if x_var in var_values:\n")]),
    ("H05", "harmless", "the centre computed through two temporaries (`cx`, `cy`)",
     [(CENTER, "    cx = sum(x) / len(x)\n    cy = sum(y) / len(y)\n    center = (cx, cy)\n")]),
    ("H06", "harmless", "`res[\"x\"]` of the first fallback LP through a temporary (`sol1`)",
     [("        res = linprog(c=[0, 1], A_ub=a_mat, b_ub=b, bounds=(None, None))\n        p1 = np.array(res[\"x\"])\n",
       "        res = linprog(c=[0, 1], A_ub=a_mat, b_ub=b, bounds=(None, None))\n        sol1 = res[\"x\"]\n        p1 = np.array(sol1)\n")]),
]


def sh(cmd, cwd=None, timeout=3600):
    p = subprocess.run(cmd, cwd=cwd, stdout=subprocess.PIPE, stderr=subprocess.STDOUT, text=True, timeout=timeout)
    return p.returncode, p.stdout


def segment(text, start, end):
    a = text.index(start)
    b = text.index(end, a)
    return a, b


def apply_edit(text, ident, pairs):
    if ident == "M05":
        old = ", A_ub=a_mat, b_ub=b, bounds=(None, None))\n"
        assert text.count(old) == 4, text.count(old)
        return text.replace(old, ", A_ub=a_mat, b_ub=b)\n")
    if ident == "H01":
        a, b = segment(text, "def _substitute_in_termlist(", "# Find interior point of the set")
        seg = text[a:b]
        for old, new in ((r"\bplot_list\b", "kept"), (r"\bterm_bk\b", "backup")):
            seg2 = re.sub(old, new, seg)
            assert seg2 != seg
            seg = seg2
        text = text[:a] + seg + text[b:]
        a, b = segment(text, "def _get_bounding_vertices(", "def _gen_boundary_constraints(")
        seg = text[a:b]
        for old, new in ((r"\bres\b", "sol"), (r"\bcenter\b", "mid"), (r"\bpoints\b", "ordered")):
            seg2 = re.sub(old, new, seg)
            assert seg2 != seg
            seg = seg2
        text = text[:a] + seg + text[b:]
        a, b = segment(text, "def constraints_to_vertices(", "def _plot_constraints(")
        seg = text[a:b]
        seg2 = re.sub(r"\bdiff\b", "missing", seg)
        assert seg2 != seg
        return text[:a] + seg2 + text[b:]
    for old, new in pairs:
        assert text.count(old) == 1, (ident, old, text.count(old))
        text = text.replace(old, new, 1)
    return text


def all_errors(log):
    """[(file, line, message)] for every coqc error of a `make -k` log"""
    out = []
    for m in re.finditer(r'File "\./([^"]+)", line (\d+), characters [^\n]*\n(Error:.*?)(?=\nmake|\nFile "|\nCOQC|\Z)', log, re.S):
        msg = " ".join(m.group(3).split())
        k = re.search(r"Unable to unify|Impossible to unify|The term|Found no subterm|Tactic failure|No such|Cannot|Not an inductive|"
                      r"Wrong|Illegal|The reference|Unable to find|No matching|Not the right", msg)
        out.append((m.group(1), int(m.group(2)), ("Error: " + msg[k.start():] if k else msg)[:170]))
    return out


def enclosing(vfile, line):
    name = "?"
    for i, l in enumerate(open(vfile), 1):
        m = re.match(r"\s*(?:Theorem|Lemma|Corollary|Example|Definition|Fixpoint|Goal)\s*([\w']*)", l)
        if m:
            name = m.group(1) or "Goal"
        if i >= line:
            break
    return name


PREAMBLE = r"""# T1 for the vertex routine of `pacti.utils.plots` (property C18)

Generated by `harness/plotgen_mutations.py`
(rerun: `/venv/bin/python harness/plotgen_mutations.py <verif> /repo <scratch> docs/PLOTGEN_REPORT.md`).

## 1. What is translated

`translator/py2coq_plots.py` (a generator module of its own; `py2coq.main` has one import line and one
`guard("PlotsGen.v", ...)` line for it; class `PlFn`, entry point `gen_plots`) renders, from the current `/repo/src` on
every run, into `coq/gen/PlotsGen.v`:

| function of `src/pacti/utils/plots.py` | generated definition | monadic |
|---|---|---|
| `_gen_boundary_constraints` | `plots__gen_boundary_constraints` | no |
| `_substitute_in_termlist` | `plots__substitute_in_termlist` | yes (`substitute_variable`, `raise ValueError`) |
| `_get_feasible_point` | `plots__get_feasible_point` | yes (`np.concatenate`, `linprog`, `raise`, `np.array(res["x"])[0:-1]`) |
| `_get_bounding_vertices` | `plots__get_bounding_vertices` | yes (both `try`s, `p1[0]`, `/`, `x, y = zip(*..)`) |
| `constraints_to_vertices` | `plots_constraints_to_vertices` | yes (the three `ValueError`s, `|`, the `assert`, `variables[0]`, the column swap) |

All five listed functions are covered, every statement of each (for `_get_feasible_point` the task asked for "up to its
LP call"; the status test and the `[0:-1]` slice after it are translated too).  The other functions of the module
(`plot_assumptions`, `plot_guarantees`, `_plot_constraints`, `_plot_transformed_constraints`, `get_path`, `_to_var`,
`_to_vals_dict`, `_to_bool`: matplotlib and argument conversion) are NOT translated and are ignored, whatever they
contain.  `PolyhedralTerm(..)`, `t.copy()`, `t.substitute_variable(..)`, `t.vars` are the TRANSLATED
`PolyhedralTerm_init / _copy / _substitute_variable / _vars` of `gen/TermGen.v`; `PolyhedralTermList(l)`, `tl.vars` and
`a | b` are the TRANSLATED `PolyhedralTermList_init / _vars / _or` of `gen/TermListGen.v`; `list_diff` / `list_union` are
those of `gen/ListsGen.v` (the signatures are read from the output of these generators on every run, so an edit of these
methods propagates; if one of those generators rejects its source, `PlotsGen.v` is rejected too).

**Not translated, on purpose** — named primitives, the fields of the class `PlotPrims` of the new vocabulary file
`coq/base/PyPlots.v`, which the generated section is generic in:

| Python | primitive | instance in the proofs (`proofs/PlotsGenBase.v:plot_prims nrm O`, for EVERY `nrm` and `O`) |
|---|---|---|
| `PolyhedralTermList.termlist_to_polytope(terms, context)` | `pp_termlist_to_polytope terms context` : the 5-tuple `(variables, A, b, a_h, b_h)` | `polytope_vars` / `term_to_row` of `model/Poly.v` |
| `np.linalg.norm(a, axis=1, keepdims=True)` | `pp_norm_rows a` | `map (fun r => [nrm r])` for an ARBITRARY function `nrm` (the norms are irrational; the hand model never computes them) |
| `linprog(c=.., A_ub=.., b_ub=.., bounds=..)` | `pp_linprog c A_ub b_ub bounds` — ALL four arguments; `b_ub` tagged `Rhs1` (1-D) / `Rhs2` (column); `bounds` a pair of `option Q`; an OMITTED `bounds` is filled in with scipy's default `(Some 0, None)` by the translator (with an `assumption:` line) | `plot_linprog`: `bounds = (None, None)` and `Rhs1` and `c = [c0; c1]` → `extreme O rows (c0, c1)` (the four fallback LPs); `bounds = (None, None)` and `Rhs2` and `c = [0; 0; -1]` and `A_ub = [A | norms ; 0 0 -1]`, `b_ub = [b ; 0]` (decoded and CHECKED by `decode_cheb`, including that the third column is `nrm` of the row) → `centre O rows`; ANYTHING else → `OracleMiss` |
| `res["status"]`, `res["x"]` | `pp_res_status res`, `pp_res_x res` | `None` ↦ status 2 / `x = None`; `Some p` ↦ status 0 |
| `HalfspaceIntersection(halfspaces, interior_point)`, `hs.intersections` | `pp_HalfspaceIntersection hs ip` (raises `Escape "QhullError"`), `pp_intersections` | `plot_hull`: rows decoded from `[a; b; -c]`, `ip` CHECKED to be the point `centre O rows` answered, then `Q_hull O rows` (`None` ↦ QhullError) |
| `sorted(points, key=lambda p: atan2(dy, dx))` | `pp_sorted_by_atan2 points (fun p => py_atan2 dy dx)` — the key lambda IS translated; `py_atan2 y x` is the symbolic pair `(y, x)` | `sort_by_angle (cut_low O)`: the stable insertion sort of `model/Plots.v` over `ang_leb_gen`, proved equal to `sort_angular (cut_low O) c` when the key is `atan2(p[1] - c[1], p[0] - c[0])` |

Everything around them is translated line by line: which checks raise what and in which order, the union with the
boundary terms, the substitution loop with `raise` / `continue` / `append`, the `assert`, which component of the
5-tuple goes where, the test `variables[0] == y_var`, the in-place column swap, the two `try` statements with their
exception classes, the construction of the Chebyshev LP and of the half-space matrix, the four directions and the
`bounds` of the fallback LPs, the tuples of first / second coordinates, the mean, the key of the sort and the final
unzip.

New vocabulary (`coq/base/PyPlots.v`, on top of `PyDict.v`, `PyLoop.v`, `PyTermList.v`, `PyPrint.v`): `PlotPrims`;
`np_matrix` / `np_vector` (a 2-D array is the list of its rows, a 1-D array / tuple / list of floats is `list Q`),
`lp_bounds`, `lp_rhs`, `angle`; `py_assert` (`Escape "AssertionError"`), `try_except_escape kind` (`except QhullError`:
catches exactly `Escape "QhullError"`); `dict_literal`; `tuple5_0 .. tuple5_4`; `nat_float`, `py_sum`, `py_zip`,
`py_unzip2` (`x, y = zip(*l)`: `ValueError` on the empty sequence), `py_atan2`; `np_array_1d/2d`, `np_reshape_col`
(`np.reshape(b, (-1, 1))`), `np_neg_1d/2d` (exact negation), `np_concat_axis1` / `np_concat_axis0` (`ValueError` on a
shape mismatch), `np_get_cols` / `np_set_cols` (`m[:, [j..]]` as a value / as an assignment target: `IndexError` on a
missing column), `np_array_opt`, `npo_index`, `npo_slice_0_m1` (`np.array(None)` is a 0-d object array: `IndexError`).
Reused: `for_list_m`, `for_items_m`, `list_get_m`, `try_except` (`except ValueError`), `py_append`, `py_reverse`,
`list_truth`, `dict_keys`, `py_list`, `py_div` (`ZeroDivisionError`), `qneg`, `qsub`, `qlt`.

Subset (class `PlFn`): typed expressions (`F` float, `B` bool, `N` count / index, `V` Var, `T` PolyhedralTerm, `TL`
PolyhedralTermList, `D` dict {Var: float}, `A1` / `A2` arrays, `OA1` array of a value that may be None, `RES`, `HS`,
`ANG`, lists, pairs, the 5-tuple; int literals are typed by use; `K` is a condition decided by the static types),
assignments, 2-name unpacking, `x, y = zip(*points)`, `a[:, [..]] = v`, `l.append(x)` / `l.reverse()` on lists the
function built itself, `if`/`else` with joins, `for` over lists and `d.items()` with `continue` / `break` (a loop
variable may be rebound in the body: it is local to the iteration), `raise ValueError(msg) [from e]`, `assert c, msg`,
`try: .. except ValueError [as e] / except QhullError: ..` (the handler starts from the state before the `try` and may not
read what the body assigned; names bound in only one of body and handler are local), `and`/`or`/`not`, comparisons,
dict / list / tuple literals, `sorted(.., key=lambda p: atan2(..))`, keyword arguments and a bool default.  Whether a
function — and each loop or join inside a monadic function — is monadic is INFERRED from its body.

Fail closed (`TRANSLATOR-UNSUPPORTED[PlotsGen.v]: ...`; the output file is replaced by a stub that does not compile, so
every obligation that depends on it stops checking) on any construct outside the subset (comprehensions and generator
expressions, `while`, nested functions, `global`, `with`, lambdas other than the sort key, calls whose result is
discarded, unknown calls / methods / attributes / keyword arguments such as `reverse=True`, other numpy functions,
`np.concatenate` / `np.reshape` / `np.linalg.norm` in other forms, `linprog` with `A_eq` / `b_eq`, bounds that are not a
literal pair, negative indices, other slices, `raise` of another class, other `except` clauses, messages that are not a
literal or `literal % local`), on a missing or doubly defined listed function, on decorators / unexpected annotations,
on a changed import of a name the translation gives a meaning to (`np`, `linprog`, `HalfspaceIntersection`,
`QhullError`, `atan2`, `PolyhedralTerm`, `PolyhedralTermList`, `Var`, `list_diff`, `list_union`), on a module-level or
local rebinding of such a name or of a builtin used, on a `global` statement anywhere in the module, on an in-place update
of an object that is not provably this function's own (the array must come from its own call of `termlist_to_polytope`;
the tuple it was taken from may not be used afterwards), on a changed `Var` class, and whenever `gen/TermGen.v` or
`gen/TermListGen.v` is rejected.  Output is deterministic; `logging.*` calls and docstrings are ignored.

## 2. Equality theorems (all closed under the global context)

`plot_prims nrm O` instantiates the primitives as in the table above (for every `nrm : list Q -> Q` and every oracle
record `O : oracles` of `model/Plots.v`); `wft t := NoDup (keys (tvars t))`, `wft' t := wft t /\ no stored zero
coefficient` (`proofs/TermFacts.v`); `two_cols rows := Forall (fun r => length (fst r) = 2) rows` for `rows : list row`
(`row = list Q * Q`, `model/Poly.v`); `unzip_pts l := (map fst l, map snd l)` (the Python returns the tuple of x's and the
tuple of y's, the hand model the list of points).

| file | theorem | statement | precondition |
|---|---|---|---|
| proofs/PlotsGenSubstitute.v | `gen_boundary_constraints_eq` | `plots__gen_boundary_constraints x y xl yl = gen_boundary x y xl yl` | none |
| | `substitute_in_termlist_eq` | `plots__substitute_in_termlist ts vals = substitute_in_termlist ts vals` | `Forall wft' ts` |
| proofs/PlotsGenVertices.v | `plot_rows_rows2` | `plot_rows cs x y vals xl yl = mmap (map row_triple) (plot_rows2 cs x y vals xl yl)` (`plot_rows2` = the hand model's `plot_rows` before the final `map row_triple`) | none |
| | `constraints_to_vertices_glue` | `@plots_constraints_to_vertices (plot_prims nrm O) cs x y vals xl yl = rows <- plot_rows2 cs x y vals xl yl ;; @plots__get_bounding_vertices (plot_prims nrm O) (map fst rows) (map snd rows)` | `Forall wft cs` |
| | `plot_rows2_two_cols` | `plot_rows2 cs x y vals xl yl = inl rows -> two_cols rows` | `Forall wft cs` |
| proofs/PlotsGenBounding.v | `get_feasible_point_eq` | `@plots__get_feasible_point (plot_prims nrm O) (map fst rows) (map snd rows) true = match centre O (map row_triple rows) with Some p => ret [fst p; snd p] \| None => raise ValueErr end` | `two_cols rows` |
| | `get_bounding_vertices_eq` | `@plots__get_bounding_vertices (plot_prims nrm O) (map fst rows) (map snd rows) = mmap unzip_pts (bounding_vertices O (map row_triple rows))` | `two_cols rows` |
| proofs/PlotsGenFacts.v | `constraints_to_vertices_eq` | `@plots_constraints_to_vertices (plot_prims nrm O) cs x y vals xl yl = mmap unzip_pts (constraints_to_vertices O cs x y vals xl yl)` | `Forall wft cs` |
| | `gen_assert_unreachable` | the generated `constraints_to_vertices` never ends in `Escape "AssertionError"` | `Forall wft cs` |
| | the five obligations restated as `Goal`s with `Print Assumptions`; `Example`s evaluating the GENERATED code (`gen_unit_square`, `gen_swap_columns`, `gen_substitute_and_swap`, `gen_constant_row_skipped`, `gen_constant_row_violated`, `gen_axis_variable_assigned`, `gen_variable_without_value`, `gen_same_axis`) with Qhull answered by the verified reference enumerator `corners` | | |

The equalities are pointwise equalities of monadic results: the value AND which exception is raised where
(`ValueError` of the argument checks, of a violated constant row, of "Region is empty", of unpacking an empty
intersection list; `AssertionError`; `IndexError` of `variables[0]`, of the column swap on a one-column matrix, of
`p1[0]` on `np.array(None)`; QhullError caught by exactly one handler).  The proofs read loops and joins by their
behaviour (`subst_loop` quantifies over the loop body; the tail of `_get_bounding_vertices` after the second `try` is
abstracted as a continuation `K` and characterised once for both branches), so they do not depend on generated names
or let-structure (H01 renames locals, H05 / H06 add temporaries).

**Why the preconditions, each with an `Example`.**
* `Forall wft' ts` for `_substitute_in_termlist` (distinct keys, no STORED zero coefficient): inherited from
  `substitute_variable_eq` (`proofs/TermGenSubst.v`).  On a term with a stored zero — obtainable only by assigning to
  `t.variables`; `PolyhedralTerm.__init__` drops zeros — the code raises `KeyError` where `model/Term.v` answers
  (`substitute_stored_zero`; reproduced on the real library: `KeyError: <Var z>`).  Inside `constraints_to_vertices` it
  always holds, because `constraints | boundary` copies every term, so the top-level theorem only asks for `wft`.
* `Forall wft cs` for `constraints_to_vertices` (distinct keys, i.e. the association list denotes a Python dict): the
  union copies every term item by item, which merges a repeated key, the hand model keeps both
  (`repeated_key_differs`).  No Python input is excluded.
* `two_cols rows` for `_get_feasible_point` / `_get_bounding_vertices`: the routine is two-dimensional (`c=[0, 1]`, the
  row `[0, 0, -1]` appended to `[A | norms]`).  On a matrix with three columns numpy raises in `np.concatenate(..,
  axis=0)`, which `_get_bounding_vertices` reports as `ValueError("Region is empty")`; the hand model reads the first two
  coefficients of every row (`row_triple` pads / truncates) and goes on (`three_columns_differ`; real library:
  `ValueError: Region is empty`).  `plot_rows2_two_cols` shows that `constraints_to_vertices` never hands over anything
  else, so the top-level theorem has no such precondition.
* `interior = true` in `get_feasible_point_eq`: `interior=False` poses another LP, for which the hand model has no oracle
  (`not_interior_is_another_lp`: `OracleMiss`); the only caller passes the default.

## 3. Python / numpy semantics that are approximated (each is also an `assumption:` line of the translator and a line of the generated header)

* a float is the rational it denotes; NaN, inf, signed zeros and rounding are not modelled; one exact-rational type
  stands for `int` and `float`.  `-x` on a scalar is `qneg` (normalised), on an array the exact entrywise `Qopp`; `a - b`
  inside the sort key is `qsub` (the angular order only looks at values: `ang_leb_gen_proper`);
* a 2-D array is the list of its rows, so the number of columns of an array WITHOUT rows is not represented (taken to
  fit); `np.ndarray` annotations do not give the rank: `a_mat` is 2-D and `b` 1-D by a table in the translator;
  `hs.intersections` (an (n, 2) array) is a list of pairs; tuples of floats used as sequences are lists;
* objects are values: an in-place `a[:, [..]] = v` / `l.append(x)` is a rebinding, accepted only on an object this
  function built itself (ownership and the "tuple not used afterwards" condition are checked syntactically);
  `termlist_to_polytope` is taken to return new arrays;
* a `PolyhedralTermList` is the list in its field `terms`; a `Var` is its name; a dict is an association list in
  insertion order;
* `isinstance(constraints, PolyhedralTermList)` is statically True (the annotation is trusted): the first `raise` of
  `constraints_to_vertices` is dropped as unreachable;
* exception and assert messages are dropped after checking that they are a literal or `literal % local` with exactly
  one `%s` (`str()` of a Var, a term, a list of Vars, a type is taken to be total); `raise X from e` raises X;
  `python -O` (which removes asserts) is not modelled;
* `math.atan2` is symbolic; the float noise at its branch cut is the oracle flag `cut_low` of the hand model, owned by
  the sorting primitive;
* a linprog result has only `status` and `x`; the instance knows `None` = status 2 with `x = None` and `Some p` = status
  0 — other statuses of the Chebyshev LP (unbounded, numerical failure) cannot be expressed by the hand model's oracle
  `centre` and are therefore not covered by the equality;
* `logging.*` and docstrings are ignored; comments are not in the AST.

## 4. Discrepancies between `model/Plots.v` and the Python source

None on Python inputs of `constraints_to_vertices`: the generated function is EQUAL to the hand model for every list of
terms with pairwise distinct keys (every list of Python `PolyhedralTerm`s), every pair of axis variables (including
`x_var == y_var`: `IndexError` on both sides, as on the real library), every assignment, every limits, every oracle.
Outside that, three differences were found and are explicit preconditions with `Example`s (all checked on the real
library, `MPLBACKEND=Agg PYTHONPATH=/repo/src /venv/bin/python`, `pacti.__file__` under `/repo/src`):

| input | Python / generated code | hand model |
|---|---|---|
| `_get_bounding_vertices(np.array([[1., 1., 1.]]), np.array([1.]))` (three columns; not reachable from `constraints_to_vertices`) | `ValueError: Region is empty` | `bounding_vertices O [(1, 1, 1)]`: reads two coefficients and answers (`three_columns_differ`) |
| `_substitute_in_termlist` on a term with a STORED zero coefficient (`t.variables[z] = 0.0`), `{z: 2}` | `KeyError: <Var z>` | `[x <= 1]` (`substitute_stored_zero`; the known gap of `model/Term.v`) |
| an association list with a repeated key (no Python dict) | the copy merges the entries | keeps both (`repeated_key_differs`) |

The `Example`s of `proofs/PlotsGenFacts.v` evaluate the GENERATED code (Qhull answered by `corners`) on the unit square,
on `x + y <= 3/2` listed `y` first (columns `[y; x]`, swapped), on `2y + x + z <= 3` with `z = 1`, on a satisfied and a
violated constant row and on the argument checks; the real library returns the same vertices in the same order up to
float noise of 1e-16.

## 5. Sensitivity experiment

Each row below is one edit of the Python source applied to a scratch copy of `/repo/src`; the translator is run into a
scratch copy of `coq/` and `proofs/PlotsGenFacts.vo` is rebuilt with `make -k` (every `coqc` under `timeout 600`).  A
*semantic* edit must be rejected by the translator (fail closed) or break an equality proof; a *harmless* rewrite must
still translate and prove.  The outcome names every theorem whose proof script stops compiling (with `make -k`, files
that depend on a broken file are not attempted) and says whether the generated text (sha line excluded) differs from
the one generated from the unmodified source.  M01, M02, M03 are the seeded changes C18 (`seeded/C18`), C18b
(`seeded/C18b-fallback-default-bounds`) and C18c (`seeded/C18c-tight-constant-rows-kept`), applied with `patch` exactly as
filed.  C18c translates and breaks `substitute_in_termlist_eq`.  C18 and C18b are written with constructs outside the
subset (a call whose result is discarded; a loop over a tuple of list literals and generator expressions) and are
rejected; M04 and M05 are the same two defects written inside the subset: they translate, change the generated text and
break `constraints_to_vertices_glue` (the swap) and `get_bounding_vertices_eq` (the primitive receives
`(Some 0, None)` as bounds and answers `OracleMiss`).

"""


def main(verif, repo, scratch, report=None, keep=False):
    if os.path.exists(scratch):
        shutil.rmtree(scratch)
    os.makedirs(scratch)
    coq = os.path.join(scratch, "coq")
    shutil.copytree(os.path.join(verif, "coq"), coq, ignore=shutil.ignore_patterns("cases"), copy_function=shutil.copy2)
    # copytree keeps mtimes of files (copy2), so `make` only rebuilds what the translator rewrites
    orig = open(os.path.join(repo, PLT)).read()
    rows = []
    baseline = {}

    def run(ident, kind, desc, pairs):
        tree = os.path.join(scratch, "repo")
        if os.path.exists(tree):
            shutil.rmtree(tree)
        shutil.copytree(os.path.join(repo, "src"), os.path.join(tree, "src"))
        if ident != "ORIG":
            if isinstance(pairs, str):                      # a seeded change, applied as its patch states it
                rc, out = sh(["patch", "-p1", "-i", os.path.join(verif, "seeded", pairs, "patch.diff")], cwd=tree)
                assert rc == 0, out
            else:
                with open(os.path.join(tree, PLT), "w") as fh:
                    fh.write(apply_edit(orig, ident, pairs))
            rc, out = sh([PY, "-c", f"import ast; ast.parse(open({os.path.join(tree, PLT)!r}).read())"])
            assert rc == 0, out
            assert open(os.path.join(tree, PLT)).read() != orig

        def gen_text():     # generated text without the sha256 line of the header
            return "".join(l for l in open(os.path.join(coq, "gen", GEN)) if "sha256" not in l)
        rc, out = sh([PY, os.path.join(verif, "translator", "py2coq.py"), tree, os.path.join(coq, "gen")])
        msg = [l for l in out.splitlines() if l.startswith(f"TRANSLATOR-UNSUPPORTED[{GEN}]")]
        other = [l for l in out.splitlines() if l.startswith("TRANSLATOR-UNSUPPORTED[") and not l.startswith(f"TRANSLATOR-UNSUPPORTED[{GEN}]")]
        if rc != 0:
            res = ("translator crashes", out.strip()[-240:])
            passed = None
        elif msg:
            # fail closed: the rejected output file is replaced by a stub that does not compile, so every
            # obligation that depends on it stops checking
            res = ("translator rejects", msg[0][:300])
            passed = False
        else:
            if ident == "ORIG":
                baseline[GEN] = gen_text()
            changed = gen_text() != baseline[GEN]
            rc2, log = sh(["make", "-k", "-j8", "COQC=timeout 600 coqc"] + TARGETS, cwd=coq)
            if rc2 == 0:
                res = ("translates; all equality proofs COMPILE", "")
                passed = True
            else:
                errs = all_errors(log)
                if errs:
                    names = [f"`{enclosing(os.path.join(coq, f), line)}` ({f}:{line})" for f, line, _ in errs]
                    res = ("translates; proof FAILS: " + ", ".join(names), errs[0][2])
                else:
                    res = ("translates; build FAILS", log.strip()[-200:])
                passed = False
            res = (res[0] + (" [generated text differs from the original's]" if changed else
                             " [generated text IDENTICAL to the original's]"), res[1])
        if other:
            res = (res[0] + f" (another generator also rejects: {other[0][:80]})", res[1])
        ok = (passed is not None and passed == (kind in ("harmless", "original")))
        rows.append((ident, kind, desc, res[0], res[1], ok))
        print(f"{ident} [{kind}] {desc}\n    -> {res[0]} {res[1]}\n    {'as expected' if ok else 'UNEXPECTED'}", flush=True)

    run("ORIG", "original", "unmodified /repo/src", None)
    for ident, kind, desc, pairs in EDITS:
        run(ident, kind, desc, pairs)
    run("ORIG", "original", "unmodified /repo/src again (after all edits)", None)
    bad = [r for r in rows if not r[5]]
    if report:
        with open(report, "w") as fh:
            fh.write(PREAMBLE)
            sem = [r for r in rows if r[1] == "semantic"]
            fh.write(f"Summary: {len(sem)} semantic edits — {sum('proof FAILS' in r[3] for r in sem)} break an equality "
                     f"proof, {sum('translator rejects' in r[3] for r in sem)} are rejected by the translator, "
                     f"{sum('COMPILE' in r[3] for r in sem)} pass unnoticed; "
                     f"{sum(r[1] == 'harmless' for r in rows)} harmless rewrites — "
                     f"{sum(r[1] == 'harmless' and 'COMPILE' in r[3] for r in rows)} still translate and prove.  "
                     f"Unexpected outcomes: {len(bad)}.\n\n")
            fh.write("| id | kind | edit | outcome | first error |\n|---|---|---|---|---|\n")
            for ident, kind, desc, res, err, ok in rows:
                fh.write(f"| {ident} | {kind} | {desc} | {res} | {err.replace('|', '/')} |\n")
    tree = os.path.join(scratch, "repo")
    if os.path.exists(tree):
        shutil.rmtree(tree)          # the scratch SOURCE tree is always removed
    if not keep:
        shutil.rmtree(scratch)
    print("unexpected outcomes:", len(bad))
    return 1 if bad else 0


if __name__ == "__main__":
    args = [a for a in sys.argv[1:] if a != "--keep"]
    sys.exit(main(*args, keep="--keep" in sys.argv))
