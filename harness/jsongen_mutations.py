#!/usr/bin/env python3
"""Sensitivity experiment for the translation of the JSON / dictionary side of pacti (translator/py2coq_json.py ->
gen/JsonGen.v) and of the equality proofs proofs/JsonGenValidate.v, JsonGenDict.v, JsonGenFile.v.

For each small edit of the Python source (applied to a scratch copy of the source tree, one at a time) the
translator is run into a scratch copy of the Coq tree and proofs/JsonGenFacts.vo is rebuilt (`make -k`, every coqc
under `timeout`).  Semantic edits must be rejected by the translator (fail closed: TRANSLATOR-UNSUPPORTED, the output
file is poisoned) or break a proof; harmless rewrites must pass.  Nothing outside the scratch directory is written
(except the report); the scratch source tree is always removed, the scratch directory unless --keep.

usage: jsongen_mutations.py <verif dir> <repo dir> <scratch dir> [report.md] [--keep]
"""
import os
import re
import shutil
import subprocess
import sys

PY = "/venv/bin/python"
SER = "src/pacti/terms/polyhedra/serializer.py"
PCF = "src/pacti/contracts/polyhedral_iocontract.py"
FIO = "src/pacti/utils/fileio.py"
POL = "src/pacti/terms/polyhedra/polyhedra.py"
TARGETS = ["proofs/JsonGenFacts.vo"]
GEN = "JsonGen.v"

TERM_COMP = ('PolyhedralTerm({Var(k): v for k, v in x["coefficients"].items()}, float(x["constant"]))\n'
             '                    for x in contract["guarantees"]\n')

# (id, kind, file, description, [(old text, new text), ...])   kind: "semantic" | "harmless"
EDITS = [
    ("M01", "semantic", SER, "validate_contract_dict: the per-keyword clause loop of the machine representation rewritten "
     "as ONE loop over zip(contract['assumptions'], contract['guarantees']) — clauses beyond the shorter list are "
     "never validated (seeded change C14b)",
     [("        elif machine_representation:\n            for index, clause in enumerate(value):\n"
       "                _check_clause(clause, f\"{contract_name}:{kw}{index}\")\n",
       "    if machine_representation:\n"
       "        clauses = zip(contract[\"assumptions\"], contract[\"guarantees\"])\n"
       "        for index, (assumption, guarantee) in enumerate(clauses):\n"
       "            _check_clause(assumption, f\"{contract_name}:assumptions{index}\")\n"
       "            _check_clause(guarantee, f\"{contract_name}:guarantees{index}\")\n")]),
    ("M02", "semantic", SER, "_is_number accepts bool (the `and not isinstance(value, bool)` conjunct dropped)",
     [("    return isinstance(value, (int, float)) and not isinstance(value, bool)\n",
       "    return isinstance(value, (int, float))\n")]),
    ("M03", "semantic", SER, "_check_clause does not check that `coefficients` is a dict",
     [("            if not isinstance(value, dict):\n"
       "                raise ContractFormatError(f'The \"{kw}\" in {clause_id} should be a dictionary')\n", "")]),
    ("M04", "semantic", SER, "validate_contract_dict: a required keyword (output_vars) dropped from the list",
     [("    keywords = [\"assumptions\", \"guarantees\", \"input_vars\", \"output_vars\"]\n",
       "    keywords = [\"assumptions\", \"guarantees\", \"input_vars\"]\n")]),
    ("M05", "semantic", SER, "validate_contract_dict: the kind check of the input_vars entries removed",
     [("                if not isinstance(str_item, str):\n",
       "                if kw != \"input_vars\" and not isinstance(str_item, str):\n")]),
    ("M06", "semantic", PCF, "from_dict reads the guarantees from contract['assumptions']",
     [(TERM_COMP, TERM_COMP.replace('contract["guarantees"]', 'contract["assumptions"]'))]),
    ("M07", "semantic", PCF, "to_machine_dict emits the float constants as strings",
     [("                \"constant\": float(term.constant),\n"
       "                \"coefficients\": {str(k): float(v) for k, v in term.variables.items()},\n"
       "            }\n            for term in self.g.terms\n",
       "                \"constant\": str(float(term.constant)),\n"
       "                \"coefficients\": {str(k): float(v) for k, v in term.variables.items()},\n"
       "            }\n            for term in self.g.terms\n")]),
    ("M08", "semantic", FIO, "read_contracts_from_file accepts an unknown `type` (the entry is skipped)",
     [("        else:\n            raise ValueError()\n\n    return contracts, names\n",
       "        else:\n            pass\n\n    return contracts, names\n")]),
    ("M09", "semantic", FIO, "read_contracts_from_file skips validation for the string representation",
     [("            polyhedra.serializer.validate_contract_dict(entry[\"data\"], entry[\"name\"], "
       "machine_representation=False)\n", "")]),
    ("M10", "semantic", FIO, "read_contracts_from_file: ContractFormatError replaced by ValueError (file is not a list)",
     [("        raise ContractFormatError(\"A contract file should contain a list of entries\")\n",
       "        raise ValueError(\"A contract file should contain a list of entries\")\n")]),
    ("M11", "semantic", PCF, "from_dict builds the output variables from contract['input_vars']",
     [("            output_vars=[Var(x) for x in contract[\"output_vars\"]],\n            assumptions=a,\n",
       "            output_vars=[Var(x) for x in contract[\"input_vars\"]],\n            assumptions=a,\n")]),
    ("M12", "semantic", SER, "validate_contract_dict: the `isinstance(value, list)` check dropped",
     [("        if not isinstance(value, list):\n"
       "            raise ContractFormatError(f'The \"{kw}\" in contract {contract_name} should be a list')\n", "")]),
    ("M13", "semantic", POL, "PolyhedralTerm.__init__ keeps zero coefficients (the `value != 0` test dropped)",
     [("            if value != 0:\n                if isinstance(key, str):\n"
       "                    raise ValueError(\"Unsupported argument type\")\n                else:\n"
       "                    variable_dict[key] = float(value)\n",
       "            if isinstance(key, str):\n                raise ValueError(\"Unsupported argument type\")\n"
       "            else:\n                variable_dict[key] = float(value)\n")]),
    ("M14", "semantic", FIO, "read_contracts_from_file: the shape loop does not check that `name` is a string",
     [("        if not isinstance(entry[\"name\"], str):\n"
       "            raise ContractFormatError(\"The name of a contract should be a string\")\n", "")]),
    ("M15", "semantic", FIO, "write_contracts_to_file tags machine entries with the string-representation type",
     [("                entry[\"type\"] = \"PolyhedralIoContract_machine\"\n",
       "                entry[\"type\"] = \"PolyhedralIoContract\"\n")]),
    ("M16", "semantic", PCF, "to_dict prints the assumptions under `guarantees`",
     [("        c_temp[\"guarantees\"] = self.g.to_str_list()\n", "        c_temp[\"guarantees\"] = self.a.to_str_list()\n")]),
    ("M17", "semantic", PCF, "from_dict ignores its simplify argument (always simplify=False)",
     [("            assumptions=a,\n            guarantees=g,\n            simplify=simplify,\n        )\n\n    def compose(",
       "            assumptions=a,\n            guarantees=g,\n            simplify=False,\n        )\n\n    def compose(")]),
    ("M18", "semantic", FIO, "read_contracts_from_file: the dispatch compares `name` instead of `type` for compound entries",
     [("        elif entry[\"type\"] == \"PolyhedralIoContractCompound\":\n",
       "        elif entry[\"name\"] == \"PolyhedralIoContractCompound\":\n")]),
    ("M19", "semantic", PCF, "PolyhedralIoContract.from_strings gets an extra required parameter (f(**data) binds differently)",
     [("        output_vars: List[str],\n        simplify: bool = True,\n    ) -> PolyhedralIoContract:\n",
       "        output_vars: List[str],\n        name: str,\n        simplify: bool = True,\n    ) -> PolyhedralIoContract:\n")]),
    ("M20", "semantic", SER, "_check_clause swallows errors of the coefficient loop in a try/except (outside the subset)",
     [("            for coefficient in value.values():\n                if not _is_number(coefficient):\n"
       "                    raise ContractFormatError(f'The \"{kw}\" in {clause_id} should be numbers')\n",
       "            try:\n                for coefficient in value.values():\n                    if not _is_number(coefficient):\n"
       "                        raise ContractFormatError(f'The \"{kw}\" in {clause_id} should be numbers')\n"
       "            except ContractFormatError:\n                pass\n")]),
    ("M21", "semantic", FIO, "read_contracts_from_file: the shape loop only looks at the FIRST entry",
     [("    for entry in file_data:\n        if not isinstance(entry, dict):\n",
       "    for entry in file_data[:1]:\n        if not isinstance(entry, dict):\n")]),
    ("M22", "semantic", SER, "validate_contract_dict removed (a listed function is missing)",
     [("def validate_contract_dict(  # noqa", "def validate_contract_dictionary(  # noqa")]),
    ("M23", "semantic", PCF, "from_dict: a non-dict argument is passed on instead of raising ValueError (falls through)",
     [("        if not isinstance(contract, dict):\n            raise ValueError(\"A dict type contract is expected.\")\n", "")]),
    ("M24", "semantic", PCF, "from_dict: the ValueError for a missing keyword replaced by KeyError (an exception class "
     "outside the table of kept error types)",
     [("                raise ValueError(f\"Passed dictionary does not have key {kw}.\")\n",
       "                raise KeyError(f\"Passed dictionary does not have key {kw}.\")\n")]),
    ("H01", "harmless", SER, "validate_contract_dict: locals renamed (kw -> keyword, value -> val, str_item -> s)", None),
    ("H02", "harmless", SER, "print(...) added in _check_clause and in validate_contract_dict",
     [("    keywords = [\"constant\", \"coefficients\"]\n", "    keywords = [\"constant\", \"coefficients\"]\n    print(clause_id)\n"),
      ("    str_list_kw = [\"input_vars\", \"output_vars\"]\n",
       "    str_list_kw = [\"input_vars\", \"output_vars\"]\n    print(f\"validating {contract_name}\")\n")]),
    ("H03", "harmless", SER, "_is_number written as an early return for bool followed by the int/float test",
     [("    return isinstance(value, (int, float)) and not isinstance(value, bool)\n",
       "    if isinstance(value, bool):\n        return False\n    return isinstance(value, (int, float))\n")]),
    ("H04", "harmless", PCF, "from_dict: keyword tuple written as a list, `kw not in contract` as `not (kw in contract)`",
     [("        for kw in (\"assumptions\", \"guarantees\", \"input_vars\", \"output_vars\"):\n            if kw not in contract:\n",
       "        for kw in [\"assumptions\", \"guarantees\", \"input_vars\", \"output_vars\"]:\n            if not (kw in contract):\n")]),
    ("H05", "harmless", PCF, "to_machine_dict: comprehension variables renamed (term -> t, k -> key, v -> coeff, x -> name)", None),
    ("H06", "harmless", FIO, "read_contracts_from_file: `if/elif/else` chain on the type written with nested else-if, "
     "shape keywords as a list",
     [("        for kw in (\"type\", \"name\", \"data\"):\n", "        for kw in [\"type\", \"name\", \"data\"]:\n"),
      ("        elif entry[\"type\"] == \"PolyhedralIoContract\":\n"
       "            polyhedra.serializer.validate_contract_dict(entry[\"data\"], entry[\"name\"], machine_representation=False)\n"
       "            contracts.append(PolyhedralIoContract.from_strings(**entry[\"data\"]))\n"
       "            names.append(entry[\"name\"])\n"
       "        elif entry[\"type\"] == \"PolyhedralIoContractCompound\":\n"
       "            contracts.append(PolyhedralIoContractCompound.from_strings(**entry[\"data\"]))\n"
       "            names.append(entry[\"name\"])\n"
       "        else:\n            raise ValueError()\n",
       "        else:\n"
       "            if entry[\"type\"] == \"PolyhedralIoContract\":\n"
       "                polyhedra.serializer.validate_contract_dict(entry[\"data\"], entry[\"name\"], machine_representation=False)\n"
       "                contracts.append(PolyhedralIoContract.from_strings(**entry[\"data\"]))\n"
       "                names.append(entry[\"name\"])\n"
       "            else:\n"
       "                if entry[\"type\"] == \"PolyhedralIoContractCompound\":\n"
       "                    contracts.append(PolyhedralIoContractCompound.from_strings(**entry[\"data\"]))\n"
       "                    names.append(entry[\"name\"])\n"
       "                else:\n                    raise ValueError()\n")]),
]


def sh(cmd, cwd=None, timeout=3600):
    p = subprocess.run(cmd, cwd=cwd, stdout=subprocess.PIPE, stderr=subprocess.STDOUT, text=True, timeout=timeout)
    return p.returncode, p.stdout


def segment(text, start, end):
    a = text.index(start)
    b = text.index(end, a)
    return a, b


def apply_edit(text, ident, pairs):
    if ident == "H01":
        a, b = segment(text, "def validate_contract_dict(", "def _is_number(")
        seg = text[a:b]
        for old, new in ((r"\bkw\b", "keyword"), (r"\bvalue\b", "val"), (r"\bstr_item\b", "s")):
            seg2 = re.sub(old, new, seg)
            assert seg2 != seg
            seg = seg2
        return text[:a] + seg + text[b:]
    if ident == "H05":
        a, b = segment(text, "    def to_machine_dict(", "    def to_dict(")
        seg = text[a:b]
        for old, new in ((r"\bterm\b", "t"), (r"\bk\b", "key"), (r"\bv\b", "coeff"), (r"\bx\b", "name")):
            seg2 = re.sub(old, new, seg)
            assert seg2 != seg
            seg = seg2
        return text[:a] + seg + text[b:]
    for old, new in pairs:
        assert text.count(old) == 1, (ident, old, text.count(old))
        text = text.replace(old, new, 1)
    return text


def all_errors(log):
    """[(file, line, message)] for every coqc error of a `make -k` log"""
    out = []
    for m in re.finditer(r'File "\./([^"]+)", line (\d+), characters [^\n]*\n(Error:.*?)(?=\nmake|\nFile "|\nCOQC|\Z)', log, re.S):
        msg = " ".join(m.group(3).split())
        k = re.search(r"Unable to unify|Impossible to unify|The term|Found no subterm|Tactic failure|No such|Cannot|Not an inductive|"
                      r"Wrong|Illegal|The reference|Unable to find|No matching|Not the right", msg)
        out.append((m.group(1), int(m.group(2)), ("Error: " + msg[k.start():] if k else msg)[:170]))
    return out


def enclosing(vfile, line):
    name = "?"
    for i, l in enumerate(open(vfile), 1):
        m = re.match(r"\s*(?:Theorem|Lemma|Corollary|Example|Definition|Fixpoint|Goal)\s*([\w']*)", l)
        if m:
            name = m.group(1) or "Goal"
        if i >= line:
            break
    return name


PREAMBLE = r"""# T1 for the JSON / dictionary side of pacti

Generated by `harness/jsongen_mutations.py`
(rerun: `/venv/bin/python harness/jsongen_mutations.py <verif> /repo <scratch> docs/JSONGEN_REPORT.md`).

## 1. What is translated

`translator/py2coq_json.py` (fourth generator, its own module; `py2coq.main` has one import line and one
`guard("JsonGen.v", ...)` line for it; class `JFn`, entry point `gen_json`) renders, from the current `/repo/src` on
every run, into `coq/gen/JsonGen.v`:

| source | functions | generated definitions |
|---|---|---|
| `src/pacti/terms/polyhedra/serializer.py` | `_is_number`, `_check_clause`, `validate_contract_dict` (machine AND string representation) | `serializer__is_number`, `serializer__check_clause`, `serializer_validate_contract_dict` |
| `src/pacti/terms/polyhedra/polyhedra.py` | `PolyhedralTerm.__init__` read over DYNAMICALLY typed arguments (what `from_dict` hands it); `PolyhedralTermList.__init__` shape-checked (stores `terms.copy()`), `to_str_list` signature-checked | `PolyhedralTerm_init_dyn` |
| `src/pacti/contracts/polyhedral_iocontract.py` | `PolyhedralIoContract.to_machine_dict`, `to_dict`, `from_dict`; the SIGNATURES of `PolyhedralIoContract.from_strings` and `PolyhedralIoContractCompound.from_strings` (parameter names and defaults, for `f(**data)`) | `PolyhedralIoContract_to_machine_dict`, `_to_dict`, `_from_dict` |
| `src/pacti/utils/fileio.py` | `read_contracts_from_file` after `json.load` (takes the loaded value), `write_contracts_to_file` before `json.dumps` (returns the value to dump) | `fileio_read_contracts_from_file`, `fileio_write_contracts_to_file` |

All nine listed functions are covered.  Parameters of the generated section (not translated, as in `model/Json.v`):
`s2f` (`float(s)` of a str), `pstr` (`str(x)` of a non-str, used by `Var(x)`), `contract_init` (`IoContract.__init__`,
translated in `gen/AlgebraGen.v`), `to_str_list` (the string printer, `model/Printer.v`), the two `from_strings` (string
parsing, `model/ParseAll.v`) and `PolyhedralIoContractCompound.to_dict`.

**Dynamic typing.**  Every expression gets a static type; `J` is a value whose Python type is only known at run time
and is rendered as the `json` inductive of `model/Json.v` (imported, not moved).  Each operation on a `J` is one named
primitive of the new vocabulary file `coq/base/PyJson.v`, defined by cases over `json` and raising, as
`Escape "<type>"`, what Python raises implicitly at that place:

| Python | primitive | raises |
|---|---|---|
| `isinstance(x, C)` / `isinstance(x, (C1, C2))` | `py_isinstance x [C1; C2]` over `pyclass = CDict/CList/CStr/CInt/CFloat/CBool`; a `JBool` IS an instance of `CInt` (bool is a subclass of int), so `_is_number` needs its `and not isinstance(value, bool)` | never |
| `x[k]` | `json_getitem` | `KeyError` (dict without `k`), `TypeError` (every non-dict) |
| `k in x` | `json_contains` (dict: key test, list: `==` membership, str: substring) | `TypeError` (None/bool/number) |
| `x.items()`, `.values()`, `.keys()` | `json_items`, `json_values`, `json_keys` | `AttributeError` |
| `for y in x`, comprehensions, `all(... for y in x)`, `enumerate(x)`, `zip(x, y)` | `json_iter` (= `Json.py_iter`) then `for_list_m` / `map` / `list_comp_m` / `py_all` / `enumerate` / `py_zip` | `TypeError` |
| `float(x)`, `Var(x)`, `x != 0`, `x == "lit"` | `json_float s2f`, `json_var pstr`, `json_ne_zero`, `json_eq_str` | `TypeError`/`ValueError`/`OverflowError` for `float` |
| `f(**x)` | `call_kwargs required optional x` then `kwarg` / `kwarg_default` per parameter, names and defaults READ from the callee's signature | `TypeError` |
| `{...}`, `d[k] = v`, `{key: value for ...}` | association lists, `sdict_set` (overwrite in place or append), `sdict_comp` | never |
| `l[i]`, `assert b` | `list_getitem`, `py_assert` | `IndexError`, `AssertionError` |
| statically known values used where a `J` is expected | boxing `jstr` / `jfloat` / `jbool` / `jlist` / `jstrs` / `jdict` | never |
| `isinstance(c, PolyhedralIoContract)` / `... Compound` on an element of `List[IoContract]` | `match` on `any_contract K` (`APoly` / `ACompound` / `AOther`) | never |

Whether a function is monadic is INFERRED from its body.  Fail closed (`TRANSLATOR-UNSUPPORTED[JsonGen.v]: ...`; the
output file is replaced by a stub that does not compile, so every obligation that depends on it stops checking) on
any construct outside the subset (`try`, `while`, slices, lambdas, `global`, nested functions, unknown calls, ...), on
a missing or doubly defined listed function, on unexpected decorators / signatures / annotations, on a changed import
of a name the translation gives a meaning to, on a module-level or local rebinding of such a name or of a builtin
used (`isinstance`, `float`, `str`, `all`, `enumerate`, `zip`, `len`, `print`, ...), on an exception class outside the table, on an
in-place update (`+=`, `append`, `d[k] = v`) of an object that is not provably local and unaliased, on a second use
of a `zip` object, on a `PolyhedralIoContract.__init__` / `__new__` (the constructor would no longer be
`IoContract.__init__`), on a changed `Var` class, `PolyhedralTermList.__init__` or I/O prologue / epilogue of
`fileio.py`.  Output is deterministic.

## 2. Equality theorems (all closed under the global context)

| file | theorem | statement | precondition |
|---|---|---|---|
| proofs/JsonGenValidate.v | `is_number_eq` | `serializer__is_number v = is_number v` | none |
| | `check_clause_eq` | `serializer__check_clause x = check_clause x` | none |
| | `validate_contract_dict_eq` | `serializer_validate_contract_dict d machine = validate_contract_dict d machine` (both representations) | none |
| proofs/JsonGenDict.v | `to_dict_eq` | `PolyhedralIoContract_to_dict tsl c = to_dict tsl c` | none |
| | `to_machine_dict_eq` | `PolyhedralIoContract_to_machine_dict c = to_machine_dict c` | `Forall distinct_vars (pa c)`, `Forall distinct_vars (pg c)` (`distinct_vars t := NoDup (keys (tvars t))`) |
| | `term_init_dyn_eq` | `PolyhedralTerm_init_dyn s2f coefs (jfloat q) = vs <- coef_loop s2f coefs ;; ret (mkT vs q)` | `NoDup (skeys coefs)` |
| | `from_dict_eq` | `PolyhedralIoContract_from_dict s2f pstr init d sp = from_dict s2f pstr d` | `json_wf d`; `forall a g i o, init a g i o sp = pc_init a g i o` |
| proofs/JsonGenFile.v | `read_file_eq` | `mmap pair_up (fileio_read_contracts_from_file s2f pstr init strings_boundary compound_boundary f) = read_file s2f pstr f` | `json_wf f`; `forall a g i o, init a g i o true = pc_init a g i o` |
| | `write_machine_eq` | `fileio_write_contracts_to_file tsl ktd (map (fun p => APoly (snd p)) cs) (map fst cs) true = ret (write_file_machine cs)` | `distinct_vars_c` of every contract |
| | `write_strings_eq` | `... (map (fun p => APoly (snd p)) cs) (map fst cs) false = ret (JList (map (fun p => write_entry_strings tsl (fst p) (snd p)) cs))` | none |
| | `write_length_mismatch`, `write_unsupported_class`, `write_compound_machine`, `write_compound_strings` | the paths of the writer that have no hand model (characterisation: `AssertionError`, `ValueError`, the compound entry) | |

All equalities are pointwise equalities of monadic results: values AND which exception is raised where (e.g.
`KeyError` of `x["coefficients"]` before `AttributeError` of `.items()` before `TypeError`/`ValueError`/`OverflowError`
of `float(x["constant"])` before those of the coefficients; the shape loop of the reader over ALL entries before the
first entry is loaded).  `strings_boundary a g i o s := ret (LStrings (strs_of a) (strs_of g) (strs_of i) (strs_of o)
(py_truth s))` and `compound_boundary a g i o := ret (LCompound a g i o)` are what `model/Json.v` keeps of the two
`from_strings` calls; `pair_up (cs, ns) := combine (map str_of ns) cs` turns the returned pair of lists into the
model's list of pairs.  `proofs/JsonGenBase.v` holds the monad laws, the loop "shape" lemmas (`loop_forM`,
`loop_enum_forM`: they quantify over the loop body and ask for its behaviour pointwise, so the proofs do not depend on
generated names or let-structure) and the dict lemmas (`sdict_set_fresh`, `sdict_comp_map`); `proofs/JsonGenFacts.v`
restates the ten obligations and prints their assumptions.

**Why the preconditions, each with an `Example`.**
* distinct keys (`json_wf`, `distinct_vars`, `NoDup (skeys coefs)`): `model/Json.v` maps over association lists
  (`coef_loop` conses, `term_to_json` maps) where the Python builds a dict (`variable_dict[key] = float(value)`,
  `{str(k): float(v) for ...}`, `{Var(k): v for ...}`), which overwrites a repeated key.  A Python dict has pairwise
  distinct keys and `json.load` never returns a repeated key (`json_wf` is "what json.load guarantees" in Json.v), so
  no Python input is excluded: an association list with a repeated key denotes no dict.  `Example`s:
  `to_machine_dict_needs_distinct_keys`, `term_init_dyn_needs_distinct_keys`, `from_dict_needs_wf`.
* `init ... sp = pc_init ...`: the hand model has no `simplify` flag (`LMachine` is documented as "from_dict(data,
  simplify=False); the caller composes with the simplifier"), whereas the code passes `simplify` (default `True`, and
  `read_contracts_from_file` uses the default) to `IoContract.__init__`.  The equalities hold for every constructor
  that performs the five interface checks and the copies of `pc_init` for the flag in question (`fun a g i o _ =>
  pc_init a g i o` is one: `from_dict_eq_checks_only`, `read_file_eq_checks_only`); what `IoContract.__init__` does with
  `simplify=True` is `gen/AlgebraGen.v`'s business.  Mutation M17 shows the flag is not ignored by the proofs.

## 3. Python semantics that are approximated (each is also an `assumption:` line of the translator)

* NaN / Infinity / signed zeros / rounding of arithmetic are outside `json` (as in `model/Json.v`); a finite float is the
  rational it denotes; `float(s)` of a str and `str(x)` of a non-str are parameters;
* a dict is an association list in insertion order; `d[k] = v` and comprehensions overwrite the first binding in place;
* objects are values: `PolyhedralTermList(l)` is `l` (checked: `__init__` stores `terms.copy()` when every element is a
  `PolyhedralTerm`), a `Var` is its name (checked: `Var.__init__/__str__/__eq__/__hash__`), in-place updates of local
  fresh objects are rebindings (ownership checked syntactically);
* a `zip` object is the list of pairs (checked: bound once at top level, iterated once);
* `print`, `logging.*`, docstrings ignored; exception messages dropped after checking they are constants / f-strings
  over bound names (no format specification), exception TYPES kept; `str`-annotated parameters that only occur in
  messages (`contract_name`, `clause_id`) are dropped from the signature — the argument expressions are still evaluated
  when they may raise (`entry["name"]`);
* `List[Any]` of the reader is the sum type `loaded` of `model/Json.v` (`LMachine` injects a PolyhedralIoContract);
  `List[IoContract]` of the writer is `list (any_contract K)`; the `isinstance` chain on the class is a `match`
  (checked: neither class derives from the other);
* the file system, `os.path.isfile` (and its `ValueError`), `open`, `json.load`, `json.dumps` are the boundary: the
  translator checks the exact shape of the I/O prologue / epilogue and translates what lies between.

## 4. Discrepancies between `model/Json.v` and the Python source

None on any value `json.load` can return: every translated function is EQUAL to its hand model for every well-formed
(`json_wf`) input, error kinds included, and the validator, `to_dict` and the string writer on EVERY input.  Outside
`json_wf` (association lists with a repeated key, which denote no Python dict) the generated code and the hand model
differ as the three `Example`s show; that is the documented convention of `model/Json.v`, not a defect.  Two helper
definitions of the hand model raise a different implicit exception than the Python would in branches the model itself
marks "unreachable" (`build_term` on a non-dict: `AttributeError`, Python's `x["coefficients"]` gives `TypeError`;
`load_entry` on an entry without `name`/`data`: `KeyError` before looking at the type): the equalities are stated for
the enclosing functions (`from_dict`, `read_file`), where these branches are indeed unreachable, and hold without
excluding any input.

The implicit-exception table of `base/PyJson.v` and the order in which one clause of `from_dict` raises were re-checked
on the real library (`PYTHONPATH=/repo/src /venv/bin/python`, `pacti.__file__` under `/repo/src`): `x["k"]` on
None/bool/int/float/str/list is `TypeError`; `"k" in x` is `TypeError` on None/bool/int/float and a membership /
substring test on list / str; `.items()` on a non-dict is `AttributeError`; a clause without `coefficients` gives
`KeyError`, with `coefficients: 3` `AttributeError`, with `constant: None` and a bad coefficient `TypeError` (the
constant is converted first), `constant: "abc"` `ValueError`; `assumptions: None` `TypeError`; a `True` constant and a
malformed clause beyond the shorter list are rejected by the validator; an unknown key / a non-mapping in
`from_strings(**data)` is `TypeError`.  The same inputs are evaluated on the GENERATED code in
`proofs/JsonGenFacts.v` (`gen_KeyError` ... `gen_validate_beyond_shorter_list`) with the same outcomes.

## 5. Sensitivity experiment

Each row below is one edit of the Python source applied to a scratch copy of `/repo/src`; the translator is run into
a scratch copy of `coq/` and `proofs/JsonGenFacts.vo` is rebuilt with `make -k` (every `coqc` under `timeout 600`).
A *semantic* edit must be rejected by the translator (fail closed) or break an equality proof; a *harmless* rewrite
must still translate and prove.  The outcome names every theorem whose proof script stops compiling (with `make -k`,
files that depend on a broken file are not attempted) and says whether the generated text (sha line excluded)
differs from the one generated from the unmodified source.  M01 is the seeded change C14b (`zip`).

"""


def main(verif, repo, scratch, report=None, keep=False):
    if os.path.exists(scratch):
        shutil.rmtree(scratch)
    os.makedirs(scratch)
    coq = os.path.join(scratch, "coq")
    shutil.copytree(os.path.join(verif, "coq"), coq, ignore=shutil.ignore_patterns("cases"), copy_function=shutil.copy2)
    # copytree keeps mtimes of files (copy2), so `make` only rebuilds what the translator rewrites
    orig = {rel: open(os.path.join(repo, rel)).read() for rel in (SER, PCF, FIO, POL)}
    rows = []
    baseline = {}

    def run(ident, kind, rel, desc, pairs):
        tree = os.path.join(scratch, "repo")
        if os.path.exists(tree):
            shutil.rmtree(tree)
        shutil.copytree(os.path.join(repo, "src"), os.path.join(tree, "src"))
        if ident != "ORIG":
            text = apply_edit(orig[rel], ident, pairs)
            with open(os.path.join(tree, rel), "w") as fh:
                fh.write(text)
            rc, out = sh([PY, "-c", f"import ast; ast.parse(open({os.path.join(tree, rel)!r}).read())"])
            assert rc == 0, out

        def gen_text():     # generated text without the sha256 line of the header
            return "".join(l for l in open(os.path.join(coq, "gen", GEN)) if "sha256" not in l)
        rc, out = sh([PY, os.path.join(verif, "translator", "py2coq.py"), tree, os.path.join(coq, "gen")])
        msg = [l for l in out.splitlines() if l.startswith(f"TRANSLATOR-UNSUPPORTED[{GEN}]")]
        if rc != 0:
            res = ("translator crashes", out.strip()[-240:])
            passed = None
        elif msg:
            # fail closed: the rejected output file is replaced by a stub that does not compile, so every
            # obligation that depends on it stops checking
            res = ("translator rejects", msg[0][:260])
            passed = False
        else:
            if ident == "ORIG":
                baseline[GEN] = gen_text()
            changed = gen_text() != baseline[GEN]
            rc2, log = sh(["make", "-k", "-j8", "COQC=timeout 600 coqc"] + TARGETS, cwd=coq)
            if rc2 == 0:
                res = ("translates; all equality proofs COMPILE", "")
                passed = True
            else:
                errs = all_errors(log)
                if errs:
                    names = [f"`{enclosing(os.path.join(coq, f), line)}` ({f}:{line})" for f, line, _ in errs]
                    res = ("translates; proof FAILS: " + ", ".join(names), errs[0][2])
                else:
                    res = ("translates; build FAILS", log.strip()[-200:])
                passed = False
            res = (res[0] + (" [generated text differs from the original's]" if changed else
                             " [generated text IDENTICAL to the original's]"), res[1])
        ok = (passed is not None and passed == (kind in ("harmless", "original")))
        rows.append((ident, kind, os.path.basename(rel) if rel else "", desc, res[0], res[1], ok))
        print(f"{ident} [{kind}] {desc}\n    -> {res[0]} {res[1]}\n    {'as expected' if ok else 'UNEXPECTED'}", flush=True)

    run("ORIG", "original", None, "unmodified /repo/src", None)
    for ident, kind, rel, desc, pairs in EDITS:
        run(ident, kind, rel, desc, pairs)
    run("ORIG", "original", None, "unmodified /repo/src again (after all edits)", None)
    bad = [r for r in rows if not r[6]]
    if report:
        with open(report, "w") as fh:
            fh.write(PREAMBLE)
            sem = [r for r in rows if r[1] == "semantic"]
            fh.write(f"Summary: {len(sem)} semantic edits — {sum('proof FAILS' in r[4] for r in sem)} break an equality "
                     f"proof, {sum('translator rejects' in r[4] for r in sem)} are rejected by the translator, "
                     f"{sum('COMPILE' in r[4] for r in sem)} pass unnoticed; "
                     f"{sum(r[1] == 'harmless' for r in rows)} harmless rewrites — "
                     f"{sum(r[1] == 'harmless' and 'COMPILE' in r[4] for r in rows)} still translate and prove.  "
                     f"Unexpected outcomes: {len(bad)}.\n\n")
            fh.write("| id | kind | file | edit | outcome | first error |\n|---|---|---|---|---|---|\n")
            for ident, kind, rel, desc, res, err, ok in rows:
                fh.write(f"| {ident} | {kind} | {rel} | {desc} | {res} | {err.replace('|', '/')} |\n")
    tree = os.path.join(scratch, "repo")
    if os.path.exists(tree):
        shutil.rmtree(tree)          # the scratch SOURCE tree is always removed
    if not keep:
        shutil.rmtree(scratch)
    print("unexpected outcomes:", len(bad))
    return 1 if bad else 0


if __name__ == "__main__":
    args = [a for a in sys.argv[1:] if a != "--keep"]
    sys.exit(main(*args, keep="--keep" in sys.argv))
