#!/usr/bin/env python3
"""Sensitivity experiment for the translation of the LP / numpy functions of polyhedra.py
(translator/py2coq_poly.py -> gen/PolyGen.v) and of the equality proofs proofs/PolyGen*.v.

For each small edit of src/pacti/terms/polyhedra/polyhedra.py (applied to a scratch copy of the source tree, one at a
time) the translator is run into a scratch copy of the Coq tree and proofs/PolyGenFacts.vo (which requires every group
file) is rebuilt with `make -k` (every coqc under `timeout`).  Semantic edits must be rejected by the translator (fail
closed: TRANSLATOR-UNSUPPORTED[PolyGen.v], the output file is poisoned) or break an equality proof; harmless rewrites
must pass.  Nothing outside the scratch directory is written (except the report); the scratch SOURCE tree is always
removed at the end.

usage: lpgen_mutations.py <verif dir> <repo dir> <scratch dir> [report.md] [--keep] [--only ID,ID,...]
"""
import os
import re
import shutil
import subprocess
import sys

PY = "/venv/bin/python"
REL = "src/pacti/terms/polyhedra/polyhedra.py"
TARGETS = ["proofs/PolyGenFacts.vo"]

LOOP_HEAD = '''        i = 0
        a_temp = np.copy(a)
        b_temp = np.copy(b)
        while i < n:
'''
# seeded C07b, rewritten inside the translated subset: rows that coincide with a context row once both are divided
# by their leading coefficient are dropped before the loop
PREPASS = '''        i = 0
        a_temp = np.copy(a)
        b_temp = np.copy(b)
        if helper_present and m > 0:
            keep = []
            for k in range(n):
                own = list(a_temp[k])
                lead = own[0]
                dup = False
                for j in range(n_h):
                    ctx_row = list(a_help[j])
                    ctx_lead = ctx_row[0]
                    if (
                        lead != 0
                        and ctx_lead != 0
                        and np.array_equal(a_temp[k, :] / lead, a_help[j, :] / ctx_lead)
                        and b_temp[k] / lead == b_help[j] / ctx_lead
                    ):
                        dup = True
                if not dup:
                    keep.append(k)
            a_temp = a_temp[keep]
            b_temp = b_temp[keep]
            n = len(keep)
        while i < n:
'''
# seeded C07b verbatim
PREPASS_SEEDED = '''        i = 0
        a_temp = np.copy(a)
        b_temp = np.copy(b)
        if helper_present and m > 0:
            ctx_rows = PolyhedralTermList._unit_leading_rows(a_help, b_help)
            own_rows = PolyhedralTermList._unit_leading_rows(a_temp, b_temp)
            in_context = np.array([np.any(np.all(ctx_rows == row, axis=1)) for row in own_rows])
            a_temp = a_temp[~in_context]
            b_temp = b_temp[~in_context]
            n = len(b_temp)
        while i < n:
'''
UNIT_ROWS = '''    @staticmethod
    def _unit_leading_rows(matrix: np.ndarray, vector: np.ndarray) -> np.ndarray:
        lead = matrix[np.arange(matrix.shape[0]), np.argmax(matrix != 0, axis=1)]
        lead = np.where(lead == 0, 1.0, lead)
        return np.column_stack((matrix, vector)) / lead[:, np.newaxis]

    @staticmethod
    def verify_polytope_containment(  # noqa: WPS231
'''
NOISE_OLD = '''            n, m = matrix.shape
            assert m == len(variables)
'''
# seeded C08c verbatim
NOISE_NEW = '''            n, m = matrix.shape
            assert m == len(variables)
            if matrix.size > 0:
                noise = REFINEMENT_TOLERANCE * np.abs(matrix).max()
                matrix = np.where(np.abs(matrix) > noise, matrix, 0)
'''
DEGEN_OLD = '''        elif len(b_help) > 0:
            # context rows without any variable are constant inequalities 0 <= b_help[i] (a tactic can leave one behind):
            # a false one makes the system unsatisfiable, the others say nothing
            if np.any(b_help < 0):
                raise ValueError("The constraints are unsatisfiable")
            b_help = np.array([])
'''
DEGEN_ASSERT = '''        else:
            assert len(b_help) == 0
'''
DEDUP_OLD = '''        assert n == len(b)
        objective = np.zeros((1, m))
'''
# seeded C11c verbatim
DEDUP_SEEDED = '''        assert n == len(b)
        a, keep = np.unique(a, axis=0, return_index=True)
        b = np.asarray(b)[keep]
        objective = np.zeros((1, m))
'''
# ... and inside the translated subset: repeated rows are handed to the solver once, with the FIRST bound
DEDUP_LOOP = '''        assert n == len(b)
        keep = []
        for k in range(n):
            seen = False
            for j in range(k):
                if np.array_equal(a[k, :], a[j, :]):
                    seen = True
            if not seen:
                keep.append(k)
        a = a[keep]
        b = b[keep]
        objective = np.zeros((1, m))
'''
VACUOUS_OLD1 = '''        if PolyhedralTermList.is_polytope_empty(a_l, b_l):
            return True
        # If the RHS is empty, but not the LHS, not a refinement
        if PolyhedralTermList.is_polytope_empty(a_r, b_r):
            return False
'''
VACUOUS_NEW1 = '''        if PolyhedralTermList.is_polytope_empty(a_r, b_r):
            return PolyhedralTermList.is_polytope_empty(a_l, b_l)
'''
VACUOUS_OLD2 = '''            if res["status"] == 2:
                is_refinement = False
                break
            else:
                if -res["fun"] <= b_temp'''
VACUOUS_NEW2 = '''            if res["status"] == 2:
                break
            else:
                if -res["fun"] <= b_temp'''
REFINES_OLD = '''        variables, self_mat, self_cons, ctx_mat, ctx_cons = PolyhedralTermList.termlist_to_polytope(  # noqa: WPS236
            self, other
        )
'''
# seeded C03c verbatim
REFINES_NEW = '''        relevant = self.get_terms_with_vars(other.vars)
        if relevant.lacks_constraints():
            return self.is_empty()
        variables, self_mat, self_cons, ctx_mat, ctx_cons = PolyhedralTermList.termlist_to_polytope(  # noqa: WPS236
            relevant, other
        )
'''
CONCAT_OLD = '''                a_opt = np.concatenate((a_temp, a_help), axis=0)
                b_opt = np.concatenate((b_temp, b_help))
'''
CONCAT_NEW = '''                a_opt = a_temp
                b_opt = b_temp
'''
REFINES_ORDER_OLD = '''        if other.lacks_constraints():
            return True
        if self.lacks_constraints():
            return False
'''
REFINES_ORDER_NEW = '''        if self.lacks_constraints():
            return False
        if other.lacks_constraints():
            return True
'''
AH_OLD = '''        if len(context.terms) == 0:
            a_h_ret = np.array([[]])
        else:
            a_h_ret = np.array(a_h)
'''
AH_NEW = '''        a_h_ret = np.array(a_h)
'''
ASSERTS_OLD = '''        assert n_l == len(b_l)
        assert n_r == len(b_r)
'''
ASSERTS_NEW = '''        assert n_r == len(b_r)
        assert n_l == len(b_l)
'''

# (id, kind, description, [(old text, new text), ...])   kind: "semantic" | "harmless"
EDITS = [
    ("S1", "semantic", "reduce_polytope: pre-pass dropping rows equal to a context row after dividing by the leading "
     "coefficient (seeded change C07b, rewritten inside the translated subset)", [(LOOP_HEAD, PREPASS)]),
    ("S1v", "semantic", "reduce_polytope: seeded change C07b verbatim (new helper _unit_leading_rows, boolean masks)",
     [(LOOP_HEAD, PREPASS_SEEDED),
      ("    @staticmethod\n    def verify_polytope_containment(  # noqa: WPS231\n", UNIT_ROWS)]),
    ("S2", "semantic", "polytope_to_termlist: \"noise clean-up\" zeroing entries below 1e-8 * max|entry| (seeded change C08c "
     "verbatim)", [(NOISE_OLD, NOISE_NEW)]),
    ("S3a", "semantic", "reduce_polytope: the handling of constant context rows replaced by the old `assert len(b_help) == 0` "
     "(the D11 defect)", [(DEGEN_OLD, DEGEN_ASSERT)]),
    ("S3b", "semantic", "reduce_polytope: constant context rows: `np.any(b_help <= 0)` (a true row 0 <= 0 raises)",
     [("            if np.any(b_help < 0):\n", "            if np.any(b_help <= 0):\n")]),
    ("S3c", "semantic", "reduce_polytope: constant context rows are checked but not dropped (`b_help = np.array([])` removed)",
     [("                raise ValueError(\"The constraints are unsatisfiable\")\n            b_help = np.array([])\n",
       "                raise ValueError(\"The constraints are unsatisfiable\")\n")]),
    ("S4", "semantic", "is_polytope_empty: rows de-duplicated by coefficients, the first bound kept (seeded change C11c, "
     "rewritten as a loop inside the translated subset)", [(DEDUP_OLD, DEDUP_LOOP)]),
    ("S4v", "semantic", "is_polytope_empty: seeded change C11c verbatim (np.unique(..., return_index=True))",
     [(DEDUP_OLD, DEDUP_SEEDED)]),
    ("S5", "semantic", "verify_polytope_containment: an infeasible LP is answered \"contained\" (seeded change C03 verbatim)",
     [(VACUOUS_OLD1, VACUOUS_NEW1), (VACUOUS_OLD2, VACUOUS_NEW2)]),
    ("S6", "semantic", "refines: only the left-hand terms sharing a variable with the right side take part (seeded change "
     "C03c verbatim)", [(REFINES_OLD, REFINES_NEW)]),
    ("A1", "semantic", "reduce_polytope: `b_temp[i] += 1` without the matching `b_temp[i] -= 1`",
     [("            b_temp[i] -= 1\n", "")]),
    ("A2", "semantic", "reduce_polytope: redundancy test `<` for `<=`",
     [('res["status"] == 0 and -res["fun"] <= b_temp[i])', 'res["status"] == 0 and -res["fun"] < b_temp[i])')]),
    ("A3", "semantic", "reduce_polytope: deletes row i + 1 of the matrix",
     [("                a_temp = np.delete(a_temp, i, 0)\n", "                a_temp = np.delete(a_temp, i + 1, 0)\n")]),
    ("A4", "semantic", "reduce_polytope: status 3 (unbounded) no longer makes the row removable",
     [('            if res["status"] == 3 or (res["status"] == 0 and -res["fun"] <= b_temp[i]):  # noqa: WPS309\n',
       '            if res["status"] == 0 and -res["fun"] <= b_temp[i]:  # noqa: WPS309\n')]),
    ("A5", "semantic", "verify_polytope_containment: comparison without REFINEMENT_TOLERANCE",
     [('                if -res["fun"] <= b_temp + REFINEMENT_TOLERANCE * (1 + abs(b_temp)):  # noqa: WPS309\n',
       '                if -res["fun"] <= b_temp:  # noqa: WPS309\n')]),
    ("A6", "semantic", "is_polytope_empty: True on status 3 as well",
     [('        if res["status"] == 2:\n            return True\n        elif res["status"] in {0, 3}:\n',
       '        if res["status"] in {2, 3}:\n            return True\n        elif res["status"] in {0}:\n')]),
    ("A7", "semantic", "optimize: a value (0.0) instead of None on status 3",
     [('        if res["status"] == 3:\n            return None\n', '        if res["status"] == 3:\n            return 0.0\n')]),
    ("A8", "semantic", "reduce_polytope: the context rows are not concatenated to the LP", [(CONCAT_OLD, CONCAT_NEW)]),
    ("A9", "semantic", "reduce_polytope: objective sign flipped",
     [("            objective = a_temp[i, :] * -1\n", "            objective = a_temp[i, :] * 1\n")]),
    ("A10", "semantic", "polytope_to_term: coefficients paired with the variables in reverse order",
     [("            variable_dict[var] = poly[i]\n", "            variable_dict[var] = poly[len(poly) - 1 - i]\n")]),
    ("A11", "semantic", "optimize: polarity inverted (`if not maximize`)",
     [("        if maximize:\n            polarity = -1\n", "        if not maximize:\n            polarity = -1\n")]),
    ("A12", "semantic", "refines: the two early returns swapped ([] refines [] becomes False)",
     [(REFINES_ORDER_OLD, REFINES_ORDER_NEW)]),
    ("A13", "semantic", "termlist_to_polytope: no `np.array([[]])` for an empty context (shape (0,) instead of (1, 0))",
     [(AH_OLD, AH_NEW)]),
    ("A14", "semantic", "verify_polytope_containment: the bound of the tested row is not relaxed by 1",
     [("            b_temp = b_r[i] + 1\n", "            b_temp = b_r[i] + 0\n")]),
    ("A15", "semantic", "simplify: the context terms are not removed from self first",
     [("            new_self = self - context\n", "            new_self = self\n")]),
    ("A16", "semantic", "reduce_polytope: an infeasible LP (status 2) no longer raises",
     [('            if res["status"] == 2:\n                raise ValueError("The constraints are unsatisfiable")\n\n        return a_temp, b_temp\n',
       '\n        return a_temp, b_temp\n')]),
    ("A17", "semantic", "reduce_polytope: works on the parameter itself (`b_temp = b`): the in-place += mutates the caller's array",
     [("        b_temp = np.copy(b)\n", "        b_temp = b\n")]),
    ("A18", "semantic", "is_empty: the emptiness LP gets the constants of the wrong list (context constants)",
     [("        _, self_mat, self_cons, _, _ = PolyhedralTermList.termlist_to_polytope(  # noqa: WPS236\n            self, PolyhedralTermList([])\n        )\n",
       "        _, self_mat, _, _, self_cons = PolyhedralTermList.termlist_to_polytope(  # noqa: WPS236\n            self, PolyhedralTermList([])\n        )\n")]),
    ("A19", "semantic", "optimize: status 2 answers None without deciding emptiness",
     [('        elif res["status"] == 2 and not self.is_empty():\n', '        elif res["status"] == 2:\n')]),
    ("H1", "harmless", "reduce_polytope: locals renamed (a_temp -> amat, b_temp -> bvec, objective -> obj_row)", []),
    ("H2", "harmless", "reduce_polytope: `helper_present = 0 < n_h * m_h`; extra logging",
     [("        helper_present = n_h * m_h > 0\n",
       "        helper_present = 0 < n_h * m_h\n        logging.debug(\"helper present: %s\", helper_present)\n")]),
    ("H3", "harmless", "is_polytope_empty: `res[\"status\"] == 0 or res[\"status\"] == 3` for `in {0, 3}`",
     [('        elif res["status"] in {0, 3}:\n', '        elif res["status"] == 0 or res["status"] == 3:\n')]),
    ("H4", "harmless", "is_empty: `PolyhedralTermList()` for `PolyhedralTermList([])`",
     [("            self, PolyhedralTermList([])\n", "            self, PolyhedralTermList()\n")]),
    ("H5", "harmless", "verify_polytope_containment: the two length asserts swapped", [(ASSERTS_OLD, ASSERTS_NEW)]),
]

PREAMBLE = r"""# T1 for the LP / numpy functions of `polyhedra.py`

Generated by `harness/lpgen_mutations.py`
(rerun: `/venv/bin/python harness/lpgen_mutations.py <verif> /repo <scratch> docs/LPGEN_REPORT.md`).

## 1. What is translated

`translator/py2coq_poly.py` (a new generator module; `py2coq.main` has one import line and one `guard("PolyGen.v", ...)`
line for it; it imports helpers from `py2coq.py` and `py2coq_termlist.py` and has its own statement / expression
translator, class `PFn`) renders, from the current `/repo/src` on every run, into `coq/gen/PolyGen.v`:

* `PolyhedralTerm.term_to_polytope`, `PolyhedralTerm.polytope_to_term` (static);
* `TermList.__sub__` (inherited, `self - context` in `simplify`; checked: not overridden, `type(self)(...)` is
  `PolyhedralTermList.__init__`);
* `PolyhedralTermList.termlist_to_polytope`, `polytope_to_termlist`, `reduce_polytope`, `simplify`, `is_polytope_empty`,
  `is_empty`, `verify_polytope_containment`, `refines`, `optimize`.

Called, not re-translated: the `PolyhedralTerm` methods of `gen/TermGen.v` (`get_coefficient`, `__init__`, `__eq__`, `vars`)
and `PolyhedralTermList.__init__ / vars / copy / lacks_constraints / get_terms_with_vars` of `gen/TermListGen.v` (their
generated signatures are re-read and checked on every run).  So `gen/PolyGen.v` imports `gen/TermListGen.v`: a source that
poisons `TermListGen.v` also stops the `PolyGen` obligations (coupling accepted to reuse `termlist_vars_eq` ...).

New vocabulary file `coq/base/PyNumpy.v` (hand-written, stable).  An array is its shape and its entries:
`A1 v` (1-D, shape `(len v,)`) or `A2 m rows` (2-D, shape `(len rows, m)`; the column count is kept because numpy keeps it
when there is no row: `np.array([[]])` is `A2 0 [[]]` (shape (1, 0)), deleting the only row of a `(1, m)` array gives
`A2 m []`, whereas `np.array([])` is `A1 []`).  One NAMED primitive per numpy construct:
`np_array_1d` / `np_array_2d` (ragged rows: ValueError; `[]` gives the 1-D empty array), `np_zeros_2d`, `np_copy`, `np_shape`,
`np_len`, `np_size`, `py_unpack2` (`n, m = a.shape`: ValueError unless two components), `np_row` (`a[i, :]`), `np_rows`
(`a[[i], :]`), `np_item` / `np_index_arr` / `np_row_list` (`a[i]` where a float / an array / `list(a[i])` is wanted), `np_take`,
`np_setitem`, `np_delete_axis0` (`np.delete(a, i, 0)`), `np_delete_flat` (`np.delete(a, i)`), `np_concatenate`, `np_scale`
(`a * k`), `np_add_scalar`, `np_sub_scalar`, `np_div_scalar`, `np_neg`, `np_abs`, `np_max`, `np_lt` ... `np_ne`, `np_any`,
`np_all`, `np_invert`, `np_isclose` / `np_isclose_arr` (default tolerances, the doubles exactly), `np_array_equal`,
`np_where`; `py_nat_sub` (`n -= 1` on a count), `while_m` (a `while` with explicit fuel) and the record `lp_result`
(`res_status`, `res_fun`, `res_x`, `res_slack`).  `scipy.optimize.linprog(c=, A_ub=, b_ub=, bounds=(None, None))` is ONE
abstract primitive, class `LPSolver` (`np_linprog : list var -> ndarray -> ndarray -> ndarray -> M lp_result`).  Its first
argument names the LP columns (the oracle of model/Poly.v matches problems by column name); the Python passes no names,
so the translator threads a GHOST parameter `lp_vars`: the static functions that take matrices only (`reduce_polytope`,
`is_polytope_empty`, `verify_polytope_containment`) get it as an extra first parameter, and their callers pass the
variable list returned by the `termlist_to_polytope` call of the same function (exactly one such call is required).
`proofs/PolyGenBase.v:poly_lp O` instantiates `np_linprog` with `oracle_linprog O`: scipy's input validation (ValueError
unless `c` squeezes to a non-empty vector, `A_ub` is 2-D with `len(c)` columns and `b_ub` squeezes to one bound per row),
then the oracle `O (mkLP vs c (combine rows b))`, then `lp_result_of` (`LpOpt f s` -> status 0, `fun = Some f`; `LpInfeasible` ->
2; `LpUnbounded` -> 3; `LpOther _` -> 1; `LpMiss` -> `OracleMiss`).  `harness/lpgen_numpy_check.py` runs a hand mirror of the
array primitives and of this validation next to numpy 2.5.3 / scipy 1.18.1 on random small shapes incl. the degenerate
ones (6000 cases x 13 operations: 0 disagreements on shapes, entries and exception types).

Fail closed (`TRANSLATOR-UNSUPPORTED[PolyGen.v]: ...`, only this output file is poisoned): any construct or numpy call
outside the subset, a missing listed function, a changed decorator / annotation, an override of `__sub__` / `copy` /
`vars`, `__bool__` / `__len__` on the term-list classes, a call of a helper method that is not translated, an LP solved
where nothing names its columns, an int literal whose kind (float / count) no use fixes, a `return` inside a loop or
inside joined branches, a `while` other than `while i < n` on two int locals, an in-place update of an array / list that
is a parameter, was handed to a call that may keep it, or whose other aliases are read again before being re-assigned
(`a_opt = a_temp; b_opt = b_temp` in `reduce_polytope` is accepted because `b_opt` is not read after `b_temp[i] -= 1`).
Output is deterministic (checked with two hash seeds).

## 2. Equality theorems

`O` is the LP oracle of model/Poly.v; generated functions are applied to the instance `poly_lp O`; `wft' t` = the keys of
the dict are distinct and no zero coefficient is stored (what the constructor guarantees); `qcanon q` = `Qred q = q`;
`row_ok m r` = `length (fst r) = m /\ qcanon (snd r)`; `mat_of m rows` / `ctx_mat_of m rows` are the arrays
`termlist_to_polytope` builds for the terms / the context (`A1 []` resp. `A2 0 [[]]` when there is no row, else `A2 m rows`).
All equalities are pointwise equalities of monadic results (values and error kinds).

| file | theorem | statement |
|---|---|---|
| PolyGenPolytope.v | `term_to_polytope_eq` | `PolyhedralTerm_term_to_polytope t vs = ret (term_to_row vs t)` (no precondition) |
| | `polytope_to_term_eq` | `NoDup vs -> length poly = length vs -> PolyhedralTerm_polytope_to_term poly c vs = ret (row_to_term vs (poly, c))` |
| | `polytope_to_term_assert` | `length poly <> length vs -> ... = raise (Escape "AssertionError")` |
| | `sub_eq` | `Forall wft' self -> Forall wft' other -> PolyhedralTermList_sub self other = ret (list_diff self other)` |
| | `termlist_to_polytope_eq` | `PolyhedralTermList_termlist_to_polytope terms ctx = ret (polytope_of terms ctx)` (no precondition; `polytope_of` = `(vs, mat_of m rows, A1 consts, ctx_mat_of m ctxrows, A1 ctxconsts)` with `vs = polytope_vars terms ctx`) |
| | `polytope_to_termlist_eq` | `NoDup vs -> Forall (fun r => length (fst r) = length vs) rows -> PolyhedralTermList_polytope_to_termlist (A2 (length vs) (map fst rows)) (A1 (map snd rows)) vs = ret (map (row_to_term vs) rows)`; `_empty`: on `(A1 [], A1 [])` it is `ret []`; `_assert`: a 2-D matrix with another column count raises AssertionError |
| PolyGenReduce.v | `while_reduce` | the `while i < n` loop, run with ANY fuel >= the number of rows still to visit, IS `reduce_loop` (the fuel `n` is never exhausted) |
| | `reduce_polytope_eq` | `vs <> [] -> Forall (row_ok (length vs)) rows -> @PolyhedralTermList_reduce_polytope (poly_lp O) vs (mat_of m (map fst rows)) (A1 (map snd rows)) (Some (ctx_mat_of m (map fst ctx))) (Some (A1 (map snd ctx))) = mmap (reduced m rows) (reduce_polytope O vs rows ctx)` (`m = length vs`; `reduced` = the result as arrays) |
| | `reduce_polytope_novars` | the no-variable shapes (m = 0): `ValueErr` when a context constant is negative, else `[]` / the single row / `ValueErr` (linprog rejects the empty objective) for 0 / 1 / more rows |
| | `simplify_eq` | `Forall wft' self -> Forall wft' (opt_list context) -> canon_terms self -> @PolyhedralTermList_simplify (poly_lp O) self context = poly_simplify O self context` |
| PolyGenEmpty.v | `is_polytope_empty_eq` | `@PolyhedralTermList_is_polytope_empty (poly_lp O) vs (mat_of (length vs) (map fst rows)) (A1 (map snd rows)) = is_polytope_empty O vs rows` (no precondition) |
| | `is_empty_eq` | `@PolyhedralTermList_is_empty (poly_lp O) self = poly_is_empty O self` (no precondition) |
| PolyGenContain.v | `verify_polytope_containment_eq` | `vs <> [] -> L <> [] -> R <> [] -> Forall (fun r => length (fst r) = length vs) R -> @PolyhedralTermList_verify_polytope_containment (poly_lp O) vs (Some (A2 m (map fst L))) (Some (A1 (map snd L))) (Some (A2 m (map fst R))) (Some (A1 (map snd R))) = verify_polytope_containment O vs L R` (incl. `tol_bound` with `REFINEMENT_TOLERANCE` of gen/ConstGen.v; `_no_vars`: with no variable it raises ValueError) |
| | `refines_eq` | `@PolyhedralTermList_refines (poly_lp O) self other = poly_refines O self other` (no precondition) |
| PolyGenOptimize.v | `optimize_eq` | `NoDup (keys objective) -> @PolyhedralTermList_optimize (poly_lp O) self objective maximize = poly_optimize O self objective maximize` |
| PolyGenFacts.v | `simplify_fuel_suffices` | under the hypotheses of `simplify_eq` the generated simplify never answers `Escape "fuel"` (nor any other `Escape`: `poly_simplify_no_escape`) |

`Print Assumptions simplify_eq / refines_eq / is_empty_eq / optimize_eq`: closed under the global context.
Compile times: `PolyGenReduce.v` 5 s, `PolyGenFacts.v` 4 s, every other new file < 2 s.

Preconditions and why (each with an `Example`): `wft'` — `self - context` copies both operands (`copy()` drops a stored
zero / merges a repeated key, `simplify_stored_zero`; `polytope_to_term_repeated_variable`); `canon_terms self` —
see §4; `NoDup (keys objective)` — the objective is a Python dict (`optimize_repeated_key`).

## 3. Python / numpy semantics that are approximated (each is also an `assumption:` line and in the generated header)

* floats are exact rationals (`qadd`, `qmul`, ...); dtype, NaN, inf, rounding, numpy warnings: not modelled; ints that count
  or index are `nat` (negative indices rejected; `n -= 1` is `py_nat_sub`, `Escape "NegativeCount"` below zero — shown
  unreachable); an int literal is typed (float / count) by its uses;
* arrays are `A1` / `A2` values (no 0-d, no >2-d arrays, no views): `x[i]` used as a float on a 2-D array, or as an array on a
  1-D array, is `Escape "NumpyShape"` (the model declines; shown unreachable); `a[i, :]` is a copy;
* in-place updates (`b_temp[i] += 1`, `l.append(x)`, `d[k] = v`) of objects built by the same function are rebinding, under the
  syntactic aliasing check of §1;
* `while i < n` is `while_m` with explicit fuel = the value of `n` at loop entry (`Escape "fuel"`; `while_reduce` proves it
  suffices: every iteration either increments `i` or decrements `n`);
* `res["status"]`, `res["fun"]`, ... are fields of a record (the keys always exist in a linprog result); `-res["fun"]` on
  `None` is `Escape "TypeError"` (`py_num`); `res["x"]` is `None` in the instance (`lp_answer` carries no `x`; no translated
  function reads it); `LpOther z` is reported as status 1 whatever `z`;
* `isinstance(x, np.ndarray)` on an `Optional[np.ndarray]` parameter is `x is not None`; truthiness of an
  `Optional[PolyhedralTermList]` is `is not None` (checked: no `__bool__` / `__len__`);
* exception and assert messages dropped after checking they are total (types kept: `ValueError` -> `ValueErr`, failed
  `assert` -> `Escape "AssertionError"`, shape errors -> `ValueErr` / `Escape "IndexError"` as numpy raises them);
  `raise X from e` raises X; `try ... except ValueError` guards the whole body; an argument of `logging.debug` that is
  not obviously total (`-res["fun"]`) is evaluated for its exception, its value dropped; other logging and docstrings ignored;
* the ghost parameter `lp_vars` (§1).

## 4. Discrepancies between the hand model and the Python

1. **`simplify` does not return the constants it was given** (found by reading the generated text:
   `np_setitem b_temp i (qsub (qadd b 1) 1)`).  `reduce_polytope` perturbs `b_temp[i]` by `+= 1` / `-= 1` in place, so every row
   it keeps comes back with the bound `(b + 1) - 1`.  In floats this is not `b`: on the real library
   (`PYTHONPATH=/repo/src`, `pacti.__file__` under /repo/src) `PolyhedralTermList([x <= 0.1, y <= 0.1]).simplify()` returns the
   constants `0.10000000000000009`.  `model/Poly.v:reduce_loop` returns `(a, b)` untouched.  With exact rationals the two
   agree as NUMBERS; as values of type `Q` they agree when `b` is in lowest terms — the precondition `canon_terms self` of
   `simplify_eq`, `Example simplify_noncanonical_constant` (`2/4` comes back as `1/2` from the code, as `2/4` from the model).
   The float effect is inside the "rounding is not modelled" limit of DESIGN §6, but it is observable (the exact T2 streams use
   dyadic inputs, on which this float arithmetic is exact, so they cannot see it) and it means `simplify` is not idempotent bit-for-bit.  The hand model was not changed.
2. Outside the constructor invariant (Examples, hypotheses): a stored zero coefficient or a repeated key in `self` /
   `context` (`self - context` copies first); a repeated key in `objective`.
3. No other difference was found: on every other input the hand model and the code agree, including the degenerate
   no-variable shapes (constant context rows after repo commit 12672f5, `ValueError` for two constant-only rows,
   `refines` / `optimize` without variables) and every error kind.

## 5. Coverage of the requested list

Covered (all three priority groups): `termlist_to_polytope`, `polytope_to_termlist`, `term_to_polytope`, `polytope_to_term`,
`reduce_polytope` (loop with explicit fuel, shown sufficient), `simplify`; `is_polytope_empty`, `is_empty`,
`verify_polytope_containment` with `REFINEMENT_TOLERANCE`, `refines`; `optimize`.  Not done: `_get_tlp_context` and
`_context_reduction` (sympy) stay abstract primitives of `TLPrims` as before; `TLPrims.p_simplify` /
`p_termlist_to_polytope` / `p_linprog` of `gen/TermListGen.v` are still instantiated with the hand models, not with the
new generated functions (the equalities above make that substitution possible, it was not carried out); the new
equalities are not restated as `Cxx_code_*` theorems in `props/`.

## 6. Sensitivity experiment

Each row is one edit of `src/pacti/terms/polyhedra/polyhedra.py` applied to a scratch copy of `/repo/src`; the translator
is run into a scratch copy of `coq/` and `proofs/PolyGenFacts.vo` (which requires every group file) is rebuilt with
`make -k` (every `coqc` under `timeout 600`).  A *semantic* edit must be rejected by the translator or break an equality
proof; a *harmless* rewrite must still translate and prove.  The outcome names the theorem whose proof script stops
compiling and says whether the generated text (sha line excluded) differs from the original's.  `S*` are the six seeded
defects (verbatim where the patch stays inside the subset, otherwise verbatim AND rewritten inside the subset), `A*` further
small semantic edits, `H*` harmless rewrites.

"""


def sh(cmd, cwd=None, timeout=3600):
    p = subprocess.run(cmd, cwd=cwd, stdout=subprocess.PIPE, stderr=subprocess.STDOUT, text=True, timeout=timeout)
    return p.returncode, p.stdout


def rename_in(text, start_marker, end_marker, renames):
    a = text.index(start_marker)
    b = text.index(end_marker, a + len(start_marker))
    seg = text[a:b]
    for old, new in renames:
        seg2 = re.sub(r"\b" + re.escape(old) + r"\b", new, seg)
        assert seg2 != seg, (old, start_marker)
        seg = seg2
    return text[:a] + seg + text[b:]


def apply_edit(text, ident, pairs):
    if ident == "H1":
        return rename_in(text, "    def reduce_polytope(", "    @staticmethod\n    def verify_polytope_containment(",
                         [("a_temp", "amat"), ("b_temp", "bvec"), ("objective", "obj_row")])
    for old, new in pairs:
        assert text.count(old) == 1, (ident, old, text.count(old))
        text = text.replace(old, new, 1)
    return text


def all_errors(log):
    out = []
    for m in re.finditer(r'File "\./([^"]+)", line (\d+), characters [^\n]*\n(Error:.*?)(?=\nmake|\nFile "|\nCOQC|\Z)', log, re.S):
        msg = " ".join(m.group(3).split())
        k = re.search(r"Unable to unify|Impossible to unify|The term|Found no subterm|Tactic failure|No such|Cannot|Not an inductive|"
                      r"Wrong|Illegal|The reference|Unable to find|No matching|Tactic generated|Not a discriminable|No applicable", msg)
        out.append((m.group(1), int(m.group(2)), ("Error: " + msg[k.start():] if k else msg)[:170]))
    return out


def enclosing(vfile, line):
    name = "?"
    for i, l in enumerate(open(vfile), 1):
        m = re.match(r"\s*(?:Theorem|Lemma|Corollary|Example|Definition|Fixpoint)\s+([\w']+)", l)
        if m:
            name = m.group(1)
        if i >= line:
            break
    return name


def main(verif, repo, scratch, report=None, keep=False, only=None):
    if os.path.exists(scratch):
        shutil.rmtree(scratch)
    os.makedirs(scratch)
    coq = os.path.join(scratch, "coq")
    shutil.copytree(os.path.join(verif, "coq"), coq, ignore=shutil.ignore_patterns("cases"), copy_function=shutil.copy2)
    orig = open(os.path.join(repo, REL)).read()
    rows = []
    baseline = {}

    def gen_text():     # generated text without the sha256 line of the header
        return "".join(l for l in open(os.path.join(coq, "gen", "PolyGen.v")) if "sha256" not in l)

    def run(ident, kind, desc, pairs):
        tree = os.path.join(scratch, "repo")
        if os.path.exists(tree):
            shutil.rmtree(tree)
        shutil.copytree(os.path.join(repo, "src"), os.path.join(tree, "src"))
        if ident != "ORIG":
            text = apply_edit(orig, ident, pairs)
            with open(os.path.join(tree, REL), "w") as fh:
                fh.write(text)
            rc, out = sh([PY, "-c", f"import ast; ast.parse(open({os.path.join(tree, REL)!r}).read())"])
            assert rc == 0, out
        rc, out = sh([PY, os.path.join(verif, "translator", "py2coq.py"), tree, os.path.join(coq, "gen")])
        msg = [l for l in out.splitlines() if l.startswith("TRANSLATOR-UNSUPPORTED")]
        other = [l for l in msg if "[PolyGen.v]" not in l]
        if rc != 0 or msg:
            mine = [l for l in msg if "[PolyGen.v]" in l]
            res = ("translator rejects" + (" (other generators too)" if other else ""),
                   (mine or msg or [out.strip()[-200:]])[0][:300])
            passed = False
        else:
            if ident == "ORIG":
                baseline["t"] = gen_text()
            changed = gen_text() != baseline["t"]
            rc2, log = sh(["make", "-k", "-j8", "COQC=timeout 600 coqc"] + TARGETS, cwd=coq)
            if rc2 == 0:
                res = ("translates; all equality proofs COMPILE", "")
                passed = True
            else:
                errs = all_errors(log)
                if errs:
                    names = [f"`{enclosing(os.path.join(coq, f), line)}` ({f}:{line})" for f, line, _ in errs]
                    res = ("translates; proof FAILS: " + ", ".join(names), errs[0][2])
                else:
                    res = ("translates; build FAILS", log.strip()[-200:])
                passed = False
            res = (res[0] + (" [generated text differs from the original's]" if changed else ""), res[1])
        ok = (passed == (kind in ("harmless", "original")))
        rows.append((ident, kind, desc, res[0], res[1], ok))
        print(f"{ident} [{kind}] {desc}\n    -> {res[0]} {res[1]}\n    {'as expected' if ok else 'UNEXPECTED'}", flush=True)

    run("ORIG", "original", "unmodified /repo/src", None)
    for ident, kind, desc, pairs in EDITS:
        if only and ident not in only:
            continue
        run(ident, kind, desc, pairs)
    run("ORIG", "original", "unmodified /repo/src again (after all edits)", None)
    bad = [r for r in rows if not r[5]]
    if report:
        with open(report, "w") as fh:
            fh.write(PREAMBLE)
            sem = [r for r in rows if r[1] == "semantic"]
            fh.write(f"Summary: {len(sem)} semantic edits — {sum('proof FAILS' in r[3] for r in sem)} break an equality "
                     f"proof, {sum('translator rejects' in r[3] for r in sem)} are rejected by the translator, "
                     f"{sum('COMPILE' in r[3] for r in sem)} pass unnoticed; "
                     f"{sum(r[1] == 'harmless' for r in rows)} harmless rewrites — "
                     f"{sum(r[1] == 'harmless' and 'COMPILE' in r[3] for r in rows)} still translate and prove.  "
                     f"Unexpected outcomes: {len(bad)}.\n\n")
            fh.write("| id | kind | edit | outcome | first error |\n|---|---|---|---|---|\n")
            for ident, kind, desc, res, err, ok in rows:
                fh.write(f"| {ident} | {kind} | {desc} | {res} | {err.replace('|', '/')} |\n")
    tree = os.path.join(scratch, "repo")
    if os.path.exists(tree):
        shutil.rmtree(tree)          # the scratch SOURCE tree is always removed
    if not keep:
        shutil.rmtree(scratch)
    print("unexpected outcomes:", len(bad))
    return 1 if bad else 0


if __name__ == "__main__":
    argv = sys.argv[1:]
    only = None
    if "--only" in argv:
        i = argv.index("--only")
        only = set(argv[i + 1].split(","))
        del argv[i:i + 2]
    args = [a for a in argv if a != "--keep"]
    sys.exit(main(*args, keep="--keep" in argv, only=only))
