"""Render harness values as Gallina literals (floats become the exact rationals they denote)."""
from __future__ import annotations

from fractions import Fraction as F


def q(x) -> str:
    fr = x if isinstance(x, F) else F(x)
    n, d = fr.numerator, fr.denominator
    if n < 0:
        return f"(Qmake ({n}) {d})"
    return f"(Qmake {n} {d})"


def s(name: str) -> str:
    assert '"' not in name
    return '"' + name + '"'


def lst(items) -> str:
    return "[" + "; ".join(items) + "]"


def svars(vs) -> str:
    return lst(s(v) for v in vs)


def pvars(d) -> str:
    """d: dict or list of pairs var -> number, insertion order kept"""
    items = d.items() if isinstance(d, dict) else d
    return lst(f"({s(k)}, {q(v)})" for k, v in items)


def term(t) -> str:
    """t: (coeffs dict, const)"""
    return f"(mkT {pvars(t[0])} {q(t[1])})"


def terms(ts) -> str:
    return lst(term(t) for t in ts)


def qlist(xs) -> str:
    return lst(q(x) for x in xs)


def nat(n: int) -> str:
    return f"{int(n)}%nat"


def natlist(xs) -> str:
    return lst(nat(x) for x in xs)


def boolean(b) -> str:
    return "true" if b else "false"


def opt(x, f) -> str:
    return "None" if x is None else f"(Some {f(x)})"


# ---- pacti objects -> harness tuples -------------------------------------------------
def pt_of(term_obj):
    """PolyhedralTerm -> (ordered dict name->Fraction, Fraction)"""
    return ({str(k): F(float(v)) for k, v in term_obj.variables.items()}, F(float(term_obj.constant)))


def pts_of(tl):
    return [pt_of(t) for t in tl.terms]


def contract_of(c):
    return {"a": pts_of(c.a), "g": pts_of(c.g), "i": [str(v) for v in c.inputvars], "o": [str(v) for v in c.outputvars]}


def contract(c) -> str:
    return (f"{{| c_a := {terms(c['a'])}; c_g := {terms(c['g'])}; c_inputvars := {svars(c['i'])}; "
            f"c_outputvars := {svars(c['o'])} |}}")


def jsonable_term(t):
    return {"coefficients": {k: str(v) for k, v in t[0].items()}, "constant": str(t[1])}


def jsonable_contract(c):
    return {"a": [jsonable_term(t) for t in c["a"]], "g": [jsonable_term(t) for t in c["g"]], "i": c["i"], "o": c["o"]}
