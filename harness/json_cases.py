"""Correspondence between coq/model/Json.v and the JSON side of pacti.

json_to_coq / contract_to_coq render Python values as Gallina literals; faults() enumerates the
single-node faults of a valid dictionary; selftest() runs the real validate_contract_dict /
PolyhedralIoContract.from_dict(simplify=False) / read_contracts_from_file on every fault and checks inside
Coq (vm_compute, expected outcomes embedded) that the model produces the same outcome: same error class,
same escaping exception type, same resulting contract.

Run:  PYTHONPATH=/repo/src:/verif/harness PYTHONHASHSEED=0 /venv/bin/python /verif/harness/json_cases.py
      (JSON_COQ_DIR=<dir> selects another copy of the coq/ tree)
"""
from __future__ import annotations

import copy
import json
import os
import random
import re
import subprocess
import sys
import tempfile
import time
from concurrent.futures import ThreadPoolExecutor
from fractions import Fraction as F

sys.path.insert(0, os.path.dirname(os.path.abspath(__file__)))
import coqfmt  # noqa: E402

COQ = os.environ.get("JSON_COQ_DIR") or os.path.join(os.path.dirname(os.path.dirname(os.path.abspath(__file__))), "coq")
QFLAGS = ["-Q", "base", "", "-Q", "gen", "", "-Q", "model", "", "-Q", "proofs", "", "-Q", "props", "", "-Q", "cases", ""]

REPL = [None, True, 3, 2.5, "s", [], ["q"], {}, {"k": 1}]


# ------------------------------------------------------------------ Gallina literals
def coq_string(s: str) -> str:
    return '"' + s.replace('"', '""') + '"'


def json_to_coq(obj) -> str:
    """Python object (as returned by json.load) -> Gallina term of type json."""
    if obj is None:
        return "JNull"
    if isinstance(obj, bool):  # before int: bool is a subclass of int
        return "(JBool true)" if obj else "(JBool false)"
    if isinstance(obj, int):
        return f"(JNum {coqfmt.q(F(obj))} true)"
    if isinstance(obj, float):
        if obj != obj or obj in (float("inf"), float("-inf")):
            raise ValueError("non-finite floats are outside the model")
        return f"(JNum {coqfmt.q(F(obj))} false)"
    if isinstance(obj, str):
        return f"(JStr {coq_string(obj)})"
    if isinstance(obj, list):
        return "(JList [" + "; ".join(json_to_coq(x) for x in obj) + "])"
    if isinstance(obj, dict):
        for k in obj:
            assert isinstance(k, str)
        return "(JObj [" + "; ".join(f"({coq_string(k)}, {json_to_coq(v)})" for k, v in obj.items()) + "])"
    raise TypeError(type(obj))


def _terms(ts) -> str:
    return "[" + "; ".join(
        "(mkT [" + "; ".join(f"({coq_string(k)}, {coqfmt.q(v)})" for k, v in t[0].items()) + f"] {coqfmt.q(t[1])})"
        for t in ts) + "]"


def contract_to_coq(c) -> str:
    """PolyhedralIoContract (or the dict of coqfmt.contract_of) -> Gallina term of type pcontract."""
    d = c if isinstance(c, dict) else coqfmt.contract_of(c)
    strs = lambda l: "[" + "; ".join(coq_string(x) for x in l) + "]"  # noqa: E731
    return f"{{| pa := {_terms(d['a'])}; pg := {_terms(d['g'])}; pin := {strs(d['i'])}; pout := {strs(d['o'])} |}}"


def err_to_coq(kind: str) -> str:
    if kind in ("FormatErr", "ValueErr", "IncompatibleArgs"):
        return kind
    assert kind.startswith("Escape:")
    return f'(Escape {coq_string(kind[7:])})'


# ------------------------------------------------------------------ fault enumeration
def paths(o, pre=()):
    yield pre
    if isinstance(o, dict):
        for k in o:
            yield from paths(o[k], pre + (k,))
    elif isinstance(o, list):
        for i, x in enumerate(o):
            yield from paths(x, pre + (i,))


def _get(o, p):
    for k in p:
        o = o[k]
    return o


def _set(o, p, v=None, delete=False, insert=None):
    o = copy.deepcopy(o)
    if insert is not None:
        _get(o, p)[insert[0]] = insert[1]
        return o
    if not p:
        return copy.deepcopy(v)
    cur = _get(o, p[:-1])
    if delete:
        del cur[p[-1]]
    else:
        cur[p[-1]] = copy.deepcopy(v)
    return o


def faults(valid):
    """Every single-node deletion, every replacement of a node by each element of REPL, and (extra) the
    insertion of an unknown key / of the key "simplify" into every dict node.  Yields (description, value)."""
    for p in paths(valid):
        if p:
            yield (("del",) + p, _set(valid, p, delete=True))
        for r in REPL:
            yield (("set", repr(r)) + p, _set(valid, p, r))
        if isinstance(_get(valid, p), dict):
            yield (("ins", "zz") + p, _set(valid, p, insert=("zz", 1)))
            yield (("ins", "simplify") + p, _set(valid, p, insert=("simplify", False)))


# ------------------------------------------------------------------ running the real code
def _imports():
    import pacti
    assert os.path.realpath(pacti.__file__).startswith(os.path.realpath(os.environ.get("VERIF_REPO", "/repo")) + "/src/"), pacti.__file__
    from pacti.contracts import PolyhedralIoContract, PolyhedralIoContractCompound
    from pacti.terms.polyhedra.serializer import validate_contract_dict
    from pacti.utils import fileio
    from pacti.utils.errors import ContractFormatError, IncompatibleArgsError
    return PolyhedralIoContract, PolyhedralIoContractCompound, validate_contract_dict, fileio, ContractFormatError, IncompatibleArgsError


def classify_exc(e) -> str:
    _, _, _, _, ContractFormatError, IncompatibleArgsError = _imports()
    if isinstance(e, ContractFormatError):
        return "FormatErr"
    if isinstance(e, IncompatibleArgsError):
        return "IncompatibleArgs"
    if isinstance(e, ValueError):
        return "ValueErr"
    return "Escape:" + type(e).__name__


def run_validate(d, machine: bool):
    V = _imports()[2]
    import io
    import contextlib
    try:
        with contextlib.redirect_stdout(io.StringIO()):
            V(copy.deepcopy(d), "n", machine)
        return ("ok", None)
    except Exception as e:  # noqa: BLE001
        return (classify_exc(e), None)


def run_from_dict(d):
    P = _imports()[0]
    try:
        c = P.from_dict(copy.deepcopy(d), simplify=False)
        return ("ok", coqfmt.contract_of(c))
    except Exception as e:  # noqa: BLE001
        return (classify_exc(e), None)


class _Handed:
    """What read_contracts_from_file hands to a from_strings constructor."""

    def __init__(self, kind, args):
        self.kind, self.args = kind, args


def run_reader(file_obj, instrumented: bool):
    """read_contracts_from_file through a real temporary file.
    instrumented: from_dict is forced to simplify=False and the two from_strings constructors only record
    their arguments (same signatures, so that the keyword binding is the real one)."""
    P, PC, _, fileio, _, _ = _imports()
    fd, fn = tempfile.mkstemp(suffix=".json")
    with os.fdopen(fd, "w") as fh:
        json.dump(file_obj, fh)
    saved = (P.__dict__["from_dict"], P.__dict__["from_strings"], PC.__dict__["from_strings"])
    try:
        if instrumented:
            orig_fd = P.from_dict

            def fd_nosimp(contract, simplify=True):  # noqa: ARG001
                return orig_fd(contract, simplify=False)

            def fs_rec(assumptions, guarantees, input_vars, output_vars, simplify=True):
                return _Handed("strings", (assumptions, guarantees, input_vars, output_vars, bool(simplify)))

            def fsc_rec(assumptions, guarantees, input_vars, output_vars):
                return _Handed("compound", (assumptions, guarantees, input_vars, output_vars))

            P.from_dict = staticmethod(fd_nosimp)
            P.from_strings = staticmethod(fs_rec)
            PC.from_strings = staticmethod(fsc_rec)
        import io
        import contextlib
        try:
            with contextlib.redirect_stdout(io.StringIO()):
                cs, ns = fileio.read_contracts_from_file(fn)
        except Exception as e:  # noqa: BLE001
            return (classify_exc(e), None)
        res = []
        for c, n in zip(cs, ns):
            if isinstance(c, _Handed):
                res.append((n, c.kind, c.args))
            elif isinstance(c, P):
                res.append((n, "machine", coqfmt.contract_of(c)))
            else:
                res.append((n, "other", None))
        return ("ok", res)
    finally:
        P.from_dict, P.from_strings, PC.from_strings = saved
        os.remove(fn)


# ------------------------------------------------------------------ expected outcomes as Gallina
def exp_unit(out) -> str:
    return "(inl tt)" if out[0] == "ok" else f"(inr {err_to_coq(out[0])})"


def exp_contract(out) -> str:
    return f"(inl {contract_to_coq(out[1])})" if out[0] == "ok" else f"(inr {err_to_coq(out[0])})"


def _strs(l) -> str:
    return "[" + "; ".join(coq_string(x) for x in l) + "]"


def exp_file(out) -> str:
    if out[0] != "ok":
        return f"(inr {err_to_coq(out[0])})"
    items = []
    for name, kind, payload in out[1]:
        if kind == "machine":
            items.append(f"({coq_string(name)}, LMachine {contract_to_coq(payload)})")
        elif kind == "strings":
            a, g, i, o, simp = payload
            items.append(f"({coq_string(name)}, LStrings {_strs(a)} {_strs(g)} {_strs(i)} {_strs(o)} {coqfmt.boolean(simp)})")
        elif kind == "compound":
            items.append(f"({coq_string(name)}, LCompound " + " ".join(json_to_coq(x) for x in payload) + ")")
        else:
            raise AssertionError(kind)
    return "(inl [" + "; ".join(items) + "])"


PRELUDE = r"""
From Coq Require Import List String Bool QArith ZArith.
Import ListNotations.
Require Import Py ListsGen Sem Term Json.
Local Open Scope string_scope.
Definition pvars_eqb (a b : pvars) : bool :=
  list_eqb (A:=var) (map fst a) (map fst b)
  && forallb (fun p => Qeq_bool (snd (fst p)) (snd (snd p))) (combine a b).
Definition pterm_eqb (s t : pterm) : bool := pvars_eqb (tvars s) (tvars t) && Qeq_bool (tconst s) (tconst t).
Fixpoint all2 {A} (f : A -> A -> bool) (l1 l2 : list A) : bool :=
  match l1, l2 with [], [] => true | x :: r1, y :: r2 => f x y && all2 f r1 r2 | _, _ => false end.
Definition pc_eqb (c d : pcontract) : bool :=
  all2 pterm_eqb (pa c) (pa d) && all2 pterm_eqb (pg c) (pg d)
  && list_eqb (A:=var) (pin c) (pin d) && list_eqb (A:=var) (pout c) (pout d).
Fixpoint json_eqb (a b : json) : bool :=
  match a, b with
  | JNull, JNull => true
  | JBool x, JBool y => Bool.eqb x y
  | JNum p i, JNum q k => Qeq_bool p q && Bool.eqb i k
  | JStr s, JStr t => String.eqb s t
  | JList l, JList m =>
      (fix go (l m : list json) : bool :=
         match l, m with [], [] => true | x :: r, y :: s => json_eqb x y && go r s | _, _ => false end) l m
  | JObj f, JObj g =>
      (fix go (f g : list (string * json)) : bool :=
         match f, g with
         | [], [] => true
         | p :: r, q :: s => String.eqb (fst p) (fst q) && json_eqb (snd p) (snd q) && go r s
         | _, _ => false end) f g
  | _, _ => false
  end.
Definition err_eqb (e f : err) : bool :=
  match e, f with
  | IncompatibleArgs, IncompatibleArgs | ValueErr, ValueErr | FormatErr, FormatErr
  | SyntaxErr, SyntaxErr | ConvexErr, ConvexErr | OracleMiss, OracleMiss => true
  | Escape a, Escape b => String.eqb a b
  | _, _ => false
  end.
Definition m_eqb {A} (eq : A -> A -> bool) (x y : M A) : bool :=
  match x, y with inl a, inl b => eq a b | inr e, inr f => err_eqb e f | _, _ => false end.
Definition loaded_eqb (x y : loaded) : bool :=
  match x, y with
  | LMachine c, LMachine d => pc_eqb c d
  | LStrings a g i o s, LStrings a' g' i' o' s' =>
      list_eqb (A:=var) a a' && list_eqb (A:=var) g g' && list_eqb (A:=var) i i' && list_eqb (A:=var) o o' && Bool.eqb s s'
  | LCompound a g i o, LCompound a' g' i' o' => json_eqb a a' && json_eqb g g' && json_eqb i i' && json_eqb o o'
  | _, _ => false
  end.
Definition entry_eqb (x y : string * loaded) : bool := String.eqb (fst x) (fst y) && loaded_eqb (snd x) (snd y).
Definition unit_eqb (x y : unit) : bool := true.
Definition bad (cases : list (nat * bool)) : list nat := map fst (filter (fun p => negb (snd p)) cases).
"""


def coq_check(kind: str, j: str, expected: str) -> str:
    if kind == "validate_m":
        return f"m_eqb unit_eqb (validate_contract_dict {j} true) {expected}"
    if kind == "validate_s":
        return f"m_eqb unit_eqb (validate_contract_dict {j} false) {expected}"
    if kind == "from_dict":
        return f"m_eqb pc_eqb (from_dict_c {j}) {expected}"
    if kind == "read_file":
        return f"m_eqb (all2 entry_eqb) (read_file_c {j}) {expected}"
    if kind == "to_machine":  # j is a pcontract here
        return f"json_eqb (to_machine_dict {j}) {expected}"
    if kind == "write_file":  # j is a list (string * pcontract)
        return f"json_eqb (write_file_machine {j}) {expected}"
    raise AssertionError(kind)


def run_coq(name: str, body: str, timeout=900):
    cdir = os.path.join(COQ, "cases")
    os.makedirs(cdir, exist_ok=True)
    p = os.path.join(cdir, name + ".v")
    with open(p, "w") as fh:
        fh.write(body)
    try:
        pr = subprocess.run(["timeout", str(timeout), "coqc"] + QFLAGS + [os.path.join("cases", name + ".v")],
                            cwd=COQ, capture_output=True, text=True)
        return pr.returncode, pr.stdout + pr.stderr
    finally:
        for ext in (".v", ".vo", ".vok", ".vos", ".glob"):
            try:
                os.remove(os.path.join(cdir, name + ext))
            except OSError:
                pass
        try:
            os.remove(os.path.join(cdir, "." + name + ".aux"))
        except OSError:
            pass


def parse_nat_list(out, tag):
    m = re.search(r"=\s*\(\s*\"" + re.escape(tag) + r"\"\s*,\s*(\[[^\]]*\]|nil)\s*\)", out.replace("\n", " "))
    if not m:
        return None
    body = m.group(1)
    if body in ("nil", "[]"):
        return []
    return [int(x.strip().replace("%nat", "")) for x in body.strip("[]").split(";") if x.strip()]


def check_in_coq(checks, chunk=250, tag="json"):
    """checks: list of Gallina boolean expressions. Returns the list of indices evaluating to false
    (or raises if a file does not compile)."""
    jobs = []
    for start in range(0, len(checks), chunk):
        part = checks[start:start + chunk]
        body = PRELUDE + "Definition cases : list (nat * bool) := [\n" + ";\n".join(
            f"({start + k}%nat, {c})" for k, c in enumerate(part)) + "].\n" + \
            'Eval vm_compute in ("MISMATCH", bad cases).\n'
        jobs.append((f"{tag}_sel_{os.getpid()}_{start}", body))
    bad = []
    with ThreadPoolExecutor(max_workers=int(os.environ.get("VERIF_JOBS", "8"))) as ex:
        for (name, _), (rc, out) in zip(jobs, ex.map(lambda nb: run_coq(*nb), jobs)):
            lst = parse_nat_list(out, "MISMATCH")
            if rc != 0 or lst is None:
                raise SystemExit(f"coq case file {name} failed (rc={rc}):\n{out[-3000:]}")
            bad += lst
    return bad


# ------------------------------------------------------------------ test data
MACHINE_DICTS = [
    {"input_vars": ["x"], "output_vars": ["y"],
     "assumptions": [{"constant": 1.0, "coefficients": {"x": 1.0}}],
     "guarantees": [{"constant": 2.0, "coefficients": {"x": -1.0, "y": 1.0}},
                    {"constant": 0.5, "coefficients": {"y": -1.0}}]},
    {"input_vars": ["i", "j"], "output_vars": ["o"],
     "assumptions": [{"constant": 3, "coefficients": {"i": 2, "j": -0.25}},
                     {"constant": -1.5, "coefficients": {"j": 1.0, "i": 0}}],
     "guarantees": [{"constant": 0.1, "coefficients": {"o": 1e-3, "i": 7.0}}]},
    {"input_vars": [], "output_vars": ["a", "b"],
     "assumptions": [],
     "guarantees": [{"constant": 0.0, "coefficients": {}}, {"constant": 1e10, "coefficients": {"a": 1, "b": -2.5}}]},
]
STRING_DICTS = [
    {"input_vars": ["x"], "output_vars": ["y"], "assumptions": ["x <= 1"], "guarantees": ["y - x <= 2", "-y <= 0.5"]},
    {"input_vars": ["i", "j"], "output_vars": [], "assumptions": ["|i| + 2j <= 3", "i = 1"], "guarantees": []},
]

_B = lambda **kw: dict({"input_vars": ["x"], "output_vars": ["y"], "assumptions": [], "guarantees": []}, **kw)  # noqa: E731
SPECIAL_DICTS = [
    _B(assumptions=[{"constant": 10 ** 400, "coefficients": {}}]),
    _B(assumptions=[{"constant": 1, "coefficients": {"x": 10 ** 400}}]),
    _B(assumptions=[{"constant": 2 ** 1024 - 2 ** 970 - 1, "coefficients": {"x": -(2 ** 1024 - 2 ** 970)}}]),
    _B(assumptions=[{"constant": 2 ** 53 + 1, "coefficients": {"x": -(2 ** 60 + 2 ** 7 + 1)}}]),
    _B(assumptions=[{"constant": 2 ** 54 + 2, "coefficients": {"x": 2 ** 54 + 6}}]),
    _B(assumptions=""), _B(assumptions={}), _B(assumptions="ab"), _B(guarantees={"a": 1}),
    _B(input_vars="xz", output_vars={"y": 1, "w": 2}),
    _B(input_vars="xéz€", output_vars=[]),
    _B(input_vars=[3, 2.5, None, True, False, [], ["q"], {}, {"k": 1}, -7, 0.1, 1e22, 1.5e-7, 1e16, 123456789.125,
                   1e-4, 0.0001234, 5e-324, 1.7976931348623157e308, 2 ** 70, [1, [2.0, "a'b", 'c"d', "e'\"f", "g\\h\n"]],
                   {"k": {"l": [None]}, "m": 0.30000000000000004}], output_vars=[]),
    _B(assumptions=[{"constant": "2.5", "coefficients": {"x": True}}]),
    _B(assumptions=[{"constant": True, "coefficients": {"x": False, "z": "0"}}]),
    _B(assumptions=[{"constant": True, "coefficients": {"x": "0"}}]),
    _B(assumptions=[{"constant": " 1_0.5e-1 ", "coefficients": {"x": "+.5", "y": "1."}}], input_vars=["x", "y"], output_vars=[]),
    _B(assumptions=[{"constant": "0.1", "coefficients": {"x": "1e-400"}}]),
    _B(assumptions=[{"constant": "1e22", "coefficients": {"x": "123456789012345678901234567890"}}]),
    _B(assumptions=[{"constant": "4.9e-324", "coefficients": {"x": "2.4703282292062328e-324"}}]),
    _B(assumptions=[{"constant": "1__0", "coefficients": {}}]),
    _B(assumptions=[{"constant": "1_", "coefficients": {}}]),
    _B(assumptions=[{"constant": ".", "coefficients": {}}]),
    _B(assumptions=[{"constant": "1e", "coefficients": {}}]),
    _B(assumptions=[{"constant": "", "coefficients": {}}]),
    _B(assumptions=[{"constant": "0x10", "coefficients": {}}]),
    _B(assumptions=[{"constant": None, "coefficients": 3}]),
    _B(assumptions=[{"constant": None, "coefficients": {"x": None}}]),
    _B(assumptions=[{"constant": "abc", "coefficients": {"x": None}}]),
    _B(assumptions=[{"constant": 1, "coefficients": {"x": []}}]),
    _B(guarantees=[{"constant": 1, "coefficients": {"x": 1, "y": 0.0, "q": 0}}]),
    _B(guarantees=[{"constant": 1, "coefficients": {"q": 1}}]),
    _B(assumptions=[{"constant": 1, "coefficients": {"y": 1}}]),
    _B(input_vars=["x", "x"]), _B(output_vars=["y", "y"]), _B(output_vars=["y", "x"]),
    [], None, {"assumptions": None},
]


def random_contract_dict(rng: random.Random):
    names = ["x", "y", "z", "u", "v", "w", "in1", "out_2", "t'", "a b"]
    rng.shuffle(names)
    ni, no = rng.randint(0, 4), rng.randint(0, 4)
    ins, outs = names[:ni], names[ni:ni + no]

    def num():
        k = rng.randint(0, 5)
        if k == 0:
            return float(rng.randint(-5, 5))
        if k == 1:
            return rng.uniform(-10, 10)
        if k == 2:
            return rng.uniform(-1, 1) * 10.0 ** rng.randint(-12, 12)
        if k == 3:
            return rng.randint(-10 ** 6, 10 ** 6)
        if k == 4:
            return rng.choice([0.1, 0.2, 0.3, 1e-5, 1 / 3, 2.5, -0.0, 0, 0.0])
        return rng.randint(-3, 3)

    def term(vs):
        ks = [v for v in vs if rng.random() < 0.6]
        rng.shuffle(ks)
        return {"constant": num(), "coefficients": {k: num() for k in ks}}

    return {"input_vars": ins, "output_vars": outs,
            "assumptions": [term(ins) for _ in range(rng.randint(0, 3))],
            "guarantees": [term(ins + outs) for _ in range(rng.randint(0, 4))]}


# ------------------------------------------------------------------ selftest
def selftest(n_random=300, seed=0, verbose=True):
    t0 = time.time()
    P = _imports()[0]
    checks, descr = [], []
    stats = {}

    def add(kind, j, exp, d):
        checks.append(coq_check(kind, j, exp))
        descr.append((kind, d))
        stats[kind] = stats.get(kind, 0) + 1

    outcomes = {}

    def tally(group, out):
        outcomes.setdefault(group, {})
        outcomes[group][out[0]] = outcomes[group].get(out[0], 0) + 1

    # (1) faults of the data dictionaries: validate + from_dict called directly
    for tag, dicts, machine in (("machine", MACHINE_DICTS, True), ("strings", STRING_DICTS, False)):
        for di, valid in enumerate(dicts):
            assert run_validate(valid, machine)[0] == "ok"
            for d, f in list(faults(valid)) + [(("valid",), valid)]:
                jc = json_to_coq(f)
                v = run_validate(f, machine)
                add("validate_m" if machine else "validate_s", jc, exp_unit(v), (tag, di, d))
                tally(f"validate[{tag}]", v)
                # the other representation's validator on the same value, too
                v2 = run_validate(f, not machine)
                add("validate_s" if machine else "validate_m", jc, exp_unit(v2), (tag, di, d, "other-repr"))
                r = run_from_dict(f)
                add("from_dict", jc, exp_contract(r), (tag, di, d))
                tally(f"from_dict-unvalidated[{tag}]", r)
                if v[0] == "ok" and machine:
                    tally("from_dict-after-validate[machine]", r)
    # (2) special values
    for si, f in enumerate(SPECIAL_DICTS):
        jc = json_to_coq(f)
        add("validate_m", jc, exp_unit(run_validate(f, True)), ("special", si))
        add("validate_s", jc, exp_unit(run_validate(f, False)), ("special", si))
        r = run_from_dict(f)
        add("from_dict", jc, exp_contract(r), ("special", si))
        tally("from_dict-special", r)
    # (2b) the concrete str()/float() instances: random floats as variable names, random numeric strings
    #      (known limits of the instances, not exercised here: non-ASCII digits/whitespace in float(str),
    #       non-finite results, the sign of -0.0 in str(float))
    rng0 = random.Random(seed + 1)

    def rfloat():
        k = rng0.randint(0, 4)
        if k == 0:
            return rng0.uniform(-1, 1) * 10.0 ** rng0.randint(-320, 308)
        if k == 1:
            return float(rng0.randint(-10 ** 17, 10 ** 17))
        if k == 2:
            return rng0.randint(1, 10 ** 6) / 10.0 ** rng0.randint(0, 25)
        if k == 3:
            import struct
            x = struct.unpack("<d", struct.pack("<Q", rng0.getrandbits(64)))[0]
            return x if x == x and abs(x) != float("inf") and x != 0 else 1.5
        return rng0.choice([1e16, 9999999999999998.0, 1e-4, 0.00009999, 1e15, 123.0, 1e23, 5e-324, 2.2250738585072014e-308])

    def rnumstr():
        k = rng0.randint(0, 5)
        if k == 0:
            return repr(rfloat())
        if k == 1:
            return str(rng0.randint(-10 ** 30, 10 ** 30))
        if k == 2:
            return "%s%d.%de%d" % (rng0.choice(["", "+", "-"]), rng0.randint(0, 999), rng0.randint(0, 10 ** 20), rng0.randint(-330, 300))
        if k == 3:
            return rng0.choice([" 1 ", "1_000.5", "1e+5", "1E-5", ".5e1", "5.", "-.5", "+-1", "1 2", "1e5.0", "0x1p3", "1_e5", "1e_5", "1._5", "_1", "--1", "e5", ".e5", "1.e5", "\t2\n"])
        if k == 4:
            return "%d.%0*d" % (rng0.randint(0, 10), rng0.randint(1, 30), rng0.randint(0, 10 ** 18))
        return "0.%s1" % ("0" * rng0.randint(300, 330))
    for si in range(40):
        fl = [x for x in (rfloat() for _ in range(5)) if x != 0]
        f = _B(input_vars=fl, output_vars=[])
        r = run_from_dict(f)
        add("from_dict", json_to_coq(f), exp_contract(r), ("special-float-repr", fl))
        tally("from_dict-float-repr", r)
    for si in range(250):
        st = rnumstr()
        try:
            v = float(st)
            if v != v or abs(v) == float("inf"):
                continue  # non-finite: outside the model
        except ValueError:
            pass
        f = _B(assumptions=[{"constant": st, "coefficients": {}}])
        r = run_from_dict(f)
        add("from_dict", json_to_coq(f), exp_contract(r), ("special-float-str", st))
        tally("from_dict-float-str", r)
    # (3) faults of whole files through read_contracts_from_file
    files = []
    for di, valid in enumerate(MACHINE_DICTS):
        files.append([{"name": f"m{di}", "type": "PolyhedralIoContract_machine", "data": valid}])
    for di, valid in enumerate(STRING_DICTS):
        files.append([{"name": f"s{di}", "type": "PolyhedralIoContract", "data": valid}])
    files.append([{"name": "k0", "type": "PolyhedralIoContractCompound",
                   "data": {"input_vars": ["x"], "output_vars": ["y"], "assumptions": [["x <= 1"]], "guarantees": [["y <= 2"], ["y >= 5"]]}}])
    files.append([{"name": "a", "type": "PolyhedralIoContract_machine", "data": MACHINE_DICTS[0]},
                  {"name": "b", "type": "PolyhedralIoContract", "data": STRING_DICTS[0]}])
    n_real_diff = 0
    real_diff_kinds = {}
    for fi, valid in enumerate(files):
        for d, f in list(faults(valid)) + [(("valid",), valid)]:
            r = run_reader(f, instrumented=True)
            add("read_file", json_to_coq(f), exp_file(r), ("file", fi, d))
            tally(f"read_file[{valid[0]['type']}]", r)
            real = run_reader(f, instrumented=False)
            if real[0] != r[0]:
                # only the stages behind the model's boundary (parser, simplifier, compound constructor) may differ
                n_real_diff += 1
                real_diff_kinds[(r[0], real[0])] = real_diff_kinds.get((r[0], real[0]), 0) + 1
                assert r[0] == "ok", (d, r[0], real[0])
    for si, f in enumerate(SPECIAL_DICTS):
        ff = [{"name": "sp", "type": "PolyhedralIoContract_machine", "data": f}]
        r = run_reader(ff, instrumented=True)
        add("read_file", json_to_coq(ff), exp_file(r), ("file-special", si))
        tally("read_file[special]", r)
    # (4) round trips of random valid contracts
    rng = random.Random(seed)
    n_rt = 0
    while n_rt < n_random:
        d = random_contract_dict(rng)
        assert run_validate(d, True)[0] == "ok"
        try:
            c = P.from_dict(copy.deepcopy(d), simplify=False)
        except Exception as e:  # noqa: BLE001
            raise AssertionError((d, e))
        n_rt += 1
        add("from_dict", json_to_coq(d), exp_contract(("ok", coqfmt.contract_of(c))), ("random", n_rt))
        md = c.to_machine_dict()
        add("to_machine", contract_to_coq(c), json_to_coq(md), ("random", n_rt))
        c2 = P.from_dict(copy.deepcopy(md), simplify=False)
        assert coqfmt.contract_of(c2) == coqfmt.contract_of(c), "python round trip"
        add("from_dict", json_to_coq(md), exp_contract(("ok", coqfmt.contract_of(c))), ("random-roundtrip", n_rt))
        if n_rt % 10 == 0:
            from pacti.utils.fileio import write_contracts_to_file
            fd, fn = tempfile.mkstemp(suffix=".json")
            os.close(fd)
            write_contracts_to_file([c, c2], ["n1", "n2"], fn, machine_representation=True)
            written = json.load(open(fn))
            os.remove(fn)
            add("write_file", f'[("n1", {contract_to_coq(c)}); ("n2", {contract_to_coq(c2)})]', json_to_coq(written), ("random-write", n_rt))
            r = run_reader(written, instrumented=True)
            add("read_file", json_to_coq(written), exp_file(r), ("random-read", n_rt))
            assert r[0] == "ok" and [x[2] for x in r[1]] == [coqfmt.contract_of(c)] * 2
    t1 = time.time()
    bad = check_in_coq(checks)
    t2 = time.time()
    if verbose:
        print(f"json selftest: {len(checks)} checks in Coq {stats}")
        for g in sorted(outcomes):
            print(f"  python outcomes {g}: {outcomes[g]}")
        print(f"  reader, real vs instrumented classification differences (stages behind the model boundary): "
              f"{n_real_diff} {real_diff_kinds}")
        print(f"  python {t1 - t0:.1f}s, coq {t2 - t1:.1f}s")
        print(f"  MISMATCHES: {len(bad)}")
        for i in bad[:40]:
            print("   ", i, descr[i])
            print("      ", checks[i][:1500])
    return len(bad), len(checks)


if __name__ == "__main__":
    nbad, n = selftest()
    sys.exit(1 if nbad else 0)
