#!/venv/bin/python
"""./check driver.  Usage:
     ./check --setup                      cold build of the Coq development
     ./check Cxx [--tier quick|thorough]  run the check of one property
     ./check Cxx --replay <file>          re-run a recorded violation
   Environment: VERIF_SEED, VERIF_TIER."""
from __future__ import annotations

import importlib
import json
import os
import sys
import time
import traceback

sys.path.insert(0, os.path.dirname(os.path.abspath(__file__)))
import common  # noqa: E402

common.ensure_env()


def setup():
    t0 = time.time()
    common.assert_pacti_from_repo()
    with common.Lock():
        ok, msg = common.regen()
        print("translator:", msg)
        if not ok:
            print("SETUP: translator failed (continuing: checks will report it)")
        targets = [f[:-2] + ".vo" for f in common.coq_project_files()]
        ok, log = common.coq_make(targets, timeout=3000)
        if not ok:
            print(log[-3000:])
            print("SETUP: coq build failed")
            return 1
    bad = common.gate_sources()
    if bad:
        print("SETUP: forbidden constructs:", bad)
        return 1
    print(f"setup ok in {time.time() - t0:.1f}s")
    return 0


def main(argv):
    if len(argv) >= 2 and argv[1] == "--setup":
        return setup()
    if len(argv) < 2:
        print(__doc__)
        return 2
    prop = argv[1]
    tier = os.environ.get("VERIF_TIER", "quick")
    replay = None
    i = 2
    while i < len(argv):
        if argv[i] == "--tier":
            tier = argv[i + 1]; i += 2
        elif argv[i] == "--replay":
            replay = argv[i + 1]; i += 2
        else:
            i += 1
    seed = int(os.environ.get("VERIF_SEED", "20240601"))
    if replay:
        # a replay file records the seed and tier of the run that produced it: every generator is a function of the seed,
        # so re-running the check with them regenerates the same inputs against the CURRENT tree
        import json
        rec = json.load(open(replay))
        seed, tier = int(rec.get("seed", seed)), rec.get("tier", tier)
    common.assert_pacti_from_repo()
    import props
    ctx = props.Ctx(prop, tier, seed, replay)
    t0 = time.time()
    try:
        mod = importlib.import_module(f"props.{prop.lower()}")
        mod.check(ctx)
    except SystemExit as e:
        # helper modules fail closed with SystemExit when the source no longer has the shape they mirror, or a model no longer
        # builds: that is a broken correspondence of this property (reported as such), never a silent exit
        ctx.broke("correspondence:harness", "a harness module stopped: " + str(e)[:1500])
    except Exception:  # noqa: BLE001 a crash of the machinery must not look like a pass
        traceback.print_exc()
        ctx.machinery_failure("harness crashed: " + traceback.format_exc()[-1500:])
    return ctx.finish(time.time() - t0)


if __name__ == "__main__":
    sys.exit(main(sys.argv))
