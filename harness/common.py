"""Shared plumbing for ./check: environment pinning, Coq builds, gates, evidence, verdicts."""
from __future__ import annotations

import fcntl
import hashlib
import json
import os
import re
import subprocess
import sys
import time

VERIF = os.path.dirname(os.path.dirname(os.path.abspath(__file__)))
REPO = os.environ.get("VERIF_REPO", "/repo")
COQ = os.path.join(VERIF, "coq")
CASES = os.path.join(COQ, "cases")
PY = "/venv/bin/python"
QFLAGS = ["-Q", "base", "", "-Q", "gen", "", "-Q", "model", "", "-Q", "proofs", "", "-Q", "props", "", "-Q", "cases", ""]
NPROC = int(os.environ.get("VERIF_JOBS", "16"))

ALLOWED_AXIOMS = {
    "ClassicalDedekindReals.sig_forall_dec",
    "ClassicalDedekindReals.sig_not_dec",
    "FunctionalExtensionality.functional_extensionality_dep",
}
FORBIDDEN = re.compile(
    r"\b(Admitted|admit|Axiom|Axioms|Parameter|Parameters|Conjecture|Conjectures|Abort All|Admit Obligations"
    r"|bypass_check|native_compute)\b|Unset\s+Guard|Unset\s+Positivity|Unset\s+Universe|-type-in-type|-impredicative-set"
)


def ensure_env():
    """Re-exec under /venv/bin/python with PYTHONPATH=/repo/src PYTHONHASHSEED=0 (DESIGN 1: import trap)."""
    want = os.path.join(REPO, "src")
    if (os.path.realpath(sys.executable) != os.path.realpath(PY) or os.environ.get("PYTHONHASHSEED") != "0"
            or os.environ.get("PYTHONPATH", "").split(":")[0] != want or os.environ.get("PACTI_VERIF") != "1"):
        env = dict(os.environ)
        env["PYTHONPATH"] = want + ":" + os.path.join(VERIF, "harness")
        env["PYTHONHASHSEED"] = "0"
        env["PACTI_VERIF"] = "1"
        env["OMP_NUM_THREADS"] = "1"
        env["OPENBLAS_NUM_THREADS"] = "1"
        os.execve(PY, [PY] + sys.argv, env)


def assert_pacti_from_repo():
    import pacti
    f = os.path.realpath(pacti.__file__)
    if not f.startswith(os.path.realpath(os.path.join(REPO, "src")) + os.sep):
        raise SystemExit(f"FAIL-CLOSED: pacti imported from {f}, not from {REPO}/src")


class Lock:
    def __init__(self):
        self.fh = None

    def __enter__(self):
        self.fh = open(os.path.join(VERIF, ".lock"), "w")
        fcntl.flock(self.fh, fcntl.LOCK_EX)
        return self

    def __exit__(self, *a):
        fcntl.flock(self.fh, fcntl.LOCK_UN)
        self.fh.close()


def run(cmd, cwd=None, timeout=600, env=None):
    t0 = time.time()
    try:
        p = subprocess.run(cmd, cwd=cwd, timeout=timeout, capture_output=True, text=True, env=env)
        return p.returncode, p.stdout + p.stderr, time.time() - t0
    except subprocess.TimeoutExpired as e:
        out = (e.stdout or b"").decode() if isinstance(e.stdout, bytes) else (e.stdout or "")
        return 124, out + "\nTIMEOUT", time.time() - t0


# ---------------------------------------------------------------- translator + build
def regen():
    """Run the T1 translator on /repo's current tree. Returns (ok, message)."""
    os.makedirs(os.path.join(COQ, "gen"), exist_ok=True)
    rc, out, _ = run([PY, os.path.join(VERIF, "translator", "py2coq.py"), REPO, os.path.join(COQ, "gen")], timeout=120)
    return rc == 0, out.strip()


def coq_project_files():
    files = []
    for line in open(os.path.join(COQ, "_CoqProject")):
        line = line.strip()
        if line.endswith(".v"):
            files.append(line)
    return files


def ensure_makefile():
    mk = os.path.join(COQ, "Makefile")
    cp = os.path.join(COQ, "_CoqProject")
    if not os.path.exists(mk) or os.path.getmtime(mk) < os.path.getmtime(cp):
        rc, out, _ = run(["coq_makefile", "-f", "_CoqProject", "-o", "Makefile"], cwd=COQ, timeout=60)
        if rc != 0:
            raise SystemExit("coq_makefile failed:\n" + out)


def coq_make(targets, timeout=1500):
    """make the given .vo targets (and their dependencies). Returns (ok, log)."""
    ensure_makefile()
    rc, out, dt = run(["make", "-j", str(NPROC), "-k", "COQC=timeout 600 coqc"] + targets, cwd=COQ, timeout=timeout)
    return rc == 0, out


def coqc(vfile, timeout=600):
    """Compile one file (relative to coq/) and return (rc, output)."""
    rc, out, dt = run(["coqc"] + QFLAGS + [vfile], cwd=COQ, timeout=timeout)
    return rc, out


def first_error(log):
    m = re.search(r'File "([^"]+)", line (\d+)[^\n]*\n(Error:[^\n]*(?:\n[^\n]+){0,6})', log)
    if m:
        return f"{m.group(1)}:{m.group(2)}: {m.group(3)[:600]}"
    return log[-800:]


def gate_sources():
    """No Admitted/Axiom/... anywhere in the development (comments stripped)."""
    bad = []
    for root, _, files in os.walk(COQ):
        if os.path.basename(root) == "cases":
            continue
        for f in files:
            if not f.endswith(".v"):
                continue
            p = os.path.join(root, f)
            src = strip_comments(open(p).read())
            for m in FORBIDDEN.finditer(src):
                bad.append(f"{os.path.relpath(p, COQ)}: {m.group(0)}")
    return bad


def strip_comments(s):
    out = []
    depth = 0
    i = 0
    instr = False
    while i < len(s):
        if depth == 0 and s[i] == '"':
            instr = not instr
            out.append(s[i]); i += 1; continue
        if not instr and s.startswith("(*", i):
            depth += 1; i += 2; continue
        if not instr and depth > 0 and s.startswith("*)", i):
            depth -= 1; i += 2; continue
        if depth == 0:
            out.append(s[i])
        i += 1
    return "".join(out)


def parse_assumptions(out):
    """Parse the output of a props file: sequence of Print Assumptions results.
    Returns (n_closed, axioms set)."""
    closed = len(re.findall(r"Closed under the global context", out))
    axioms = set()
    for block in re.split(r"\nAxioms:\n", "\n" + out)[1:]:
        for line in block.split("\n"):
            m = re.match(r"^([A-Za-z_][\w.']*)\s*$", line) or re.match(r"^([A-Za-z_][\w.']*)\s*:", line)
            # coqc diagnostics ("File "...", line …:" / "Warning: … [name,category]") are not axiom names
            if m and not line.startswith(" ") and m.group(1) not in ("Warning", "File"):
                axioms.add(m.group(1))
    return closed, axioms


def count_theorems(vfile):
    if not os.path.exists(os.path.join(COQ, vfile)):
        return 0
    src = strip_comments(open(os.path.join(COQ, vfile)).read())
    return len(re.findall(r"^\s*(Theorem|Lemma|Corollary|Example|Fact|Proposition)\s", src, re.M))


def theorem_names(vfile):
    src = strip_comments(open(os.path.join(COQ, vfile)).read())
    return re.findall(r"^\s*(?:Theorem|Lemma|Corollary|Example|Fact|Proposition)\s+([\w']+)", src, re.M)


# ---------------------------------------------------------------- cases (model evaluation inside Coq)
def run_cases(name, body, timeout=900):
    """Write coq/cases/<name>.v with the given body, compile, return (rc, output)."""
    os.makedirs(CASES, exist_ok=True)
    p = os.path.join(CASES, name + ".v")
    with open(p, "w") as fh:
        fh.write(body)
    rc, out, dt = run(["coqc"] + QFLAGS + [os.path.join("cases", name + ".v")], cwd=COQ, timeout=timeout)
    for ext in (".vo", ".vok", ".vos", ".glob"):
        try:
            os.remove(os.path.join(CASES, name + ext))
        except OSError:
            pass
    try:
        os.remove(os.path.join(CASES, "." + name + ".aux"))
    except OSError:
        pass
    return rc, out


def run_cases_parallel(jobs, timeout=900):
    """jobs: list of (name, body). Returns dict name -> (rc, out)."""
    from concurrent.futures import ThreadPoolExecutor
    res = {}
    with ThreadPoolExecutor(max_workers=NPROC) as ex:
        futs = {ex.submit(run_cases, n, b, timeout): n for n, b in jobs}
        for f, n in futs.items():
            res[n] = f.result()
    return res


def parse_nat_list(out, tag):
    """Find `TAG = [..] : list nat`-style output printed by  Eval vm_compute in (tag, ...)."""
    m = re.search(r"=\s*\(\s*\"" + re.escape(tag) + r"\"\s*,\s*(\[[^\]]*\]|nil)\s*\)", out.replace("\n", " "))
    if not m:
        return None
    body = m.group(1)
    if body == "nil" or body == "[]":
        return []
    return [int(x.strip().replace("%nat", "")) for x in body.strip("[]").split(";") if x.strip()]


# ---------------------------------------------------------------- evidence / verdicts
def known_findings():
    p = os.path.join(VERIF, "known_findings.json")
    if not os.path.exists(p):
        return []
    return json.load(open(p))["findings"]


def write_replay(prop, payload):
    os.makedirs(os.path.join(VERIF, "replays"), exist_ok=True)
    blob = json.dumps(payload, sort_keys=True, default=str)
    h = hashlib.sha256(blob.encode()).hexdigest()[:12]
    p = os.path.join(VERIF, "replays", f"{prop}-{h}.json")
    with open(p, "w") as fh:
        json.dump(payload, fh, indent=1, sort_keys=True, default=str)
    return p


def write_evidence(prop, tier, seed, coverage, wall, violations, assumptions):
    os.makedirs(os.path.join(VERIF, "evidence"), exist_ok=True)
    ev = {
        "property_id": prop, "tier": tier, "seed": int(seed), "level": "proof",
        "coverage": coverage, "assumptions": assumptions, "wall_s": round(wall, 2), "violations": int(violations),
    }
    p = os.path.join(VERIF, "evidence", f"{prop}.json")
    with open(p, "w") as fh:
        json.dump(ev, fh, indent=1, default=str)
    return p


TRUSTED_BASE = [
    "coqc 8.16.1 kernel (full .vo builds, vm_compute for case evaluation, no native_compute)",
    "stdlib axioms only, where real numbers are used: ClassicalDedekindReals.sig_forall_dec, "
    "ClassicalDedekindReals.sig_not_dec, FunctionalExtensionality.functional_extensionality_dep",
    "translator/py2coq.py and its generator modules py2coq_*.py (python ast -> Gallina, fail-closed per output file, per function in the polyhedra.py generators): "
    "lists.py, iocontract.py, compundiocontract.py, polyhedra.py (terms, term lists, tactics, LP functions), the syntax classes and parse actions, the grammar rules, "
    "serializer.py (validation, printer), polyhedral_iocontract.py (wrappers, dictionary forms incl. compound contracts), fileio.py, the vertex routine of plots.py",
    "translator/py2coq_heap.py (python ast -> effect program of base/PyHeap.v, C13): statement classification, external callables assumed read-only, annotated Var/str/int/float/bool values as atoms (docs/HEAPGEN_REPORT.md)",
    "correspondence harness (generators, float->Q conversion via as_integer_ratio, LP/sympy recorders, canonicalisation)",
    "hand-written models coq/model/*.v: proved equal to the regenerated translation where a Cxx_code_* theorem says so, tied by correspondence otherwise (pyparsing engine, %.4g / np.isclose, session machine, external solvers as oracles)",
    "scipy/HiGHS assumed to meet lp_spec (each recorded answer validated by exact certificates, base/Farkas.v)",
]
