"""Exact rational LP (Bland simplex over fractions.Fraction) producing certificates.

UNTRUSTED: every verdict derived from it is accompanied by a certificate (Farkas multipliers, a
point, a ray) that is re-checked exactly here and again by base/Farkas.v inside Coq.

Problem form:  minimise c.x  subject to  A x <= b,  x free.
"""
from __future__ import annotations

from fractions import Fraction as F
from typing import Dict, List, Optional, Sequence, Tuple


class LPBug(Exception):
    pass


def _pivot(T, r, c):
    piv = T[r][c]
    row = [v / piv for v in T[r]]
    T[r] = row
    for i in range(len(T)):
        if i != r:
            f = T[i][c]
            if f != 0:
                Ti = T[i]
                T[i] = [a - f * b for a, b in zip(Ti, row)]


def _simplex(T, basis, allowed):
    """maximise; objective row T[-1] holds -c (reduced costs); Bland's rule."""
    it = 0
    while True:
        it += 1
        if it > 20000:
            raise LPBug("simplex did not terminate")
        enter = None
        last = T[-1]
        for j in allowed:
            if last[j] < 0:
                enter = j
                break
        if enter is None:
            return "opt", None
        best = None
        for i in range(len(T) - 1):
            a = T[i][enter]
            if a > 0:
                ratio = T[i][-1] / a
                if best is None or ratio < best[0] or (ratio == best[0] and basis[i] < basis[best[1]]):
                    best = (ratio, i)
        if best is None:
            return "unbounded", enter
        _pivot(T, best[1], enter)
        basis[best[1]] = enter


def lp_min(c: Sequence[F], A: Sequence[Sequence[F]], b: Sequence[F]) -> dict:
    """Returns {'status': 'opt', 'value', 'x', 'y'} | {'status': 'infeasible', 'y'} |
    {'status': 'unbounded', 'x', 'ray'}.  y are multipliers on the rows (>= 0)."""
    n = len(c)
    m = len(A)
    c = [F(v) for v in c]
    A = [[F(v) for v in r] for r in A]
    b = [F(v) for v in b]
    if m == 0:
        if all(v == 0 for v in c):
            return {"status": "opt", "value": F(0), "x": [F(0)] * n, "y": []}
        ray = [-v for v in c]
        return {"status": "unbounded", "x": [F(0)] * n, "ray": ray}
    nz = 2 * n
    ncol = nz + m          # z+ z- slacks
    T = []
    for i in range(m):
        T.append(A[i] + [-v for v in A[i]] + [F(1) if k == i else F(0) for k in range(m)] + [b[i]])
    basis = [nz + i for i in range(m)]
    allowed = list(range(ncol))
    if min(b) < 0:
        # phase 1 with artificial column `art`
        art = ncol
        for i in range(m):
            T[i] = T[i][:-1] + [F(-1)] + [T[i][-1]]
        T.append([F(0)] * ncol + [F(1), F(0)])
        r = min(range(m), key=lambda i: (b[i], i))
        _pivot(T, r, art)
        basis[r] = art
        st, _ = _simplex(T, basis, list(range(ncol + 1)))
        if st != "opt":
            raise LPBug("phase 1 unbounded")
        if T[-1][-1] < 0:
            y = [T[-1][nz + i] for i in range(m)]
            _check_infeasible(A, b, y)
            return {"status": "infeasible", "y": y}
        if art in basis:
            r = basis.index(art)
            col = next((j for j in range(ncol) if T[r][j] != 0), None)
            if col is None:
                raise LPBug("artificial row empty")
            _pivot(T, r, col)
            basis[r] = col
        T = [row[:ncol] + [row[-1]] for row in T[:-1]]
        obj = [v for v in c] + [-v for v in c] + [F(0)] * m + [F(0)]   # -c' with c' = (-c, c)
        T.append(obj)
        for i in range(m):
            f = T[-1][basis[i]]
            if f != 0:
                T[-1] = [a - f * bb for a, bb in zip(T[-1], T[i])]
    else:
        T.append([v for v in c] + [-v for v in c] + [F(0)] * m + [F(0)])
    st, enter = _simplex(T, basis, allowed)
    z = [F(0)] * ncol
    for i in range(m):
        z[basis[i]] = T[i][-1]
    x = [z[j] - z[n + j] for j in range(n)]
    if st == "opt":
        y = [T[-1][nz + i] for i in range(m)]
        value = -T[-1][-1]
        _check_opt(c, A, b, x, y, value)
        return {"status": "opt", "value": value, "x": x, "y": y}
    d = [F(0)] * ncol
    d[enter] = F(1)
    for i in range(m):
        d[basis[i]] = -T[i][enter]
    ray = [d[j] - d[n + j] for j in range(n)]
    _check_unbounded(c, A, b, x, ray)
    return {"status": "unbounded", "x": x, "ray": ray}


def dot(a, x):
    return sum((p * q for p, q in zip(a, x)), F(0))


def _check_infeasible(A, b, y):
    if any(v < 0 for v in y):
        raise LPBug("farkas y negative")
    n = len(A[0]) if A else 0
    for j in range(n):
        if sum((y[i] * A[i][j] for i in range(len(A))), F(0)) != 0:
            raise LPBug("farkas yA != 0")
    if not dot(y, b) < 0:
        raise LPBug("farkas yb >= 0")


def _check_opt(c, A, b, x, y, value):
    for i in range(len(A)):
        if dot(A[i], x) > b[i]:
            raise LPBug("opt x infeasible")
    if dot(c, x) != value:
        raise LPBug("opt value mismatch")
    if any(v < 0 for v in y):
        raise LPBug("opt y negative")
    for j in range(len(c)):
        if sum((y[i] * A[i][j] for i in range(len(A))), F(0)) != -c[j]:
            raise LPBug("opt dual equality fails")
    if dot(y, b) != -value:
        raise LPBug("opt strong duality fails")


def _check_unbounded(c, A, b, x, ray):
    for i in range(len(A)):
        if dot(A[i], x) > b[i]:
            raise LPBug("unb x infeasible")
        if dot(A[i], ray) > 0:
            raise LPBug("unb ray leaves")
    if not dot(c, ray) < 0:
        raise LPBug("unb ray not improving")


# ---------------------------------------------------------------- term-level helpers
# a term is (coeffs: dict var -> Fraction, const: Fraction) meaning  sum coeffs[v]*v <= const
Term = Tuple[Dict[str, F], F]


def term_vars(ts: Sequence[Term]) -> List[str]:
    vs: List[str] = []
    for co, _ in ts:
        for v in co:
            if v not in vs:
                vs.append(v)
    return vs


def rows_of(ts: Sequence[Term], vs: Sequence[str]):
    return [[co.get(v, F(0)) for v in vs] for co, _ in ts], [k for _, k in ts]


def maximize(lin: Dict[str, F], H: Sequence[Term], extra_vars: Sequence[str] = ()) -> dict:
    """max lin.x subject to H.  Returns lp_min result on (-lin) with 'vars'; value is the max."""
    vs = term_vars(list(H) + [(lin, F(0))])
    for v in extra_vars:
        if v not in vs:
            vs.append(v)
    A, b = rows_of(H, vs)
    c = [-lin.get(v, F(0)) for v in vs]
    r = lp_min(c, A, b)
    r["vars"] = vs
    if r["status"] == "opt":
        r["max"] = -r["value"]
        r["point"] = dict(zip(vs, r["x"]))
    elif r["status"] == "unbounded":
        r["point"] = dict(zip(vs, r["x"]))
        r["raymap"] = dict(zip(vs, r["ray"]))
    return r


def box_terms(vs: Sequence[str], bound) -> List[Term]:
    out = []
    bd = F(bound)
    for v in vs:
        out.append(({v: F(1)}, bd))
        out.append(({v: F(-1)}, bd))
    return out


def feasible(H: Sequence[Term]) -> dict:
    return maximize({}, H)


def evalf(lin: Dict[str, F], p: Dict[str, F]) -> F:
    return sum((a * p.get(v, F(0)) for v, a in lin.items()), F(0))


def holds_at(t: Term, p: Dict[str, F]) -> bool:
    return evalf(t[0], p) <= t[1]
