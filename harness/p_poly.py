"""Correspondence (implementation vs model/Poly.v, model/Tactics.v with LP replay) and exact
semantic oracles for the polyhedral layer."""
from __future__ import annotations

from fractions import Fraction as F

import coqfmt as cf
import common
import exactlp as lp
import gen
import record
from p_algebra import err_code

TOL = F(1, 10000)
SLACK = F(1, 10 ** 7)
BOX = 1000

PRELUDE = """From Coq Require Import List String Bool QArith ZArith.
Import ListNotations.
Require Import Py ListsGen AlgebraGen Sem Term Poly Tactics Corr PolyDomain.
Open Scope string_scope.
"""


# ------------------------------------------------------------------ running the implementation
def observe(f):
    """Run f() under the LP recorder; returns (kind, value, calls): kind 'ok' | 'err'."""
    with record.Recording() as calls:
        try:
            v = f()
            return "ok", v, list(calls)
        except Exception as e:  # noqa: BLE001 classified
            return "err", (err_code(e), type(e).__name__, str(e)[:200]), list(calls)


def exp_terms(kind, v):
    if kind == "ok":
        return f"(Exp {cf.terms(cf.pts_of(v))})"
    return f"(ExpErr {cf.nat(v[0])})"


def exp_bool(kind, v):
    return f"(Exp {cf.boolean(v)})" if kind == "ok" else f"(ExpErr {cf.nat(v[0])})"


def exp_optq(kind, v):
    if kind == "ok":
        return "(Exp None)" if v is None else f"(Exp (Some {cf.q(F(float(v)))}))"
    return f"(ExpErr {cf.nat(v[0])})"


def exp_elim(kind, v):
    if kind == "ok":
        tl, st = v
        stats = cf.lst(f"(({int(s[0])})%Z, ({int(s[2])})%Z)" for s in st)
        return f"(Exp ({cf.terms(cf.pts_of(tl))}, {stats}))"
    return f"(ExpErr {cf.nat(v[0])})"


def evaluate_cases(tag, exprs, chunk=250):
    """exprs: list of Gallina boolean expressions. Returns (mismatch indices, errors)."""
    jobs = []
    for k in range(0, len(exprs), chunk):
        body = PRELUDE + "Definition results : list bool := [\n  " + ";\n  ".join(exprs[k:k + chunk]) + "].\n"
        body += 'Eval vm_compute in ("mismatch", falses 0 results).\n'
        jobs.append((f"{tag}_{k // chunk}", body))
    res = common.run_cases_parallel(jobs)
    mism, errors = [], []
    for k in range(0, len(exprs), chunk):
        rc, out = res[f"{tag}_{k // chunk}"]
        idx = common.parse_nat_list(out, "mismatch") if rc == 0 else None
        if idx is None:
            errors.append(common.first_error(out))
        else:
            mism += [k + i for i in idx]
    return mism, errors


def coq_eval(expr):
    """Evaluate one Gallina expression with vm_compute and return the printed text (debugging / replay)."""
    body = PRELUDE + f"Eval vm_compute in ({expr}).\n"
    rc, out = common.run_cases("dbg_eval", body)
    return out


# ------------------------------------------------------------------ exact oracle helpers
CERTS = []      # certificates to be re-checked by base/Farkas.v: (kind, data...)


def implied(H, t, tol=TOL, box=BOX, vs_extra=()):
    """Is t implied by H inside the box, up to tol*(1+|c|)?  Returns None (yes, certified) or a witness point."""
    lin, c = t
    vs = lp.term_vars(list(H) + [t])
    for v in vs_extra:
        if v not in vs:
            vs.append(v)
    Hb = list(H) + (lp.box_terms(vs, box) if box else [])
    r = lp.maximize(lin, Hb)
    bound = c + tol * (1 + abs(c))
    if r["status"] == "infeasible":
        CERTS.append(("infeasible", Hb, r["y"]))
        return None
    if r["status"] == "unbounded":
        # walk along the ray until the bound is exceeded
        p, d = r["point"], r["raymap"]
        step = F(1)
        gain = lp.evalf(lin, d)
        need = bound - lp.evalf(lin, p)
        if need >= 0:
            step = need / gain + 1
        q = {v: p.get(v, F(0)) + step * d.get(v, F(0)) for v in vs}
        CERTS.append(("witness", Hb, (lin, c), tol, q))
        return q
    if r["max"] > bound:
        CERTS.append(("witness", Hb, (lin, c), tol, r["point"]))
        return r["point"]
    CERTS.append(("implies", Hb, (lin, bound), r["y"]))
    return None


def implied_all(H, ts, **kw):
    for t in ts:
        w = implied(H, t, **kw)
        if w is not None:
            return t, w
    return None


def exactly_implied(H, t):
    """exact, unboxed: True / False / None (H infeasible counts as True)"""
    r = lp.maximize(t[0], H)
    if r["status"] == "infeasible":
        return True
    if r["status"] == "unbounded":
        return False
    return r["max"] <= t[1]


def is_feasible(H):
    return lp.feasible(H)["status"] != "infeasible"


def shrink(ts, m):
    return [(co, c - m * (1 + abs(c))) for co, c in ts]


def relax(ts, m):
    return [(co, c + m * (1 + abs(c))) for co, c in ts]


def check_certs(tag):
    """Re-check the accumulated certificates with base/Farkas.v.  Returns (n, rejected indices, errors)."""
    if not CERTS:
        return 0, [], []
    exprs = []
    certs = list(CERTS)
    CAP = 1500
    if len(certs) > CAP:
        # every certificate was already verified exactly by exactlp; Coq re-checks all witnesses and a sample of the rest
        import random as _r
        rr = _r.Random(len(certs))
        wit = [c for c in certs if c[0] == "witness"]
        rest = [c for c in certs if c[0] != "witness"]
        certs = wit + rr.sample(rest, max(0, min(len(rest), CAP - len(wit))))
    for cert in certs:
        if cert[0] == "implies":
            _, H, t, y = cert
            exprs.append(f"check_implies {cf.terms(H)} {cf.term(t)} {cf.qlist(y)}")
        elif cert[0] == "infeasible":
            _, H, y = cert
            exprs.append(f"check_infeasible {cf.terms(H)} {cf.qlist(y)}")
        elif cert[0] == "witness":
            _, H, t, tol, p = cert
            pt = cf.pvars(p)
            exprs.append(f"(check_point {cf.terms(H)} {pt} && check_violates {cf.q(tol)} {cf.term(t)} {pt})")
        elif cert[0] == "point":
            _, H, p = cert
            exprs.append(f"check_point {cf.terms(H)} {cf.pvars(p)}")
    n = len(exprs)
    CERTS.clear()
    jobs = []
    chunk = 400
    pre = ("From Coq Require Import List String Bool QArith ZArith.\nImport ListNotations.\n"
           "Require Import Py Sem Farkas.\nOpen Scope string_scope.\n"
           "Fixpoint falses (n : nat) (l : list bool) : list nat :=\n"
           "  match l with [] => [] | b :: r => (if b then [] else [n]) ++ falses (S n) r end.\n")
    for k in range(0, n, chunk):
        body = pre + "Definition results : list bool := [\n  " + ";\n  ".join(exprs[k:k + chunk]) + "].\n"
        body += 'Eval vm_compute in ("mismatch", falses 0 results).\n'
        jobs.append((f"{tag}_cert_{k // chunk}", body))
    res = common.run_cases_parallel(jobs)
    rej, errors = [], []
    for k in range(0, n, chunk):
        rc, out = res[f"{tag}_cert_{k // chunk}"]
        idx = common.parse_nat_list(out, "mismatch") if rc == 0 else None
        if idx is None:
            errors.append(common.first_error(out))
        else:
            rej += [k + i for i in idx]
    return n, rej, errors


def finish_certs(ctx, tag):
    n, rej, errs = check_certs(tag)
    ctx.notes["certificates_checked_by_coq"] = ctx.notes.get("certificates_checked_by_coq", 0) + n
    if rej or errs:
        ctx.machinery_failure(f"certificate checker rejected {len(rej)} of {n} certificates / errors {errs[:2]}")


def validate_lp(ctx, calls):
    n, bad = record.validate_calls(calls)
    ctx.notes["lp_calls_validated"] = ctx.notes.get("lp_calls_validated", 0) + n
    ctx.notes["lp_answers_off_spec"] = ctx.notes.get("lp_answers_off_spec", 0) + len(bad)
    return bad
