"""C18 — plot vertices are exactly the corners of the plotted slice
(model/Plots.v with Qhull / Chebyshev LP as validated oracles; proofs/PlotsFacts.v)."""
import itertools
import random
from fractions import Fraction as F

import exactlp as lp
import plots_cases as pc


def slice_rows(case):
    """independent exact computation of the 2-D rows from the case (not from anything the implementation produced)"""
    vals = dict(case["vals"])
    x, y = case["x"], case["y"]
    rows = []
    cons = list(case["cs"]) + [({x: F(1)}, F(case["xl"][1])), ({x: F(-1)}, -F(case["xl"][0])),
                               ({y: F(1)}, F(case["yl"][1])), ({y: F(-1)}, -F(case["yl"][0]))]
    for lin, c in cons:
        a = lin.get(x, F(0))
        b = lin.get(y, F(0))
        k = c - sum(q * F(vals[v]) for v, q in lin.items() if v not in (x, y))
        rows.append((F(a), F(b), F(k)))
    return rows


def exact_corners(rows):
    pts = set()
    for (a1, b1, c1), (a2, b2, c2) in itertools.combinations(rows, 2):
        det = a1 * b2 - a2 * b1
        if det == 0:
            continue
        px = (c1 * b2 - c2 * b1) / det
        py = (a1 * c2 - a2 * c1) / det
        if all(a * px + b * py <= c for a, b, c in rows):
            pts.add((px, py))
    return pts


def check(ctx):
    ctx.cov["rule"] = (
        "constraint lists over 2-4 variables with small-integer coefficients, integer values and limits in [-5,5]: polygons with "
        "1-8 corners, segments, points, empty slices, missing values, assigned plot variables; the real constraints_to_vertices "
        "run with Qhull / LP calls recorded from outside and replayed into model/Plots.v (rows, points, order and error kind "
        "compared inside Coq; Qhull's answer validated against the verified `corners`); independently the exact slice polygon is "
        "recomputed from the case and compared with the returned vertices (set equality within 1e-7, feasibility, counter-"
        "clockwise order, ValueError iff empty or unset). non-trivial = every case; distinct by generated case")
    proved = ctx.prove("props/C18.v", ["proofs/PlotsFacts.v", "proofs/PlotsGenSubstitute.v", "proofs/PlotsGenVertices.v", "proofs/PlotsGenBounding.v", "proofs/PlotsGenFacts.v"])
    ctx.build(["model/Plots.vo"])
    n = (200 if ctx.quick else 20000) * (1 if proved else 3)
    summary, (cases, recs, digs) = pc.selftest(n, ctx.seed + 18, verbose=False)
    ctx.count(n, len({repr(c) for c in cases}))
    ctx.notes["correspondence"] = {k: summary[k] for k in ("branches", "kinds", "corners_histogram", "outcomes", "on_cut_cases",
                                                           "swap_cases", "cmp_pairs_checked")}
    for name, err in summary["coq_failures"]:
        ctx.broke("correspondence:plots", f"cases file {name} failed: {err}")
    for i in summary["model_mismatches"][:5]:
        ctx.broke("correspondence:plots", f"model/Plots.v and constraints_to_vertices disagree on {cases[i]}: implementation "
                  f"{recs[i]['result']} / {recs[i]['error']}")
    if summary["cmp_disagreements"]:
        ctx.broke("correspondence:atan2", f"angular comparison of the model disagrees with math.atan2: {summary['cmp_disagreements'][:3]}")
    if summary["branch_cut_unexplained"]:
        ctx.broke("correspondence:plots", f"rotation not explained by the branch cut: {summary['branch_cut_unexplained'][:3]}")
    for i, spec in summary["oracle_spec_violations_py"][:5]:
        ctx.violation("plots:oracle_or_result_off_corners", "a returned / intermediate point is not a corner of the slice, or a corner is missing",
                      {"case": repr(cases[i]), "details": spec, "result": recs[i]["result"]})
    for i in summary["oracle_spec_violations_coq"][:5]:
        ctx.violation("plots:oracle_or_result_off_corners", "Coq's verified corners disagree with the returned points",
                      {"case": repr(cases[i]), "result": recs[i]["result"]})
    # independent end-to-end oracle
    tol = F(1, 10 ** 7)
    for c, r in zip(cases, recs):
        vals = dict(c["vals"])
        used = {v for lin, _ in c["cs"] for v in lin}
        unset = [v for v in used if v not in (c["x"], c["y"]) and v not in vals]
        bad_args = c["x"] in vals or c["y"] in vals or unset or c["x"] == c["y"]
        info = {"case": repr(c), "result": r["result"], "error": r["error"]}
        if bad_args:
            if r["error"] not in ("ValueError", "IndexError"):
                ctx.violation("plots:bad_arguments_accepted", "missing value / assigned plot variable did not raise ValueError", info)
            continue
        rows = slice_rows(c)
        const_viol = any(a == 0 and b == 0 and k < 0 for a, b, k in rows)
        corners = exact_corners(rows)
        if not corners or const_viol:
            if r["error"] != "ValueError":
                ctx.violation("plots:empty_slice_no_error", "empty slice did not raise ValueError", info)
            continue
        if r["error"] is not None:
            ctx.violation("plots:error_on_nonempty_slice", "a non-empty slice raised " + str(r["error"]), info)
            continue
        res = [(F(float(a)), F(float(b))) for a, b in r["result"]]
        for p in res:
            if not any(abs(p[0] - q[0]) <= tol and abs(p[1] - q[1]) <= tol for q in corners):
                ctx.violation("plots:point_not_a_corner", "a returned point is not a corner of the slice", dict(info, point=[float(p[0]), float(p[1])]))
                break
        for q in corners:
            if not any(abs(p[0] - q[0]) <= tol and abs(p[1] - q[1]) <= tol for p in res):
                ctx.violation("plots:corner_missing", "a corner of the slice is missing", dict(info, corner=[float(q[0]), float(q[1])]))
                break
        # angular order: distinct corners must appear in counter-clockwise order
        snapped = []
        for p in res:
            q = min(corners, key=lambda z: abs(z[0] - p[0]) + abs(z[1] - p[1]))
            if not snapped or snapped[-1] != q:
                snapped.append(q)
        if len(snapped) > 1 and snapped[0] == snapped[-1]:
            snapped.pop()
        if len(set(snapped)) >= 3 and len(snapped) == len(set(snapped)):
            m = len(snapped)
            for i in range(m):
                a, b, d = snapped[i], snapped[(i + 1) % m], snapped[(i + 2) % m]
                cross = (b[0] - a[0]) * (d[1] - b[1]) - (b[1] - a[1]) * (d[0] - b[0])
                if cross < 0:
                    ctx.violation("plots:not_in_angular_order", "returned vertices are not in angular (counter-clockwise) order", info)
                    break
    # ---- histories on ONE constraint-list object: successive calls with other limits / values must each return the corners
    #      of THEIR slice, and must leave the caller's list as it was (no axis-limit term may stick to it)
    import coqfmt as cf
    import gen
    import pacti.utils.plots as P
    from pacti.iocontract import Var
    rng = random.Random(ctx.seed + 180)
    nh = 40 if ctx.quick else 1500
    reuse = {"calls": 0, "histories": 0}
    for case in cases[:nh]:
        vals0 = dict(case["vals"])
        used = {v for lin, _ in case["cs"] for v in lin}
        if case["x"] == case["y"] or case["x"] in vals0 or case["y"] in vals0 or any(v not in vals0 for v in used if v not in (case["x"], case["y"])):
            continue
        tl = gen.mktl(case["cs"])
        before = cf.pts_of(tl)
        reuse["histories"] += 1
        steps = [(case["xl"], case["yl"]), ((case["xl"][0] - 2, case["xl"][1] + 3), (case["yl"][0] - 1, case["yl"][1] + 2)),
                 ((case["xl"][0] + 1, case["xl"][1] + 4), case["yl"])]
        for j, (xl, yl) in enumerate(steps):
            sub = dict(case, xl=xl, yl=yl)
            try:
                xs, ys = P.constraints_to_vertices(tl, Var(case["x"]), Var(case["y"]), {Var(k): float(v) for k, v in case["vals"]},
                                                   (float(xl[0]), float(xl[1])), (float(yl[0]), float(yl[1])))
                got, err = [(F(float(a)), F(float(b))) for a, b in zip(xs, ys)], None
            except Exception as e:  # noqa: BLE001
                got, err = None, type(e).__name__
            reuse["calls"] += 1
            info = {"case": repr(sub), "call_number": j + 1, "earlier_limits": [list(map(list, st)) for st in steps[:j]], "result": None if got is None else [[float(a), float(b)] for a, b in got], "error": err}
            if cf.pts_of(tl) != before:
                ctx.violation("plots:operand_modified", "constraints_to_vertices changed the constraint list passed to it", info)
                break
            rows = slice_rows(sub)
            corners = exact_corners(rows)
            if not corners or any(a == 0 and b == 0 and k < 0 for a, b, k in rows):
                if err != "ValueError":
                    ctx.violation("plots:empty_slice_no_error", "empty slice did not raise ValueError (call on a re-used list)", info)
                continue
            if err is not None:
                ctx.violation("plots:error_on_nonempty_slice", "a non-empty slice raised " + str(err) + " (call on a re-used list)", info)
                continue
            if any(not any(abs(p[0] - q[0]) <= tol and abs(p[1] - q[1]) <= tol for p in got) for q in corners) or \
               any(not any(abs(p[0] - q[0]) <= tol and abs(p[1] - q[1]) <= tol for q in corners) for p in got):
                ctx.violation("plots:history_dependent", "a later call on the same constraint list did not return the corners of its own slice", info)
    ctx.notes["reuse_histories"] = reuse
    ctx.count(reuse["calls"], reuse["histories"])
    ctx.sample({"case": repr(cases[0]), "result": recs[0]["result"], "error": recs[0]["error"]})
    ctx.assumptions += ["Qhull (HalfspaceIntersection) and the Chebyshev-centre / fallback LPs are oracles of the model: their answers "
                        "are validated on every call against the verified exact corner enumeration",
                        "the start point of the returned list depends on the sign of a float zero at the atan2 branch cut (modelled by the cut_low oracle)"]
