"""C04 — variable elimination is implication-preserving for every tactic order
(model/Tactics.v + proofs/TacticsFacts.v; correspondence with LP replay; exact certified oracle)."""
import random
from fractions import Fraction as F

import coqfmt as cf
import exactlp as lp
import gen
import p_poly as pp
import record

ORDERS = [[1], [2], [3], [4], [5], [1, 2, 3, 4, 5]]
TAU = F(1, 10 ** 9)


def gen_case(rng, exact=True):
    nv = rng.randint(2, 6)
    vs = gen.VARS[:nv]
    nel = rng.randint(1, min(3, nv - 1)) if rng.random() < 0.8 else nv
    elim = rng.sample(vs, nel)
    p = gen.rand_point(rng, vs)
    kind = "dyadic"

    def term(mention_elim, only_elim=False, pool=None):
        pool = pool or vs
        for _ in range(20):
            cand = [v for v in pool if v in elim] if only_elim else pool
            if not cand:
                cand = pool
            t = gen.rand_term(rng, cand, kind, point=p, special=elim, special_kind="pow2")
            has = any(v in elim for v in t[0])
            if has == mention_elim or only_elim:
                return t
        return t
    ts = [term(rng.random() < 0.8) for _ in range(rng.randint(1, 4))]
    ctx = []
    for _ in range(rng.randint(0, 4)):
        r = rng.random()
        if r < 0.35:
            ctx.append(term(True, only_elim=True))            # bounds on eliminated variables only (tactic 2, 5)
        elif r < 0.85:
            ctx.append(term(True))                            # links eliminated and kept variables (tactic 1, 3, 4)
        else:
            ctx.append(term(False))
    # sometimes: context bounding in the wrong direction, chains, duplicates
    if ctx and rng.random() < 0.2:
        t = rng.choice(ctx)
        ctx.append(({v: -a for v, a in t[0].items()}, -t[1] + F(rng.randint(0, 4))))
    if ts and rng.random() < 0.1:
        ctx.append(rng.choice(ts))
    refine = rng.random() < 0.5
    simplify = rng.random() < 0.5
    order = rng.choice(ORDERS + [rng.sample([1, 2, 3, 4, 5], rng.randint(1, 5))])
    if rng.random() < 0.12:
        # LP-active rows with a non-symmetric coefficient matrix on two eliminated variables (tactic 5 territory)
        u, v2 = vs[0], vs[1]
        keep = [x for x in vs[2:]] or ["k"]
        elim = [u, v2]
        a11, a12, a21, a22 = (rng.choice(gen.POW2) for _ in range(4))
        if a11 * a22 == a12 * a21:
            a22 = a22 * 2
        k1, k2 = rng.choice(keep), rng.choice(keep)
        ctx = [({u: a11, v2: a12, k1: gen.rand_coef(rng)}, F(rng.randint(0, 6))), ({u: a21, v2: a22, k2: gen.rand_coef(rng)}, F(rng.randint(0, 6)))]
        lam1, lam2 = F(rng.randint(1, 3)), F(rng.randint(1, 3))
        sgn = 1 if refine else -1
        ts = [({u: sgn * (lam1 * a11 + lam2 * a21), v2: sgn * (lam1 * a12 + lam2 * a22), rng.choice(keep): gen.rand_coef(rng)}, F(rng.randint(0, 8)))]
        order = rng.choice([[5], [5, 1], [2, 5]])
        simplify = False
    elif rng.random() < 0.15:
        # bounded LP over eliminated AND kept variables: n independent forms, each two-sided, so the optimum is a vertex whose
        # active rows are a basis of the whole space; restricted to the eliminated columns the first active rows need not bound
        # the term at all (the sign of the multipliers decides) -- tactic 5's acceptance test is what is exercised here
        nk = rng.randint(1, 2)
        names = gen.VARS[:2 + nk]
        elim = names[:2]
        n_ = len(names)
        while True:
            mat = [[F(rng.choice([-3, -2, -1, 0, 1, 2, 3])) for _ in range(n_)] for _ in range(n_)]
            if _det(mat) != 0 and all(any(r) for r in mat):
                break
        ctx = []
        for r in mat:
            lin = {names[j]: r[j] for j in range(n_) if r[j] != 0}
            ctx += [(dict(lin), F(rng.randint(0, 6))), ({k_: -a for k_, a in lin.items()}, F(rng.randint(0, 6)))]
        rng.shuffle(ctx)
        lin = {elim[0]: F(rng.choice([-3, -2, -1, 1, 2, 3])), elim[1]: F(rng.choice([-3, -2, -1, 1, 2, 3]))}
        for k_ in names[2:]:
            if rng.random() < 0.6:
                lin[k_] = F(rng.choice([-2, -1, 1, 2]))
        ts = [(lin, F(rng.randint(0, 8)))]
        order = rng.choice([[5], [5, 1], [2, 5], [1, 2, 3, 4, 5]])
        simplify = False
    elif rng.random() < 0.22:
        # a matrix of context rows over three or four eliminated variables (Kaykobad test of tactics 1 and 3)
        ts, ctx, elim, _kept = gen.kaykobad_case(rng, refine)
        order = rng.choice([[1], [1], [3], [1, 2, 3, 4, 5], [3, 1], [5, 4, 3, 2, 1]])
        simplify = False
    elif rng.random() < 0.1:
        # an eliminated variable that occurs ONLY in the context: the term's own eliminated variable is bounded through it, so a
        # tactic can bring it into the result -- relaxing must still return nothing that mentions it
        names = list(gen.VARS)
        rng.shuffle(names)
        x, y, w, z = names[:4]
        sg = rng.choice([1, -1])
        ts = [({x: gen.rand_coef(rng), y: F(-sg)}, F(rng.randint(0, 8)))]
        ctx = [({y: F(sg), w: F(-sg)}, F(rng.randint(0, 3))), ({w: F(sg), z: F(-sg)}, F(rng.randint(0, 3))), ({z: F(sg)}, F(rng.randint(0, 4)))]
        if rng.random() < 0.4:
            ctx.append(({z: F(-sg)}, F(rng.randint(0, 4))))
        rng.shuffle(ctx)
        elim = [y, w]
        order = rng.choice([[5], [1, 2, 3, 4, 5], [5, 4, 3, 2, 1], [2, 5]])
        simplify = rng.random() < 0.5
    elif rng.random() < 0.12:
        # chains of two-variable rows through eliminated variables (tactic 4 recursion), ending in a bound or in a dead end
        ts, ctx, elim, order = chain_case(rng, refine)
    elif rng.random() < 0.12:
        # the list of variables to eliminate names one of them TWICE (and perhaps one that occurs nowhere): the eliminated part of the
        # term is bounded by rows over eliminated variables only (tactic 2), with an optimum of either sign
        names = list(gen.VARS)
        rng.shuffle(names)
        x, y, z = names[:3]
        a = F(rng.choice([1, 2, -1, -3]))
        ts = [({x: gen.rand_coef(rng), y: a}, F(rng.randint(-4, 8)))]
        sg = 1 if (a > 0) == refine else -1          # the side of y that the tactic's LP pushes against
        ctx = [({y: F(sg)}, F(rng.randint(-6, 6)))] + ([({y: F(-sg)}, F(rng.randint(6, 9)))] if rng.random() < 0.5 else [])
        elim = rng.choice([[y, y], [y, z, y], [y, y, z], [z, y, y]])
        order = rng.choice([[1, 2, 3, 4, 5], [2], [2, 1], [1, 2]])
        simplify = rng.random() < 0.5
    return ts, ctx, elim, refine, simplify, order


def chain_case(rng, refine):
    k_ = rng.randint(2, 4)
    names = list(gen.VARS)
    rng.shuffle(names)
    kept, chain = names[0], names[1:1 + k_]
    s0 = rng.choice([1, -1])
    ts = [({kept: gen.rand_coef(rng), chain[0]: F(s0) * rng.choice(gen.POW2[:3])}, F(rng.randint(-4, 8)))]
    ctx = []
    sgn = s0 if refine else -s0            # direction in which the next link is useful (mostly), sometimes wrong
    for i in range(k_ - 1):
        d = sgn if rng.random() < 0.85 else -sgn
        ctx.append(({chain[i]: F(d) * rng.choice(gen.POW2[:3]), chain[i + 1]: F(-d) * rng.choice(gen.POW2[:3])}, F(rng.randint(-3, 6))))
    r = rng.random()
    if r < 0.45:
        ctx.append(({chain[-1]: F(sgn if rng.random() < 0.8 else -sgn)}, F(rng.randint(0, 6))))        # the chain ends in a bound
    elif r < 0.6:
        ctx.append(({chain[-1]: F(sgn), kept: gen.rand_coef(rng)}, F(rng.randint(0, 6))))                # … or in a kept variable
    if rng.random() < 0.3:
        ctx.append(({chain[rng.randrange(k_)]: F(rng.choice([1, -1])), kept: F(1)}, F(rng.randint(0, 6))))
    rng.shuffle(ctx)
    order = rng.choice([[4], [1, 2, 3, 4, 5], [4, 1], [3, 4]])
    return ts, ctx, list(chain), order


def _det(m):
    m = [list(r) for r in m]
    n_, d = len(m), F(1)
    for i in range(n_):
        piv = next((r for r in range(i, n_) if m[r][i] != 0), None)
        if piv is None:
            return F(0)
        if piv != i:
            m[i], m[piv] = m[piv], m[i]
            d = -d
        d *= m[i][i]
        for r in range(i + 1, n_):
            f = m[r][i] / m[i][i]
            m[r] = [a - f * b for a, b in zip(m[r], m[i])]
    return d


def exact_safe(ts, elim):
    """float arithmetic of the tactics stays exact when every transformed term mentions at most one eliminated variable
    (all pivots are then powers of two); otherwise coefficient cancellations can differ between floats and rationals"""
    return all(sum(1 for v in t[0] if v in elim) <= 1 for t in ts)


def oracle(ts, ctx, elim, refine, okind, v):
    """C04 on the implementation's result. Returns (key, details) or None."""
    if okind != "ok":
        return None
    res = cf.pts_of(v[0])
    stats = [(int(s[0]), int(s[2])) for s in v[1]]
    tag = "+".join(sorted({(f"{n}r" if (n == 4 and c > 1) else str(n)) for n, c in stats if n > 0})) or "none"
    if refine:
        w = pp.implied_all(res + ctx, ts)
        if w:
            return (f"elim:refine_unsound:tactics={tag}", {"violated_original": cf.jsonable_term(w[0]),
                                                           "point": {k: str(x) for k, x in w[1].items()}})
    else:
        w = pp.implied_all(ts + ctx, res)
        if w:
            return (f"elim:relax_unsound:tactics={tag}", {"violated_result": cf.jsonable_term(w[0]),
                                                          "point": {k: str(x) for k, x in w[1].items()}})
        for t in res:
            if any(x in elim for x in t[0]):
                return ("elim:relax_leaves_variable", {"term": cf.jsonable_term(t)})
    return None


def check(ctx):
    ctx.cov["rule"] = (
        "(constraint list 1-4 terms, context 0-4 terms, elimination set) over <=6 variables, dyadic data with power-of-two "
        "coefficients on eliminated variables (so that float arithmetic is exact), contexts bounding in the wrong direction, "
        "chains, duplicates; refine/relax, simplify on/off, every singleton order, the default and random permutations/subsets; "
        "implementation run with linprog recorded and replayed into model/Tactics.v (terms compared at 1e-9, tactic numbers "
        "exactly); C04 decided exactly on each result with certificates checked by base/Farkas.v. non-trivial = at least one "
        "tactic fired (tactic number > 0) or an error; distinct by canonical input+configuration")
    proved = ctx.prove("props/C04.v", ["proofs/TacticsFacts.v", "proofs/TermGenCore.v", "proofs/TermGenArith.v", "proofs/TermGenRemove.v", "proofs/TermGenSubst.v", "proofs/TermGenIsolate.v", "proofs/TermListGenElim.v", "proofs/TermListGenKaykobad.v", "proofs/TermListGenTactic4.v", "proofs/TermListGenTactic32.v", "proofs/TermListGenFacts.v", "proofs/TlpGenContext.v", "proofs/TlpGenReduction.v", "proofs/TlpGenFacts.v"])
    ctx.build(["model/Corr.vo", "base/Farkas.vo"])
    rng = random.Random(ctx.seed + 4)
    n = (400 if ctx.quick else 30000) * (1 if proved else 3)
    exprs, cases, seen = [], [], set()
    hist = {}
    for k in range(n):
        ts, c, elim, refine, simplify, order = gen_case(rng)
        tl, cobj = gen.mktl(ts), gen.mktl(c)
        from pacti.iocontract import Var
        ev = [Var(x) for x in elim]
        if refine:
            okind, v, calls = pp.observe(lambda: tl.elim_vars_by_refining(cobj, ev, simplify, list(order)))
        else:
            okind, v, calls = pp.observe(lambda: tl.elim_vars_by_relaxing(cobj, ev, simplify, list(order)))
        fn = "c_refine" if refine else "c_relax"
        if exact_safe(ts, elim):
            exprs.append(f"{fn} {cf.q(TAU)} {record.coq_table(calls)} {cf.terms(ts)} {cf.terms(c)} {cf.svars(elim)} "
                         f"{cf.boolean(simplify)} {cf.natlist(order)} {pp.exp_elim(okind, v)}")
            cases.append((ts, c, elim, refine, simplify, order, okind, v))
        else:
            hist["oracle_only(inexact-prone)"] = hist.get("oracle_only(inexact-prone)", 0) + 1
        pp.validate_lp(ctx, calls)
        if okind == "ok":
            for s in v[1]:
                key = f"{'refine' if refine else 'relax'}:tactic{int(s[0])}"
                hist[key] = hist.get(key, 0) + 1
            if any(int(s[0]) > 0 for s in v[1]):
                seen.add((gen.key_of(ts), gen.key_of(c), tuple(elim), refine, simplify, tuple(order)))
        else:
            hist["error:" + v[1]] = hist.get("error:" + v[1], 0) + 1
            seen.add((gen.key_of(ts), gen.key_of(c), tuple(elim), refine, simplify, tuple(order)))
        bad = oracle(ts, c, elim, refine, okind, v)
        payload = {"terms": [cf.jsonable_term(t) for t in ts], "context": [cf.jsonable_term(t) for t in c], "eliminate": elim,
                   "refine": refine, "simplify": simplify, "tactics_order": order}
        if bad:
            payload.update(bad[1])
            payload["result"] = [cf.jsonable_term(t) for t in cf.pts_of(v[0])]
            payload["tactics_used"] = [(int(s[0]), int(s[2])) for s in v[1]]
            ctx.violation(bad[0], "elimination result violates C04", payload)
        if okind == "err" and v[0] == 6:
            ctx.violation("elim:escape:" + v[1], "undocumented exception escaped from elimination", dict(payload, exception=v[1] + ": " + v[2]))
        if k < 2:
            ctx.sample(payload)
    mism, errs = pp.evaluate_cases("c04", exprs, chunk=100)
    for e in errs:
        ctx.broke("correspondence:elim", "cases file failed: " + e)
    for i in mism[:5]:
        ts, c, elim, refine, simplify, order, okind, v = cases[i]
        ctx.broke("correspondence:elim", f"model/Tactics.v and PolyhedralTermList.elim_vars_by_{'refining' if refine else 'relaxing'} disagree on "
                  f"terms={[cf.jsonable_term(t) for t in ts]} context={[cf.jsonable_term(t) for t in c]} elim={elim} simplify={simplify} "
                  f"order={order} implementation={'error ' + str(v) if okind == 'err' else ([cf.jsonable_term(t) for t in cf.pts_of(v[0])], [(int(s[0]), int(s[2])) for s in v[1]])}")
    ctx.count(n, len(seen))
    ctx.notes["histogram"] = hist
    ctx.notes["correspondence_mismatches"] = len(mism)
    ctx.notes["mismatch_indices"] = mism[:20]
    pp.finish_certs(ctx, "c04")
