"""C02 — quotient composed with the divisor refines the dividend
(C05 instantiated with the polyhedral domain; correspondence through gen/AlgebraGen.v + model/*.v)."""
import random
from fractions import Fraction as F

import coqfmt as cf
import gen
import p_contract as pc
import p_poly as pp
import record
from pacti.iocontract import Var
from props.c01 import tactic_tag, TAU


def check(ctx):
    ctx.cov["rule"] = (
        "pairs (dividend, divisor): dividends built by composing the divisor with a hidden partner (so that a quotient exists), "
        "dividends whose assumptions do / do not imply the divisor's, unrelated pairs; all additional_inputs subsets sampled, "
        "simplify on/off, tactic orders; the real quotient_tactics with linprog recorded and replayed into the translated "
        "algebra over the polyhedral model; C02's conclusion decided exactly per result (case split of the 'honours' hypotheses, "
        "certificates re-checked by base/Farkas.v). non-trivial = a quotient was returned or IncompatibleArgsError; distinct by input")
    proved = ctx.prove("props/C02.v", ["proofs/PolyDomainFacts.v", "proofs/TacticsFacts.v", "proofs/AlgebraSound.v", "proofs/WrapGenQuotient.v"])
    ctx.build(["model/PolyDomain.vo", "base/Farkas.vo"])
    rng = random.Random(ctx.seed + 2)
    n = (150 if ctx.quick else 6000) * (1 if proved else 3)
    exprs, cases, jobs, seen = [], [], [], set()
    hist = {"refines_branch_true": 0, "refines_branch_false": 0}
    for k in range(n):
        wiring, c1, c2 = pc.gen_pair(rng, rng.choice(["cascade", "cascade", "cascade2", "shared_inputs", "independent"]))
        mode = rng.choice(["composed", "composed", "composed", "unrelated"])
        top = None
        if mode == "composed":
            k1, k2 = gen.mkcontract(c1), gen.mkcontract(c2)
            okc, vc, _ = pp.observe(lambda: k1.compose(k2))
            if okc == "ok":
                top = cf.contract_of(vc)
        if top is None:
            mode = "unrelated"
            _, top, _ = pc.gen_pair(rng, "cascade")
        divisor = c1 if rng.random() < 0.7 else c2
        if rng.random() < 0.3:
            # feedback-like divisor: it reads a variable that is not a top-level input (so the quotient must
            # produce it), assumes something about it, and guarantees something about an output the quotient reads
            pt = gen.rand_point(rng, ["x", "q", "o", "y"])
            divisor = {"a": pc._terms(rng, ["q"], 1, pt) + (pc._terms(rng, ["x"], 1, pt) if rng.random() < 0.5 else []),
                       "g": pc.two_sided(rng, {"o": F(1), "x": gen.rand_coef(rng, "pow2"), "q": gen.rand_coef(rng, "pow2")}, pt),
                       "i": ["x", "q"], "o": ["o"]}
            top = {"a": pc._terms(rng, ["x"], rng.randint(0, 2), pt),
                   "g": pc.two_sided(rng, {"y": F(1), "x": gen.rand_coef(rng, "dyadic")}, pt) + pc._terms(rng, ["x", "y"], rng.randint(0, 1), pt),
                   "i": ["x"], "o": ["y"]}
            mode = "feedback_divisor"
        if rng.random() < 0.2:
            # the dividend's assumptions are, term for term, a PROPER sub-list of the divisor's: the divisor assumes one thing more
            # (over a top-level input and one of its own inputs), which the dividend's assumptions do not imply
            pt = gen.rand_point(rng, ["i", "u", "m", "o"])
            shared_a = pc.two_sided(rng, {"i": F(1)}, pt, 4)
            extra = rng.choice([({"u": F(1), "i": F(-1)}, F(0)), ({"u": F(1)}, pt["u"] + F(rng.randint(0, 2))), ({"u": F(-1), "i": F(1, 2)}, F(1))])
            top = {"a": list(shared_a), "g": [({"o": F(1), "i": F(-1)}, F(rng.randint(0, 2)))], "i": ["i"], "o": ["o"]}
            divisor = {"a": list(shared_a) + [extra], "g": pc.two_sided(rng, {"m": F(1), "i": F(-1)}, pt, 0), "i": ["i", "u"], "o": ["m"]}
            mode = "dividend_assumptions_sublist_of_divisor"
        if rng.random() < 0.12:
            # the divisor drives EVERY top-level output and reads only top-level inputs: the quotient keeps no output at all, and what is
            # left of the dividend's guarantee is a requirement on an input that only the quotient reads
            a1 = F(rng.choice([1, 2, -1, 3]))
            c0, c1 = F(rng.randint(-2, 4)), F(rng.randint(0, 6))
            bounds = [({"x": F(1)}, F(rng.randint(4, 10))), ({"x": F(-1)}, F(0))] if rng.random() < 0.6 else []
            top = {"a": list(bounds), "g": [({"y": F(1), "x": -a1, "q": F(-1)}, c0)], "i": ["x", "q"], "o": ["y"]}
            divisor = {"a": list(bounds) if rng.random() < 0.7 else [], "g": [({"y": F(1), "x": -a1}, c1)] + ([({"y": F(-1), "x": a1}, F(rng.randint(0, 3)))] if rng.random() < 0.4 else []),
                       "i": ["x"], "o": ["y"]}
            mode = "quotient_without_outputs"
        if rng.random() < 0.3 and top["a"] and mode not in ("dividend_assumptions_sublist_of_divisor", "quotient_without_outputs"):
            top = dict(top, a=top["a"][:-1])          # weaker top-level assumptions: may no longer imply the divisor's
        cand = list(dict.fromkeys(divisor["o"] + top["i"]))
        add = [v for v in cand if rng.random() < 0.25]
        add_arg = rng.choice([None, add]) if not add else add
        simplify = rng.random() < 0.6
        order = rng.choice(pc.ORDERS)
        try:
            kt, kd = gen.mkcontract(top), gen.mkcontract(divisor)
        except Exception:
            continue
        okind, v, calls = pp.observe(lambda: kt.quotient_tactics(kd, None if add_arg is None else [Var(x) for x in add_arg], simplify,
                                                                 None if order is None else list(order)))
        safe = pc.exact_safe_pair(top, divisor, quotient=True)
        hist["correspondence:" + ("compared" if safe else "oracle_only(inexact-prone)")] = hist.get("correspondence:" + ("compared" if safe else "oracle_only(inexact-prone)"), 0) + 1
        exprs.append(f"cc_quotient {cf.q(TAU)} {record.coq_table(calls)} {pc.cfields(top)} {pc.cfields(divisor)} "
                     f"{cf.opt(add_arg, cf.svars)} {cf.boolean(simplify)} {cf.opt(order, cf.natlist)} {pc.exp_pair(okind, v)}" if safe else "true")
        pp.validate_lp(ctx, calls)
        payload = {"mode": mode, "dividend": cf.jsonable_contract(top), "divisor": cf.jsonable_contract(divisor),
                   "additional_inputs": add_arg, "simplify": simplify, "tactics_order": order}
        cases.append((payload, okind, v))
        key = (gen.key_of(top["a"] + top["g"]), gen.key_of(divisor["a"] + divisor["g"]), tuple(add), simplify, str(order))
        if okind == "ok":
            res = cf.contract_of(v[0])
            tag = tactic_tag(v[1])
            hist[f"{mode}:ok:{tag}"] = hist.get(f"{mode}:ok:{tag}", 0) + 1
            jobs.append((len(cases) - 1, tag, (top, divisor, res)))
            seen.add(key)
            okr, vr, _ = pp.observe(lambda: kt.a.refines(kd.a))
            if okr == "ok":
                hist["refines_branch_true" if vr else "refines_branch_false"] += 1
            # the plain entry point (default tactics) must satisfy the same obligation
            if k % 2 == 0 or mode == "quotient_without_outputs":
                okp, vp, _ = pp.observe(lambda: kt.quotient(kd, None if add_arg is None else [Var(x) for x in add_arg], simplify))
                if okp == "ok":
                    hist[f"{mode}:plain_quotient:ok"] = hist.get(f"{mode}:plain_quotient:ok", 0) + 1
                    jobs.append((len(cases) - 1, "plain-quotient()", (top, divisor, cf.contract_of(vp))))
                elif vp[0] == 6:
                    ctx.violation("quotient:escape:" + vp[1], "undocumented exception escaped from quotient()", dict(payload, exception=vp[1] + ": " + vp[2]))
        else:
            hist[f"{mode}:{v[1]}"] = hist.get(f"{mode}:{v[1]}", 0) + 1
            if v[0] == 1:
                seen.add(key)
            if v[0] == 6:
                ctx.violation("quotient:escape:" + v[1], "undocumented exception escaped from quotient", dict(payload, exception=v[1] + ": " + v[2]))
        if k < 2:
            ctx.sample(payload)
    verdicts = pc.run_oracles(pc.oracle_quotient, [j[2] for j in jobs])
    for (i, tag, args), bad in zip(jobs, verdicts):
        if bad:
            payload = dict(cases[i][0])
            payload.update(bad)
            payload["quotient"] = cf.jsonable_contract(args[2])
            payload["tactics_used"] = tag
            ctx.violation(f"quotient:unsound:tactics={tag}", "quotient with the divisor does not refine the dividend (C02)", payload)
    mism, errs = pp.evaluate_cases("c02", exprs, chunk=60)
    for e in errs:
        ctx.broke("correspondence:quotient", "cases file failed: " + e)
    for i in mism[:5]:
        payload, okind, v = cases[i]
        ctx.broke("correspondence:quotient", f"translated algebra over the polyhedral model and quotient_tactics disagree on {payload}; "
                  f"implementation={'error ' + str(v) if okind == 'err' else cf.jsonable_contract(cf.contract_of(v[0]))}")
    ctx.count(len(exprs), len(seen))
    ctx.notes["histogram"] = hist
    ctx.notes["correspondence_mismatches"] = len(mism)
    pp.finish_certs(ctx, "c02")
