"""C15 — composition and merging never forget an interface-level guarantee; composition without connection is exact."""
import random
from fractions import Fraction as F

import coqfmt as cf
import gen
import p_contract as pc
import p_poly as pp
import record
from props.c01 import tactic_tag, TAU
from props.c08 import gen_merge_pair


def check(ctx):
    ctx.cov["rule"] = (
        "composable / mergeable pairs of polyhedral contracts whose guarantees overlap (identical, scaled or mutually implied "
        "interface-level terms planted on both sides), with and without connections, both call orders, simplify on/off; for every "
        "result: each guarantee of an operand that mentions only interface variables of the result must be implied by the "
        "result's assumptions and guarantees, and without connection the result must be the exact conjunction; decided exactly "
        "with certificates re-checked by base/Farkas.v; compose/merge replayed through the model. non-trivial = a result was "
        "returned and at least one operand guarantee is at interface level; distinct by canonical input")
    proved = ctx.prove("props/C15.v", ["proofs/PolyDomainFacts.v", "proofs/AlgebraSound.v"])
    ctx.build(["model/PolyDomain.vo", "base/Farkas.vo"])
    rng = random.Random(ctx.seed + 15)
    n = (150 if ctx.quick else 10000) * (1 if proved else 3)
    exprs, cases, jobs_keep, jobs_exact, seen = [], [], [], [], set()
    hist = {}
    for k in range(n):
        op = rng.choice(["compose", "compose", "compose", "merge"])
        if op == "compose":
            wiring, c1, c2 = pc.gen_pair(rng)
            pc.overlap_guarantees(rng, c1, c2)
            if rng.random() < 0.5:
                c1, c2 = c2, c1
        else:
            wiring, c1, c2 = gen_merge_pair(rng)
        simplify = rng.random() < 0.6
        try:
            k1, k2 = gen.mkcontract(c1), gen.mkcontract(c2)
        except Exception:
            continue
        if op == "compose":
            # sometimes keep connecting variables (outputs of either operand read by the other) as outputs of the result
            conn_vars = [x for x in c1["o"] if x in c2["i"]] + [x for x in c2["o"] if x in c1["i"]]
            keep_arg = None
            if conn_vars and rng.random() < 0.4:
                keep_arg = [x for x in conn_vars if rng.random() < 0.7] or conn_vars[:1]
            okind, v, calls = pp.observe(lambda: k1.compose_tactics(k2, keep_arg, simplify, None))
            exprs.append(f"cc_compose {cf.q(TAU)} {record.coq_table(calls)} {pc.cfields(c1)} {pc.cfields(c2)} {cf.opt(keep_arg, cf.svars)} "
                         f"{cf.boolean(simplify)} None {pc.exp_pair(okind, v)}" if pc.exact_safe_pair(c1, c2) else "true")
            res = cf.contract_of(v[0]) if okind == "ok" else None
        else:
            okind, v, calls = pp.observe(lambda: k1.merge(k2))
            exprs.append(f"cc_merge 0 {record.coq_table(calls)} {pc.cfields(c1)} {pc.cfields(c2)} {pc.exp_one(okind, v)}")
            res = cf.contract_of(v) if okind == "ok" else None
        payload = {"operation": op, "wiring": wiring, "c1": cf.jsonable_contract(c1), "c2": cf.jsonable_contract(c2), "simplify": simplify,
                   "vars_to_keep": keep_arg if op == "compose" else None}
        cases.append((payload, okind, v))
        hist[f"{op}:{wiring}:{'ok' if okind == 'ok' else v[1]}"] = hist.get(f"{op}:{wiring}:{'ok' if okind == 'ok' else v[1]}", 0) + 1
        if res is not None:
            iface = set(res["i"]) | set(res["o"])
            if any(set(t[0]) <= iface for t in c1["g"] + c2["g"]):
                seen.add((op, gen.key_of(c1["a"] + c1["g"]), gen.key_of(c2["a"] + c2["g"]), simplify))
            jobs_keep.append((len(cases) - 1, (c1, c2, res)))
            connected = bool((set(c1["o"]) & set(c2["i"])) | (set(c2["o"]) & set(c1["i"])))
            if op == "compose" and not connected:
                jobs_exact.append((len(cases) - 1, (c1, c2, res)))
        if k < 2:
            ctx.sample(payload)
    for (i, args), bad in zip(jobs_keep, pc.run_oracles(pc.oracle_kept_guarantees, [j[1] for j in jobs_keep])):
        if bad:
            payload = dict(cases[i][0])
            payload.update(bad)
            payload["result"] = cf.jsonable_contract(args[2])
            ctx.violation(f"{payload['operation']}:interface_guarantee_forgotten", "an interface-level guarantee of an operand is not enforced by the result (C15)", payload)
    for (i, args), bad in zip(jobs_exact, pc.run_oracles(pc.oracle_exact_composition, [j[1] for j in jobs_exact])):
        if bad:
            payload = dict(cases[i][0])
            payload.update(bad)
            payload["result"] = cf.jsonable_contract(args[2])
            ctx.violation("compose:not_exact_without_connection", "composition without connection is not the exact conjunction (C15)", payload)
    mism, errs = pp.evaluate_cases("c15", exprs, chunk=60)
    for e in errs:
        ctx.broke("correspondence:compose/merge", "cases file failed: " + e)
    for i in mism[:5]:
        ctx.broke("correspondence:compose/merge", f"model and implementation disagree on {cases[i][0]}")
    ctx.count(len(exprs), len(seen))
    ctx.notes["histogram"] = hist
    ctx.notes["correspondence_mismatches"] = len(mism)
    ctx.notes["exact_composition_cases"] = len(jobs_exact)
    pp.finish_certs(ctx, "c15")
