"""C10 — contracts survive serialisation to dictionaries, strings and files
(model/Json.v, model/Printer.v; proofs/JsonFacts.v, proofs/PrinterFacts.v)."""
import copy
import json
import os
import random
import tempfile
from fractions import Fraction as F

import coqfmt as cf
import common
import exactlp as lp
import gen
import json_cases as jc
import p_poly as pp
import printer_cases as prc
from pacti.contracts import PolyhedralIoContract
from pacti.iocontract import Var
from pacti.utils.fileio import read_contracts_from_file, write_contracts_to_file

SIG4 = [F(k, 10 ** e) for k in (1, 2, 5, 12, 25, 125, 3333, 1234, 999, 75) for e in (0, 1, 2, 3)] + [F(k) for k in (1, 2, 3, 10, 250, 1000, 4000)]


def r4(q):
    return F(float(f"{float(q):.4g}"))


def rand_num(rng, kind):
    s = rng.choice([1, -1])
    if kind == "int":
        return F(s * rng.choice([1, 2, 3, 5, 7, 10, 12, 100, 999, 1000, 2500]))
    if kind == "dec4":
        return s * rng.choice(SIG4)
    while True:
        x = round(10 ** rng.uniform(-4, 6), rng.randint(0, 9))
        if x >= 1e-4:
            return F(s * x)


def rand_terms(rng, vs, kind, n):
    ts = []
    for _ in range(n):
        k = rng.randint(1, min(3, len(vs)))
        lin = {v: rand_num(rng, kind) for v in rng.sample(vs, k)}
        ts.append((lin, rand_num(rng, kind)))
    # opposite pairs in every position: equal / negated / unrelated constants
    for _ in range(rng.randint(0, 2)):
        if not ts:
            break
        t = rng.choice(ts)
        mode = rng.choice(["eq", "abs", "unrelated"])
        c = {"eq": -t[1], "abs": t[1], "unrelated": rand_num(rng, kind)}[mode]
        lin = {v: -a for v, a in t[0].items()}
        # look-alikes that must NOT be folded: a partner over more / fewer variables, or with one coefficient off
        shape = rng.choice(["exact", "exact", "superset", "subset", "one_coeff"])
        free = [v for v in vs if v not in lin]
        if shape == "superset" and free:
            lin[rng.choice(free)] = rand_num(rng, kind)
        elif shape == "subset" and len(lin) >= 2:
            lin.pop(rng.choice(list(lin)))
        elif shape == "one_coeff":
            v0 = rng.choice(list(lin))
            lin[v0] = lin[v0] * 2
        pos = rng.randint(0, len(ts))
        ts.insert(pos, (lin, c))
    if vs and rng.random() < 0.15:
        # an opposite pair whose SMALL constants are close in absolute terms (<= 9e-6 apart) but not relatively (>= 4e-3):
        # they print differently within four digits and must not be folded
        c0, c1 = rng.choice([(F(2, 10 ** 4), F(205, 10 ** 6)), (F(125, 10 ** 5), F(1255, 10 ** 6)), (F(5, 10 ** 4), F(508, 10 ** 6)),
                             (F(1, 10 ** 3), F(1009, 10 ** 6))])
        k = rng.randint(1, min(2, len(vs)))
        lin = {v: rand_num(rng, "int") for v in rng.sample(vs, k)}
        sgn = rng.choice([1, -1])
        second = -sgn * c1 if rng.random() < 0.5 else sgn * c1
        pos = rng.randint(0, len(ts))
        ts.insert(pos, (lin, sgn * c0))
        ts.insert(rng.randint(pos + 1, len(ts)), ({v: -a for v, a in lin.items()}, second))
    return ts


def rand_contract(rng, kind):
    nv = rng.randint(1, 4)
    vs = list(gen.VARS[:nv])
    if rng.random() < 0.25:
        # names that look like the exponent part of a number when glued to a coefficient (3e1, 4E3): the printer must keep them apart
        for j, nm in zip(rng.sample(range(nv), min(nv, rng.randint(1, 2))), ["e1", "E3"]):
            vs[j] = nm
    ni = rng.randint(0, nv)
    ins, outs = vs[:ni], vs[ni:]
    a = rand_terms(rng, ins, kind, rng.randint(0, 2)) if ins else []
    g = rand_terms(rng, vs, kind, rng.randint(1, 3))
    return {"a": a, "g": g, "i": ins, "o": outs}


def equivalent(A, B):
    return all(pp.exactly_implied(A, t) for t in B) and all(pp.exactly_implied(B, t) for t in A)


def equivalent_tol(A, B):
    """same meaning up to the numerical reading (the file reader re-simplifies: constants move by an ulp)"""
    return pp.implied_all(A, B) is None and pp.implied_all(B, A) is None


def robustly_satisfiable(ts):
    """some point INSIDE the box |v| <= 1000 satisfies every constraint with the tolerance to spare (the numerical reading of the
    properties): only then is the file reader, which re-simplifies with an LP, required to accept the contract"""
    return pp.is_feasible(pp.shrink(ts, pp.TOL) + lp.box_terms(lp.term_vars(ts), pp.BOX))


def rounded(ts):
    return [({v: r4(a) for v, a in t[0].items()}, r4(t[1])) for t in ts]


def compound_roundtrip(ctx, rng, stats):
    """PolyhedralIoContractCompound.to_dict / from_strings and the file writer/reader on compound contracts (<=4-significant-digit data, so
    the printed strings are exact): every alternative of either side must come back; in particular a guarantee alternative that
    merely restates an assumption alternative, and alternatives repeated within a side"""
    import compound_cases as cc
    from pacti.contracts.polyhedral_iocontract import PolyhedralIoContractCompound
    nv = rng.randint(1, 3)
    vs = rng.sample(cc.VARS, nv)
    ni = rng.randint(1, nv)
    ins, outs = vs[:ni], vs[ni:]
    a_alts = cc.rand_nested(rng, ins, "disjoint")
    g_alts = cc.rand_nested(rng, vs)
    r = rng.random()
    if r < 0.45 and a_alts:
        g_alts.insert(rng.randint(0, len(g_alts)), [t for t in rng.choice(a_alts)])       # a mode that restates the input region
    elif r < 0.6 and g_alts:
        g_alts.append([t for t in g_alts[0]])
    if any(not t[0] for a in a_alts + g_alts for t in a) or any(not a for a in a_alts + g_alts):
        return
    if any(not pp.is_feasible(a) for a in a_alts + g_alts):
        return
    okind, k1, _ = pp.observe(lambda: cc.mkcompound({"a": a_alts, "g": g_alts, "i": ins, "o": outs}))
    if okind != "ok":
        return
    stats["compound_roundtrips"] = stats.get("compound_roundtrips", 0) + 1
    jal = lambda alts: [[cf.jsonable_term(t) for t in a] for a in alts]     # noqa: E731
    info = {"assumption_alternatives": jal(a_alts), "guarantee_alternatives": jal(g_alts), "inputs": ins, "outputs": outs}

    def compare(back, how):
        if [str(x) for x in back.inputvars] != ins or [str(x) for x in back.outputvars] != outs:
            ctx.violation("serialize:compound_interface_changed", "interface of a compound contract changed through " + how, info)
            return
        for side, orig, got in (("assumptions", a_alts, cc.nested_of(back.a)), ("guarantees", g_alts, cc.nested_of(back.g))):
            # union semantics: every original alternative must be covered by the alternatives read back, and nothing new may appear
            for alt in orig:
                if not any(equivalent_tol(alt, b) for b in got):
                    w = next((pt for pt in (lp_point(alt),) if pt is not None and not any(all(lp.holds_at(t, pt) for t in b) for b in got)), None)
                    if w is not None:
                        ctx.violation("serialize:compound_alternative_lost", f"an alternative of the {side} of a compound contract is gone after " + how,
                                      dict(info, side=side, read_back=jal(got), point_no_longer_inside={x: str(q) for x, q in w.items()}))
                        return
            for b in got:
                if not any(equivalent_tol(alt, b) for alt in orig):
                    w = lp_point(b)
                    if w is not None and not any(all(lp.holds_at(t, w) for t in alt) for alt in orig):
                        ctx.violation("serialize:compound_alternative_added", f"the {side} of a compound contract gained behaviours through " + how,
                                      dict(info, side=side, read_back=jal(got), new_point={x: str(q) for x, q in w.items()}))
                        return

    okind, d, _ = pp.observe(lambda: k1.to_dict())
    if okind != "ok":
        ctx.violation("serialize:compound_to_dict_failed", f"to_dict of a compound contract raised {d}", info)
        return
    okind, v, _ = pp.observe(lambda: PolyhedralIoContractCompound.from_strings(**copy.deepcopy(d)))
    if okind == "ok":
        compare(v, "to_dict / from_strings")
    else:
        ctx.violation("serialize:compound_unreadable", f"from_strings(**to_dict()) of a compound contract raised {v}", dict(info, dictionary=d))
    fd, fn = tempfile.mkstemp(suffix=".json")
    os.close(fd)
    try:
        write_contracts_to_file([k1], ["modes"], fn, machine_representation=False)
        okind, v, _ = pp.observe(lambda: read_contracts_from_file(fn))
    finally:
        os.remove(fn)
    if okind == "ok" and len(v[0]) == 1:
        compare(v[0][0], "the human-readable file")
    else:
        ctx.violation("serialize:compound_unreadable", f"a written compound-contract file could not be read back: {v}", info)


def lp_point(alt):
    """an exact point of the alternative, well inside where possible"""
    vs = lp.term_vars(alt)
    for margin in (F(1, 8), F(0)):
        r = lp.feasible([(t[0], t[1] - margin * sum(abs(a) for a in t[0].values())) for t in alt] + lp.box_terms(vs, F(100)))
        if r["status"] != "infeasible":
            return {x: r["point"].get(x, F(0)) for x in vs}
    return None


def check(ctx):
    ctx.cov["rule"] = (
        "contracts over <=4 variables whose constraints mention >=1 variable, magnitudes in [1e-4,1e6]: integers, decimals with "
        "<=4 significant digits (exact string round trip), arbitrary floats (rounded reading), opposite pairs with equal / "
        "negated / unrelated constants in every position; to_machine_dict/from_dict and both file representations through real "
        "temporary files; model/Json.v and model/Printer.v compared with the implementation inside Coq (dictionaries exactly, "
        "strings character by character, %.4g on doubles across decades, ties and the fixed/scientific switch-over). "
        "machine files holding two contracts that print alike (same four digits) but differ beyond the tolerance; compound contracts "
        "through to_dict / from_strings and the human-readable file, alternative by alternative (a guarantee alternative restating an "
        "assumption alternative, repeated alternatives). non-trivial = the contract has at least one constraint; distinct by canonical contract")
    proved = ctx.prove("props/C10.v", ["proofs/JsonFacts.v", "proofs/PrinterFacts.v", "proofs/JsonGenValidate.v", "proofs/JsonGenDict.v", "proofs/JsonGenFile.v", "proofs/PrinterGenOpposite.v", "proofs/PrinterGenLhs.v", "proofs/PrinterGenFold.v", "proofs/JsonGenCompound.v", "proofs/JsonCompoundFacts.v"])
    proved = ctx.prove("props/C10b.v", ["proofs/RoundTripFacts.v"]) and proved      # the string half: printed strings read back
    ctx.build(["model/Json.vo", "model/Printer.vo"])
    rng = random.Random(ctx.seed + 10)
    n = (150 if ctx.quick else 3000) * (1 if proved else 3)
    checks, descr, seen = [], [], set()
    stats = {"machine_roundtrips": 0, "machine_files": 0, "string_roundtrips": 0, "string_files": 0, "folded_pairs": 0,
             "strings_parsed": 0}
    recent = []
    for k in range(n):
        kind = rng.choice(["int", "dec4", "dec4", "float"])
        c = rand_contract(rng, kind)
        try:
            k1 = gen.mkcontract(c)
        except Exception:
            continue
        c = cf.contract_of(k1)          # the exact rationals of the doubles actually stored
        seen.add((gen.key_of(c["a"]), gen.key_of(c["g"]), tuple(c["i"]), tuple(c["o"])))
        payload = {"contract": cf.jsonable_contract(c), "kind": kind}
        # ---- machine dictionary
        md = k1.to_machine_dict()
        checks.append(jc.coq_check("to_machine", jc.contract_to_coq(k1), jc.json_to_coq(md)))
        descr.append(("to_machine", payload))
        k2 = PolyhedralIoContract.from_dict(copy.deepcopy(md), simplify=False)
        checks.append(jc.coq_check("from_dict", jc.json_to_coq(md), jc.exp_contract(("ok", cf.contract_of(k2)))))
        descr.append(("from_dict", payload))
        stats["machine_roundtrips"] += 1
        if not (k2 == k1 and cf.contract_of(k2) == cf.contract_of(k1) and hash(k2) == hash(k1)):
            ctx.violation("serialize:machine_roundtrip_differs", "from_dict(to_machine_dict(c), simplify=False) is not equal to c", payload)
        # ---- files
        if k % 5 == 0:
            for machine in (True, False):
                fd, fn = tempfile.mkstemp(suffix=".json")
                os.close(fd)
                try:
                    write_contracts_to_file([k1], ["c"], fn, machine_representation=machine)
                    okind, v, _ = pp.observe(lambda: read_contracts_from_file(fn))
                finally:
                    os.remove(fn)
                stats["machine_files" if machine else "string_files"] += 1
                if okind != "ok":
                    if v[0] == 2 and not robustly_satisfiable(c["a"] + c["g"]):
                        continue      # the reader re-simplifies: a contract without behaviours (inside the box, beyond the tolerance) raises ValueError
                    ctx.violation("serialize:file_unreadable", f"a written {'machine' if machine else 'string'} file could not be read back: {v}", payload)
                    continue
                back = cf.contract_of(v[0][0])
                ref_a, ref_g = (c["a"], c["g"]) if machine else (rounded(c["a"]), rounded(c["g"]))
                if back["i"] != c["i"] or back["o"] != c["o"]:
                    ctx.violation("serialize:file_interface_changed", "interface changed through the file round trip", payload)
                elif not (equivalent_tol(back["a"], ref_a) and equivalent_tol(back["a"] + back["g"], ref_a + ref_g)):
                    ctx.violation("serialize:file_meaning_changed", f"meaning changed through the {'machine' if machine else 'string'} file round trip",
                                  dict(payload, read_back=cf.jsonable_contract(back)))
        # ---- files with several entries, some sharing a name: every entry comes back, in order, under its name
        if k % 7 == 0 and robustly_satisfiable(c["a"] + c["g"]):
            others = [o for o in recent if robustly_satisfiable(o[1]["a"] + o[1]["g"])][-2:]
            group = [(k1, c)] + others
            if len(group) >= 2:
                names = ["stage", "mixer", "stage"][:len(group)] if rng.random() < 0.6 else [f"c{j}" for j in range(len(group))]
                if len(group) == 2 and rng.random() < 0.5:
                    names = ["stage", "stage"]
                fd, fn = tempfile.mkstemp(suffix=".json")
                os.close(fd)
                try:
                    write_contracts_to_file([g0 for g0, _ in group], names, fn, machine_representation=True)
                    okind, v, _ = pp.observe(lambda: read_contracts_from_file(fn))
                finally:
                    os.remove(fn)
                stats["multi_entry_files"] = stats.get("multi_entry_files", 0) + 1
                info = dict(payload, names=names, contracts=[cf.jsonable_contract(cc) for _, cc in group])
                if okind == "ok":
                    got_c, got_n = v
                    if list(got_n) != names or len(got_c) != len(group):
                        ctx.violation("serialize:file_entries_lost", "a file with several entries did not read back entry by entry", dict(info, names_read=list(got_n), count_read=len(got_c)))
                    else:
                        for (g0, cc), gb in zip(group, got_c):
                            b = cf.contract_of(gb)
                            if b["i"] != cc["i"] or b["o"] != cc["o"] or not (equivalent_tol(b["a"], cc["a"]) and equivalent_tol(b["a"] + b["g"], cc["a"] + cc["g"])):
                                ctx.violation("serialize:file_entry_changed", "an entry of a multi-entry file came back as another contract", info)
                                break
                else:
                    ctx.violation("serialize:file_unreadable", f"a written multi-entry machine file could not be read back: {v}", info)
        # ---- one machine file holding contracts whose numbers differ by less than what is PRINTED (same four digits) but by more
        #      than the tolerance: every entry must come back with its own numbers
        if k % 6 == 1 and c["g"]:
            m4 = F(rng.randint(1000, 2400), 1000)
            e10 = F(10) ** rng.randint(-2, 5)
            lo_c, hi_c = (m4 - F(4, 10000)) * e10, (m4 + F(4, 10000)) * e10
            sgn = 1 if c["g"][0][1] >= 0 else -1
            twins = [dict(c, g=[(c["g"][0][0], sgn * x)] + c["g"][1:]) for x in ((lo_c, hi_c) if rng.random() < 0.5 else (hi_c, lo_c))]
            if all(robustly_satisfiable(t["a"] + t["g"]) for t in twins):
                try:
                    objs = [gen.mkcontract(t) for t in twins]
                except Exception:
                    objs = []
                if objs:
                    twins = [cf.contract_of(o) for o in objs]
                    names = ["lo", "hi"] if rng.random() < 0.7 else ["same", "same"]
                    fd, fn = tempfile.mkstemp(suffix=".json")
                    os.close(fd)
                    try:
                        write_contracts_to_file(objs, names, fn, machine_representation=True)
                        okind, v, _ = pp.observe(lambda: read_contracts_from_file(fn))
                    finally:
                        os.remove(fn)
                    stats["near_print_twin_files"] = stats.get("near_print_twin_files", 0) + 1
                    info = dict(payload, names=names, contracts=[cf.jsonable_contract(t) for t in twins], printed=[str(o) for o in objs])
                    if okind != "ok" or len(v[0]) != 2:
                        ctx.violation("serialize:file_unreadable", f"a written two-entry machine file could not be read back entry by entry: {v if okind != 'ok' else len(v[0])}", info)
                    else:
                        for t, gb in zip(twins, v[0]):
                            b = cf.contract_of(gb)
                            if b["i"] != t["i"] or b["o"] != t["o"] or not (equivalent_tol(b["a"], t["a"]) and equivalent_tol(b["a"] + b["g"], t["a"] + t["g"])):
                                ctx.violation("serialize:file_entry_changed", "an entry of a machine file came back with another entry's numbers (the entries print alike)",
                                              dict(info, read_back=cf.jsonable_contract(b)))
                                break
        # ---- compound contracts through the dictionary of strings and the human-readable file: alternative by alternative
        if k % 6 == 2:
            ctx.attempt("serialize:compound", {"case": "compound contract round trip number %d of seed %d" % (k, ctx.seed)}, lambda: compound_roundtrip(ctx, rng, stats))
        recent.append((k1, c))
        del recent[:-4]
        # ---- string form
        d = k1.to_dict()
        for key, ts in (("assumptions", c["a"]), ("guarantees", c["g"])):
            parsed = []
            ok = True
            for s in d[key]:
                okind, v, _ = pp.observe(lambda: __import__("pacti.terms.polyhedra.serializer", fromlist=["x"]).polyhedral_termlist_from_string(s))
                stats["strings_parsed"] += 1
                if okind != "ok":
                    ctx.violation("serialize:printed_string_rejected", "a string emitted by the printer is rejected by the parser", dict(payload, string=s, error=list(v)))
                    ok = False
                    break
                parsed += [cf.pt_of(t) for t in v]
            stats["folded_pairs"] += sum(1 for s in d[key] if " = " in s or "|" in s)
            if ok and not equivalent(parsed, rounded(ts)):
                ctx.violation("serialize:string_meaning_changed", "parsed strings do not mean the constraints rounded to four significant digits",
                              dict(payload, strings=d[key], parsed=[cf.jsonable_term(t) for t in parsed]))
        okind, v, _ = pp.observe(lambda: PolyhedralIoContract.from_strings(**d, simplify=False))
        stats["string_roundtrips"] += 1
        if okind == "ok":
            if [str(x) for x in v.inputvars] != c["i"] or [str(x) for x in v.outputvars] != c["o"]:
                ctx.violation("serialize:string_interface_changed", "interface changed through the string round trip", payload)
            if kind in ("int", "dec4"):
                back = cf.contract_of(v)
                if not (equivalent(back["a"], c["a"]) and equivalent(back["g"], c["g"])):
                    ctx.violation("serialize:exact_string_roundtrip_differs", "numbers with <=4 significant digits did not survive the string round trip", payload)
        if k < 2:
            ctx.sample(dict(payload, machine_dict=md, strings=d))
    bad = jc.check_in_coq(checks, tag="c10json")
    for i in bad[:5]:
        ctx.broke("correspondence:json", f"model/Json.v and the implementation disagree on {descr[i]}")
    # printer correspondence
    prc.ensure_model()
    prc.tl_cases.__defaults__ = (300 if ctx.quick else 3000, ctx.seed + 100)
    allnums = prc.fmt_numbers(ctx.seed + 101)
    sub = allnums if not ctx.quick else random.Random(ctx.seed).sample(allnums, 6000)
    orig = prc.fmt_numbers
    prc.fmt_numbers = lambda seed=0: sub
    try:
        n1, m1, e1 = prc.check_fmt(verbose=False)
        n2, m2, e2 = prc.check_term_lists(verbose=False)
    finally:
        prc.fmt_numbers = orig
    if m1 or e1:
        ctx.broke("correspondence:fmt4", f"model/Printer.v fmt4 and format(x, '.4g') disagree on {m1} of {n1} doubles (shard errors {e1})")
    if m2 or e2:
        ctx.broke("correspondence:to_str_list", f"model/Printer.v to_str_list and PolyhedralTermList.to_str_list disagree on {m2} of {n2} lists (shard errors {e2})")
    ctx.count(len(checks) + n1 + n2, len(seen))
    ctx.notes["statistics"] = stats
    ctx.notes["printer_correspondence"] = {"doubles": n1, "term_lists": n2}
    ctx.notes["json_correspondence"] = {"checks": len(checks), "mismatches": len(bad)}
    pp.CERTS.clear()
    ctx.assumptions += ["a float literal denotes the exact rational of the double; -0.0, NaN and infinities are outside the models",
                        "np.isclose is modelled with one rounding per operation (fl = round to binary64)",
                        "the parser used for the string round trip is the real one (its model: C09)"]
