"""C13 — operations are pure: operands unchanged, results independent of history
(session machine model/Session.v; detection is by lock-step histories on the real library)."""
import copy
import json
import random
from fractions import Fraction as F

import coqfmt as cf
import gen
import p_contract as pc
import p_poly as pp
import session as S
from pacti.contracts import PolyhedralIoContract
from pacti.iocontract import Var
from pacti.terms.polyhedra import PolyhedralTermList


def arg_contract(c):
    return {"k": "contract", "x": S.ser_contract(c)}


def arg_terms(tl):
    return {"k": "terms", "x": S.ser_tl(tl)}


def plain(x):
    return {"k": "plain", "x": x}


PENDING = []      # steps decided together with an earlier one (a pair of queries that must be asked one after the other)


def pick_step(rng, pool):
    """choose an operation and pool members; returns (op, live argument objects, serialised arguments)"""
    if PENDING:
        return PENDING.pop(0)
    if rng.random() < 0.07:
        # two containment queries, one right after the other, on constraint lists that PRINT alike (same four significant digits)
        # but are different, and whose true answers differ: lo <= hi (True), then hi <= lo (False) -- or the other way round
        m4 = F(rng.randint(1000, 2400), 1000)
        e10 = F(10) ** rng.randint(0, 5)
        v = rng.choice(["x", "u", "o"])
        sg = rng.choice([1, -1])
        lo, hi = gen.mktl([({v: F(sg)}, (m4 - F(4, 10000)) * e10)]), gen.mktl([({v: F(sg)}, (m4 + F(4, 10000)) * e10)])
        first, second = ((lo, hi), (hi, lo)) if rng.random() < 0.5 else ((hi, lo), (lo, hi))
        PENDING.append(("tl_refines", list(second), [arg_terms(second[0]), arg_terms(second[1])], []))
        return "tl_refines", list(first), [arg_terms(first[0]), arg_terms(first[1])], []
    cs = [i for i, v in enumerate(pool) if isinstance(v, PolyhedralIoContract)]
    ts = [i for i, v in enumerate(pool) if isinstance(v, PolyhedralTermList)]
    op = rng.choice(["compose", "compose_tactics", "quotient", "merge", "refines", "rename", "rename_one", "copy", "elim_refine", "elim_refine",
                     "elim_relax",
                     "tl_simplify", "tl_simplify", "tl_refines", "contains", "optimize", "bounds", "to_machine_dict", "dict_roundtrip", "to_dict",
                     "string_roundtrip", "parse", "to_str_list"])
    i, j = rng.choice(cs), rng.choice(cs)
    ci, cj = pool[i], pool[j]
    names = [str(v) for v in ci.inputvars + ci.outputvars] or ["x"]
    order = rng.choice([None, [1, 2, 3, 4, 5], [2, 1], [4, 5], [3]])
    sp = rng.random() < 0.6
    if op in ("compose", "compose_tactics"):
        keep = [str(v) for v in ci.outputvars + cj.outputvars if rng.random() < 0.2]
        keep_arg = keep if keep or rng.random() < 0.5 else None
        if op == "compose":
            return op, [ci, cj, keep_arg, sp], [arg_contract(ci), arg_contract(cj), plain(keep_arg), plain(sp)], [i, j]
        return op, [ci, cj, keep_arg, sp, order], [arg_contract(ci), arg_contract(cj), plain(keep_arg), plain(sp), plain(order)], [i, j]
    if op == "quotient":
        add = [v for v in cj.outputvars + ci.inputvars if rng.random() < 0.15]
        return op, [ci, cj, add or None, sp], [arg_contract(ci), arg_contract(cj), {"k": "vars", "x": [str(v) for v in add]} if add else plain(None), plain(sp)], [i, j]
    if op in ("merge", "refines"):
        return op, [ci, cj], [arg_contract(ci), arg_contract(cj)], [i, j]
    if op == "rename":
        maps = [[rng.choice(names), rng.choice(names + ["fresh1", "fresh2"])] for _ in range(rng.choice([0, 1, 1, 2]))]   # also the empty list
        return op, [ci, maps], [arg_contract(ci), plain(maps)], [i]
    if op == "rename_one":
        # the singular method, called directly on the pool member (rename_variables works on a copy): fresh target, an
        # existing variable of the same side (the merge branches), the other side (refused), the source itself
        src = rng.choice(names)
        same_side = [str(v) for v in (ci.inputvars if Var(src) in ci.inputvars else ci.outputvars)]
        tgt = rng.choice(same_side + same_side + names + ["fresh1"])
        return op, [ci, src, tgt], [arg_contract(ci), plain(src), plain(tgt)], [i]
    if op in ("copy", "to_machine_dict", "to_dict"):
        return op, [ci], [arg_contract(ci)], [i]
    if op in ("dict_roundtrip", "string_roundtrip"):
        return op, [ci, sp], [arg_contract(ci), plain(sp)], [i]
    if op in ("elim_refine", "elim_relax"):
        tl, ctx = (ci.a, ci.g) if rng.random() < 0.5 else (ci.g, cj.g)
        vs = [v for v in tl.vars if rng.random() < 0.4] or list(tl.vars[:1]) or [Var("x")]
        if rng.random() < 0.5 and len(tl.terms) > 1:
            # eliminate the variables of ONE term only, so that the other terms pass through untouched
            vs = list(rng.choice(tl.terms).vars)[:2] or vs
        if op == "elim_refine":
            sp = rng.random() < 0.5           # simplify=False works on the operand itself: the interesting path
        od = order or [1, 2, 3, 4, 5]
        return op, [tl, ctx, vs, sp, od], [arg_terms(tl), arg_terms(ctx), {"k": "vars", "x": [str(v) for v in vs]}, plain(sp), plain(od)], [i, j]
    if op == "tl_simplify" and rng.random() < 0.5:
        # boundary shapes: no context / an empty context, and a list of ONE term built around a pool member's own term object
        # (whatever comes back must be a new object all the way down)
        tl = ci.g if rng.random() < 0.4 or not ci.g.terms else PolyhedralTermList([rng.choice(ci.g.terms)])
        cx = None if rng.random() < 0.5 else PolyhedralTermList([])
        return op, [tl, cx], [arg_terms(tl), plain(None) if cx is None else arg_terms(cx)], [i]
    if op in ("tl_simplify", "tl_refines"):
        return op, [ci.g, cj.a | cj.g], [arg_terms(ci.g), arg_terms(cj.a | cj.g)], [i, j]
    if op == "contains":
        beh = {v: float(rng.randint(-4, 4)) for v in ci.g.vars}
        return op, [ci.g, beh], [arg_terms(ci.g), {"k": "behavior", "x": [[str(k), x.hex()] for k, x in beh.items()]}], [i]
    if op == "optimize":
        e = rng.choice(names)
        mx = rng.random() < 0.5
        return op, [ci, e, mx], [arg_contract(ci), plain(e), plain(mx)], [i]
    if op == "bounds":
        e = rng.choice(names)
        return op, [ci, e], [arg_contract(ci), plain(e)], [i]
    if op == "parse":
        s = rng.choice(["2x + 3(y - 1) <= 7", "|x - y| <= 2", "1 <= x <= 3", "x + y = 2", "2(x + |y|) <= 4", "-|x| >= -1", "(2*3)x <= 1",
                        "|x| + |x| <= 2", "3 >= x >= 1", "2 (x + y) + 0.5 z <= |u|"])
        return op, [s], [plain(s)], []
    if op == "to_str_list":
        return op, [ci.g], [arg_terms(ci.g)], [i]
    raise AssertionError(op)


def run_history(ctx, rng, length, stats):
    del PENDING[:]
    wiring, c1, c2 = pc.gen_pair(rng, rng.choice(["cascade", "cascade2", "shared_inputs", "feedback"]))
    w2, c3, c4 = pc.gen_pair(rng, "independent")
    pool = [gen.mkcontract(c) for c in (c1, c2, c3, c4)]
    steps, results = [], []
    base_state = S.module_state()
    history = []
    for k in range(length):
        op, live, ser, used = pick_step(rng, pool)
        before_pool = [json.dumps(S.ser_value(v), sort_keys=True) for v in pool]
        before_args = json.dumps(ser, sort_keys=True)
        arg_copy = copy.deepcopy([a for a in live if isinstance(a, (list, dict)) and not isinstance(a, (PolyhedralIoContract, PolyhedralTermList))])
        try:
            r = S.run_op(op, live)
            out = ["ok", S.ser_value(r)]
        except Exception as e:  # noqa: BLE001
            r = None
            out = ["err", type(e).__name__]
        stats[f"{op}:{out[0] if out[0] == 'ok' else out[1]}"] = stats.get(f"{op}:{out[0] if out[0] == 'ok' else out[1]}", 0) + 1
        info = {"step": k, "op": op, "args": ser, "history": history[-8:]}
        history.append({"op": op, "pool_members": used})
        # operands unchanged
        after_pool = [json.dumps(S.ser_value(v), sort_keys=True) for v in pool]
        if after_pool != before_pool:
            bad = [i for i, (a, b) in enumerate(zip(before_pool, after_pool)) if a != b]
            ctx.violation(f"purity:operand_modified:{op}", f"pool member(s) {bad} were modified by the call", info)
        plain_now = [a for a in live if isinstance(a, (list, dict)) and not isinstance(a, (PolyhedralIoContract, PolyhedralTermList))]
        if [S.ser_value(a) for a in plain_now] != [S.ser_value(a) for a in arg_copy]:
            ctx.violation(f"purity:argument_list_modified:{op}", "a list/dict argument was modified by the call", info)
        if S.module_state() != base_state:
            ctx.violation(f"purity:module_state_modified:{op}", "module-level state (TACTICS_ORDER / TACTICS) changed", dict(info, state=S.module_state()))
            base_state = S.module_state()
        # aliasing: the result shares no mutable object with any pool member or argument
        if r is not None:
            rid = S.mutable_ids(r)
            shared = {}
            for i, v in enumerate(pool):
                inter = set(rid) & set(S.mutable_ids(v))
                if inter:
                    shared[i] = sorted({rid[x] for x in inter})
            for a in plain_now:
                inter = set(rid) & set(S.mutable_ids(a))
                if inter:
                    shared["argument"] = sorted({rid[x] for x in inter})
            if shared:
                ctx.violation(f"purity:result_aliases_operand:{op}", f"the result shares mutable objects with operands: {shared}", info)
            snap = S.ser_value(r)
            S.mutate_in_place(r)
            if [json.dumps(S.ser_value(v), sort_keys=True) for v in pool] != after_pool:
                ctx.violation(f"purity:mutating_result_changes_operand:{op}", "mutating the returned object changed a pool member", info)
            # feed an unmutated reconstruction back into the pool
            if snap["k"] == "contract":
                pool.append(S.de_contract(snap["x"]))
            elif snap["k"] == "pair" and snap["x"]["k"] == "contract":
                pool.append(S.de_contract(snap["x"]["x"]))
            if len(pool) > 9:
                pool.pop(rng.randrange(4, len(pool)))
        steps.append({"op": op, "args": ser})
        results.append(out)
    # repeat every step later in the same session from equal (re-serialised) arguments
    for k, st in enumerate(steps):
        again = S.outcome(st["op"], [S.de_arg(a) for a in st["args"]])
        if again != results[k]:
            ctx.violation(f"purity:history_dependent:{st['op']}", "repeating a call with equal arguments later in the session gave a different result",
                          {"step": k, "op": st["op"], "args": st["args"], "first": str(results[k])[:500], "again": str(again)[:500]})
    # and in a fresh interpreter, in reverse order
    fresh = S.replay_fresh(steps)
    for k, st in enumerate(steps):
        if fresh[k] != results[k]:
            ctx.violation(f"purity:differs_from_fresh_interpreter:{st['op']}", "the same call gives a different result in a fresh interpreter",
                          {"step": k, "op": st["op"], "args": st["args"], "session": str(results[k])[:500], "fresh": str(fresh[k])[:500]})
    return steps, results


def check(ctx):
    ctx.cov["rule"] = (
        "histories of 12-30 operations drawn from compose, compose_tactics, quotient, merge, refines, rename, copy, both "
        "eliminations, list simplify/refines, contains_behavior, optimize, variable bounds, to/from machine dict, to/from strings, "
        "parse and to_str_list on a shared pool of contracts whose results are fed back; before every step every pool member, "
        "every list/dict argument and the module-level state are deep-snapshotted (float.hex, list and dict orders) and compared "
        "after; the id-reachability graph of each result must share no mutable object with an operand; results are then mutated "
        "in place and operands re-compared; at the end every step is repeated from equal arguments in the same session and in a "
        "fresh interpreter in reverse order. non-trivial = every step; distinct = (history, step)")
    proved = ctx.prove("props/C13.v", ["proofs/SessionFacts.v"])
    proved = ctx.prove("props/C13h.v", ["proofs/PyHeapFacts.v", "proofs/HeapGenFacts.v"]) and proved      # heap level: no write to a pre-existing cell
    rng = random.Random(ctx.seed + 13)
    nh = 20 if ctx.quick else 400
    stats = {}
    total = 0
    for h in range(nh):
        length = rng.randint(12, 30)
        try:
            steps, results = run_history(ctx, rng, length, stats)
        except RuntimeError as e:
            ctx.machinery_failure(str(e))
            break
        total += len(steps)
        if h == 0:
            ctx.sample({"history": [s["op"] for s in steps], "first_step": steps[0], "first_result": str(results[0])[:300]})
    ctx.count(total, total)
    ctx.notes["histories"] = nh
    ctx.notes["operation_outcomes"] = stats
    ctx.assumptions += ["CPython object identity and aliasing are outside any Gallina model: the theorems (session_frame, "
                        "session_history_independent) hold of the pure session machine by construction; the detection of "
                        "violations is entirely by the lock-step histories on the real library (partial, DESIGN 4 C13)",
                        "IoContract.simplify() (documented to update the receiver) is not part of the operation set"]
