"""C07 — simplification keeps meaning, leaves nothing redundant (model/Poly.v + proofs/PolyFacts.v)."""
import random
from fractions import Fraction as F

import coqfmt as cf
import exactlp as lp
import gen
import p_poly as pp
import record


def gen_case(rng, kind):
    nv = rng.randint(1, 5)
    vs = gen.VARS[:nv]
    feasible = rng.random() < 0.85
    p = gen.rand_point(rng, vs) if feasible else None
    ts = [gen.rand_term(rng, vs, kind, point=p) for _ in range(rng.randint(1, 4))]
    ctx = None
    if rng.random() < 0.6:
        ctx = [gen.rand_term(rng, vs, kind, point=p) for _ in range(rng.randint(0, 3))]
    ts = gen.with_redundancy(rng, ts, ctx or [])[:6]
    if ctx and rng.random() < 0.3 and ts:
        ctx.append(rng.choice(ts))          # syntactic duplicate of a term in the context
    return ts, ctx


def oracle(ctx, ts, c, kind, v):
    """Decide C07 on the implementation's result, exactly."""
    cl = c or []
    if kind == "err":
        if v[0] != 2:
            return None     # other exception kinds are C14's business (reported there)
        # ValueError only when infeasible in the context: violation if robustly feasible
        r = lp.feasible(pp.shrink(ts + cl, pp.TOL) + lp.box_terms(lp.term_vars(ts + cl), pp.BOX))
        if r["status"] != "infeasible":
            pp.CERTS.append(("point", pp.shrink(ts + cl, pp.TOL), r["point"]))
            return ("simplify:error_on_feasible", {"point": {k: str(x) for k, x in r["point"].items()}})
        return None
    res = cf.pts_of(v)
    # selection: a subsequence of ts with the same coefficients, constants up to round-off
    j = 0
    for t in res:
        while j < len(ts) and not (ts[j][0] == t[0] and abs(ts[j][1] - t[1]) <= F(1, 10 ** 9) * (1 + abs(t[1]))):
            j += 1
        if j == len(ts):
            return ("simplify:not_a_selection", {"term": cf.jsonable_term(t)})
        j += 1
    # equivalence wherever the context holds
    w = pp.implied_all(res + cl, ts)
    if w:
        return ("simplify:lost_constraint", {"term": cf.jsonable_term(w[0]), "point": {k: str(x) for k, x in w[1].items()}})
    # nothing redundant left (margin above tolerance, no box: an unbounded direction is never redundant)
    if pp.is_feasible(res + cl):
        for i, t in enumerate(res):
            others = res[:i] + res[i + 1:] + cl
            r = lp.maximize(t[0], others)
            if r["status"] == "opt" and r["max"] <= t[1] - pp.TOL * (1 + abs(t[1])):
                return ("simplify:redundant_left", {"term": cf.jsonable_term(t), "max": str(r["max"])})
    return None


def check(ctx):
    ctx.cov["rule"] = (
        "(constraint list, optional context) over <=5 variables, <=6 terms, dyadic/small-integer data with planted "
        "duplicates, scalings, positive combinations, context-only consequences, tight and nearly tight (1e-3..1e-9) "
        "redundancies, infeasible systems; implementation run with every linprog call recorded and replayed into "
        "model/Poly.v (results compared exactly inside Coq); C07 decided exactly on the implementation's output by a "
        "rational simplex whose certificates are re-checked by base/Farkas.v. non-trivial = at least one row dropped, "
        "or ValueError raised, or a context present; distinct by canonical input")
    proved = ctx.prove("props/C07.v", ["proofs/PolyFacts.v", "proofs/PolyGenPolytope.v", "proofs/PolyGenReduce.v", "proofs/PolyGenFacts.v"])
    ctx.build(["model/Corr.vo", "base/Farkas.vo"])
    rng = random.Random(ctx.seed)
    n = (250 if ctx.quick else 20000) * (1 if proved else 3)
    exprs, cases, seen = [], [], set()
    hist = {"dropped": 0, "kept_all": 0, "ValueError": 0, "other_error": 0, "with_context": 0}
    for k in range(n):
        kind = "dyadic" if rng.random() < 0.8 else "int"
        ts, c = gen_case(rng, kind)
        tl = gen.mktl(ts)
        cobj = gen.mktl(c) if c is not None else None
        okind, v, calls = pp.observe(lambda: tl.simplify(cobj))
        exprs.append(f"c_simplify 0 {record.coq_table(calls)} {cf.terms(ts)} {cf.opt(c, cf.terms)} {pp.exp_terms(okind, v)}")
        cases.append((ts, c, okind, v))
        pp.validate_lp(ctx, calls)
        nontrivial = c is not None or okind == "err" or len(v.terms) < len(ts)
        if okind == "err":
            hist["ValueError" if v[0] == 2 else "other_error"] += 1
        else:
            hist["dropped" if len(v.terms) < len(ts) else "kept_all"] += 1
        hist["with_context"] += c is not None
        if nontrivial:
            seen.add((gen.key_of(ts), None if c is None else gen.key_of(c)))
        bad = oracle(ctx, ts, c, okind, v)
        if bad:
            ctx.violation(bad[0], "simplify result violates C07", {
                "terms": [cf.jsonable_term(t) for t in ts], "context": None if c is None else [cf.jsonable_term(t) for t in c],
                "result": None if okind == "err" else [cf.jsonable_term(t) for t in cf.pts_of(v)],
                "error": v if okind == "err" else None, **bad[1]})
        if k < 2:
            ctx.sample({"terms": [cf.jsonable_term(t) for t in ts], "context": None if c is None else [cf.jsonable_term(t) for t in c],
                        "outcome": okind, "lp_calls": len(calls)})
    mism, errs = pp.evaluate_cases("c07", exprs)
    for e in errs:
        ctx.broke("correspondence:simplify", "cases file failed: " + e)
    for i in mism[:5]:
        ts, c, okind, v = cases[i]
        ctx.broke("correspondence:simplify", f"model/Poly.v poly_simplify and PolyhedralTermList.simplify disagree on terms="
                  f"{[cf.jsonable_term(t) for t in ts]} context={None if c is None else [cf.jsonable_term(t) for t in c]} "
                  f"implementation={'error ' + str(v) if okind == 'err' else [cf.jsonable_term(t) for t in cf.pts_of(v)]}")
    ctx.count(n, len(seen))
    ctx.notes["histogram"] = hist
    ctx.notes["correspondence_mismatches"] = len(mism)
    pp.finish_certs(ctx, "c07")
    ctx.assumptions += ["theorems are about the exact-arithmetic model with an exact LP oracle (lp_spec 0); float round-off and "
                        "HiGHS are outside the theorems and are watched by the correspondence and the certified oracle",
                        "constraints without variables are outside the model"]
