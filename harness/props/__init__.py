"""Per-property check modules and the context object they report into."""
from __future__ import annotations

import json
import os
import re
import time

import common


class Ctx:
    def __init__(self, prop, tier, seed, replay=None):
        self.prop, self.tier, self.seed, self.replay = prop, tier, seed, replay
        self.violations = []        # (key, description, payload) with a concrete failing input
        self.broken = []            # (name, detail): proof obligation / translator / correspondence no longer checks
        self.failures = []          # machinery failures (fail closed)
        self.cov = {"evaluations": 0, "distinct_nontrivial": 0, "samples": [], "rule": "", "obligations": 0,
                    "discharged": 0, "checker_cmd": "", "trusted_base": list(common.TRUSTED_BASE)}
        self.assumptions = []
        self.axioms = set()
        self.notes = {}
        self.quick = tier != "thorough"

    # ---------------------------------------------------------------- proofs
    def prove(self, props_file, extra_files=()):
        """Regenerate gen/, build the dependencies of props_file, compile it, gate assumptions.
        Returns True when every obligation is discharged."""
        with common.Lock():
            ok, msg = common.regen()
            self.notes["translator"] = msg
            if not ok:
                self.broken.append(("translator", msg))
                return False
            target = props_file[:-2] + ".vo"
            ok, log = common.coq_make([target])
            names = common.theorem_names(props_file)
            nob = len(names)
            for f in extra_files:
                nob += common.count_theorems(f)
            self.cov["obligations"] += nob
            self.cov["checker_cmd"] = (f"cd coq && make {target} && coqc <flags> {props_file}  "
                                       f"(Print Assumptions under every theorem of {props_file})")
            if not ok:
                unsupported = [l for l in msg.splitlines() if l.startswith("TRANSLATOR-UNSUPPORTED")]
                detail = common.first_error(log)
                if unsupported:
                    detail = "; ".join(u[:400] for u in unsupported[:4]) + " :: " + detail
                self.broken.append(("proof:" + props_file, detail))
                return False
            rc, out = common.coqc(props_file)
        if rc != 0:
            self.broken.append(("proof:" + props_file, common.first_error(out)))
            return False
        closed, axioms = common.parse_assumptions(out)
        self.axioms |= axioms
        extra = axioms - common.ALLOWED_AXIOMS
        if extra:
            self.broken.append(("gate:axioms", f"{props_file} depends on non-allow-listed axioms {sorted(extra)}"))
            return False
        bad = common.gate_sources()
        if bad:
            self.broken.append(("gate:sources", "; ".join(bad[:10])))
            return False
        self.cov["discharged"] += nob
        self.notes.setdefault("theorems", []).extend(names)
        self.notes["axioms"] = sorted(self.axioms)
        return True

    def build(self, targets):
        """make model files needed to evaluate cases; a failure is a broken correspondence."""
        with common.Lock():
            ok, log = common.coq_make(list(targets))
        if not ok:
            self.broken.append(("build:" + ",".join(targets), common.first_error(log)))
        return ok

    # ---------------------------------------------------------------- reporting
    def violation(self, key, description, payload):
        self.violations.append((key, description, payload))

    def broke(self, name, detail):
        self.broken.append((name, detail))

    def attempt(self, what, payload, f):
        """Run one generated case. An exception that escapes the harness's own classification does not end the run: when it was
        raised inside pacti it is reported as a violation with the case as the replay (the operation neither returned a result
        nor raised a documented error the harness expects there); otherwise it is a failure of the machinery itself."""
        try:
            return f()
        except (SystemExit, Exception) as e:  # noqa: BLE001
            import traceback
            tb = traceback.format_exc()
            last = [l for l in tb.splitlines() if l.strip().startswith("File ")][-1:] or [""]
            if "/src/pacti/" in last[0]:
                self.violation(f"{what}:escape:{type(e).__name__}", f"an exception escaped from pacti while the harness ran a generated case: {e!r}"[:300],
                               dict(payload() if callable(payload) else payload, traceback=tb[-800:]))
            else:
                self.machinery_failure(f"harness crashed on a generated case ({what}): " + tb[-1500:])
            return None

    def machinery_failure(self, msg):
        self.failures.append(msg)

    def count(self, evaluations=0, distinct=0):
        self.cov["evaluations"] += int(evaluations)
        self.cov["distinct_nontrivial"] += int(distinct)

    def sample(self, x):
        if len(self.cov["samples"]) < 6:
            self.cov["samples"].append(x)

    def finish(self, wall):
        known = [k for k in common.known_findings() if k["property"] == self.prop and k["status"] == "known"]
        lines = []
        nviol = 0
        seen_known = set()
        reported = set()
        for key, desc, payload in self.violations:
            kf = next((k for k in known if re.fullmatch(k["key"], key)), None)
            if kf is not None:
                if kf["key"] not in seen_known:
                    seen_known.add(kf["key"])
                    lines.append(f"KNOWN-FINDING: property={self.prop} {kf['description']}")
                continue
            if key in reported:
                continue
            reported.add(key)
            nviol += 1
            if nviol <= 5:
                path = common.write_replay(self.prop, {"property": self.prop, "key": key, "description": desc,
                                                       "seed": self.seed, "tier": self.tier, "input": payload})
                lines.append(f"VIOLATION property={self.prop} replay={path}")
        if nviol == 0:
            for name, detail in self.broken + [("machinery", f) for f in self.failures]:
                nviol += 1
                path = common.write_replay(self.prop, {"property": self.prop, "no_longer_checks": name, "detail": detail,
                                                       "seed": self.seed, "tier": self.tier,
                                                       "search": "the failing-input search of this check found no concrete input"})
                lines.append(f"VIOLATION property={self.prop} replay={path} no-failing-input-found")
                break
        self.cov["notes"] = self.notes
        if self.cov["discharged"] == 0:
            # nothing was discharged on this run (broken proof): keep the file valid via the generic keys
            self.cov["proof_obligations_open"] = self.cov.pop("obligations", 0)
            self.cov.pop("discharged", None)
            self.cov["distinct_nontrivial"] = max(self.cov["distinct_nontrivial"], 0)
        if self.broken:
            self.cov["broken"] = [f"{n}: {d[:300]}" for n, d in self.broken]
        common.write_evidence(self.prop, self.tier, self.seed, self.cov, wall, nviol, self.assumptions)
        for l in lines:
            print(l)
        if self.replay:
            import json
            rec = json.load(open(self.replay))
            want = rec.get("key") or rec.get("no_longer_checks")
            got = set(reported) | {n for n, _ in self.broken}
            print(f"REPLAY of {self.replay}: recorded {want!r} -> {'reproduced on the current tree' if want in got else 'not reproduced on the current tree'}")
        print(f"{self.prop} tier={self.tier} seed={self.seed} obligations={self.cov.get('obligations', self.cov.get('proof_obligations_open'))} "
              f"discharged={self.cov.get('discharged', 0)} evaluations={self.cov['evaluations']} "
              f"violations={nviol} wall={wall:.1f}s")
        return 1 if nviol else 0
