"""C16 — renaming variables is faithful substitution."""
import random
from fractions import Fraction as F

import coqfmt as cf
import gen
import p_contract as pc
import p_poly as pp
import record
from pacti.iocontract import Var


def subst_terms(ts, s, u):
    out = []
    for lin, c in ts:
        new = {}
        for v, a in lin.items():
            w = u if v == s else v
            new[w] = new.get(w, F(0)) + a
        out.append(({v: a for v, a in new.items() if a != 0}, c))
    return out


def subst_iface(lst, s, u):
    if s not in lst:
        return list(lst)
    if u in lst and u != s:
        return [v for v in lst if v != s]
    return [u if v == s else v for v in lst]


def same_meaning(A, B):
    return pp.implied_all(A, B) is None and pp.implied_all(B, A) is None


def check(ctx):
    ctx.cov["rule"] = (
        "polyhedral contracts over <=5 variables and (source, target) pairs of every kind: fresh target, target an existing "
        "input, target an existing output, absent source, source equal to target, clashes; sequences of mappings including "
        "swaps through a temporary name and rename-to-fresh-and-back; rename_variables replayed through the translated algebra "
        "over the polyhedral model (exact comparison); the result is compared with the contract obtained by substituting the name "
        "in every constraint (meaning of assumptions, and of assumptions with guarantees, decided exactly; interface lists "
        "compared exactly). non-trivial = the source occurs in the contract; distinct by canonical input")
    proved = ctx.prove("props/C16.v", ["proofs/PolyDomainFacts.v", "proofs/TermFacts.v", "proofs/IfaceFacts.v", "proofs/TermGenRename.v", "proofs/TermGenRemove.v", "proofs/TermGenCore.v", "proofs/WrapGenRename.v"])
    ctx.build(["model/PolyDomain.vo", "base/Farkas.vo"])
    rng = random.Random(ctx.seed + 16)
    n = (200 if ctx.quick else 20000) * (1 if proved else 3)
    exprs, cases, seen = [], [], set()
    hist = {}
    for k in range(n):
        nv = rng.randint(2, 5)
        vs = gen.VARS[:nv]
        ni = rng.randint(1, nv - 1)
        ins, outs = vs[:ni], vs[ni:]
        p = gen.rand_point(rng, vs)
        c = {"a": [gen.rand_term(rng, ins, "dyadic", point=p) for _ in range(rng.randint(0, 2))],
             "g": [gen.rand_term(rng, vs, "dyadic", point=p) for _ in range(rng.randint(1, 3))], "i": ins, "o": outs}
        try:
            k1 = gen.mkcontract(c)
        except Exception:
            continue
        kind = rng.choice(["fresh", "to_input", "to_output", "absent", "same", "swap", "roundtrip", "chain", "cancel", "repeated_pair"])
        src = rng.choice(vs)
        if kind == "cancel":
            # merging two variables of the same side whose coefficients cancel exactly: the renamed constraint is a bare constant
            # inequality -- true (vacuous) or FALSE (then the renamed assumptions/guarantees admit no behaviour at all)
            side, role = (ins, "a") if (len(ins) >= 2 and (len(outs) < 2 or rng.random() < 0.5)) else (outs, "g")
            if len(side) >= 2:
                x, y = rng.sample(side, 2)
                kk = rng.choice([F(1), F(2), F(1, 2)])
                c[role] = c[role] + [({x: kk, y: -kk}, F(rng.choice([-2, -1, -1, 1, 3])))]
                try:
                    k1 = gen.mkcontract(c)
                except Exception:
                    continue
                src = x
                cancel_target = y
            else:
                kind = "fresh"
        if kind == "cancel":
            maps = [(src, cancel_target)]
        elif kind == "fresh":
            maps = [(src, "n1")]
        elif kind == "to_input":
            maps = [(src, rng.choice(ins))]
        elif kind == "to_output":
            maps = [(src, rng.choice(outs))]
        elif kind == "absent":
            maps = [("q9", rng.choice(vs + ["n1"]))]
        elif kind == "same":
            maps = [(src, src)]
        elif kind == "repeated_pair":
            # the SAME (source, target) pair occurs twice in one list, with a mapping in between that re-creates the source name: every
            # mapping applies to the contract produced by the preceding ones
            a, b = (rng.sample(ins, 2) if len(ins) >= 2 else (rng.sample(outs, 2) if len(outs) >= 2 else (src, "n1")))
            form = rng.choice(["swap_twice", "there_back_there", "merge_recreate_merge"])
            if form == "swap_twice" and b != "n1":
                maps = [(a, "tmp"), (b, a), ("tmp", b)] * 2
            elif form == "merge_recreate_merge" and b != "n1":
                third = next((v for v in (ins if a in ins else outs) if v not in (a, b)), None)
                maps = [(a, b), (third, a), (a, b)] if third else [(a, "n1"), ("n1", a), (a, "n1")]
            else:
                maps = [(src, "n1"), ("n1", src), (src, "n1")]
        elif kind == "swap":
            a, b = rng.sample(vs, 2)
            maps = [(a, "tmp"), (b, a), ("tmp", b)]
        elif kind == "roundtrip":
            maps = [(src, "n1"), ("n1", src)]
        else:
            maps = [(rng.choice(vs + ["n1"]), rng.choice(vs + ["n1", "n2"])) for _ in range(rng.randint(2, 3))]
        okind, v, calls = pp.observe(lambda: k1.rename_variables(maps))
        maplit = cf.lst(f"({cf.s(a)}, {cf.s(b)})" for a, b in maps)
        exprs.append(f"cc_rename 0 {record.coq_table(calls)} {pc.cfields(c)} {maplit} {pc.exp_one(okind, v)}")
        payload = {"kind": kind, "contract": cf.jsonable_contract(c), "mappings": maps}
        cases.append((payload, okind, v))
        hist[f"{kind}:{'ok' if okind == 'ok' else v[1]}"] = hist.get(f"{kind}:{'ok' if okind == 'ok' else v[1]}", 0) + 1
        # expected by substitution, mapping after mapping
        exp = {"a": list(c["a"]), "g": list(c["g"]), "i": list(ins), "o": list(outs)}
        clash = False
        dead = False
        dead_at_last = False
        for idx_, (s, u) in enumerate(maps):
            if s == u:
                continue
            if (s in exp["i"] and u in exp["o"]) or (s in exp["o"] and u in exp["i"]):
                clash = True
                break
            if s in exp["i"] or s in exp["o"]:
                exp = {"a": subst_terms(exp["a"], s, u), "g": subst_terms(exp["g"], s, u),
                       "i": subst_iface(exp["i"], s, u), "o": subst_iface(exp["o"], s, u)}
                if not pp.is_feasible(exp["a"] + exp["g"]):
                    # merging two variables made the constraints unsatisfiable: every later step starts from a contract
                    # the constructor refuses (ValueError), so nothing further can be demanded of this sequence
                    dead = True
                    dead_at_last = idx_ == len(maps) - 1
                    break
        if dead:
            hist["sequence_hits_unsatisfiable_contract"] = hist.get("sequence_hits_unsatisfiable_contract", 0) + 1
            if okind == "err" and v[0] == 6:
                ctx.violation("rename:escape:" + v[1], "undocumented exception escaped from rename", dict(payload, exception=v[1] + ": " + v[2]))
            if not (dead_at_last and okind == "ok"):
                continue
            # the LAST step made the constraints unsatisfiable and a contract came back all the same: it must then be
            # unsatisfiable too (compared below like any other result)
        if any(s in ins + outs for s, _ in maps):
            seen.add((gen.key_of(c["a"] + c["g"]), tuple(ins), tuple(outs), tuple(maps)))
        if clash:
            if not (okind == "err" and v[0] == 1):
                ctx.violation("rename:clash_not_rejected", "a renaming that makes a variable both input and output did not raise IncompatibleArgsError", payload)
            continue
        if okind != "ok":
            if v[0] == 6:
                ctx.violation("rename:escape:" + v[1], "undocumented exception escaped from rename", dict(payload, exception=v[1] + ": " + v[2]))
            elif v[0] == 1:
                ctx.violation("rename:spurious_rejection", "an admissible renaming was rejected", payload)
            continue
        res = cf.contract_of(v)
        payload["result"] = cf.jsonable_contract(res)
        if res["i"] != exp["i"] or res["o"] != exp["o"]:
            ctx.violation("rename:interface_wrong", "interface lists are not the substituted ones", payload)
            continue
        if not same_meaning(res["a"], exp["a"]) or not same_meaning(res["a"] + res["g"], exp["a"] + exp["g"]):
            ctx.violation("rename:meaning_changed", "the renamed contract does not mean the substituted constraints", payload)
        if k < 2:
            ctx.sample(payload)
    mism, errs = pp.evaluate_cases("c16", exprs, chunk=100)
    for e in errs:
        ctx.broke("correspondence:rename", "cases file failed: " + e)
    for i in mism[:5]:
        payload, okind, v = cases[i]
        ctx.broke("correspondence:rename", f"translated algebra over the polyhedral model and rename_variables disagree on {payload}; "
                  f"implementation={'error ' + str(v) if okind == 'err' else cf.jsonable_contract(cf.contract_of(v))}")
    ctx.count(len(exprs), len(seen))
    ctx.notes["histogram"] = hist
    ctx.notes["correspondence_mismatches"] = len(mism)
    pp.finish_certs(ctx, "c16")
