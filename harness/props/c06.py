"""C06 — well-formed results with the prescribed interface; meaningless requests rejected (proof on T1)."""
import random

import p_algebra as pa


def check(ctx):
    ctx.cov["rule"] = (
        "theorems of props/C06.v re-checked against gen/AlgebraGen.v and gen/ListsGen.v regenerated from the source; "
        "T1 cross-check (scripted symbolic TermList vs translated algebra, exact comparison of interface lists incl. order, "
        "exhaustive over role assignments of <=2 variables in the thorough tier, sampled to 5); prescribed interfaces and "
        "well-formedness re-decided on the real IoContract with a brute-force finite domain; every kind of meaningless "
        "request fired at the real code. non-trivial = returned a contract or raised IncompatibleArgsError; distinct by topology+arguments")
    proved = ctx.prove("props/C06.v", ["proofs/IfaceFacts.v", "proofs/ListsFacts.v"])
    ctx.build(["model/Script.vo"])
    rng = random.Random(ctx.seed + 6)
    res = pa.script_crosscheck(rng, 1500 if ctx.quick else 100000, None if ctx.quick else 2, "c06")
    ctx.count(len(res["cases"]), res["distinct"])
    ctx.notes["script_hist"] = res["hist"]
    for c, e in list(zip(res["cases"], res["exps"]))[:2]:
        ctx.sample({"script_case": c, "implementation_outcome": e})
    for err in res["errors"]:
        ctx.broke("correspondence:T1-script", "cases file failed to evaluate: " + err)
    for c, e in res["mismatches"][:5]:
        ctx.broke("correspondence:T1-script", f"translated algebra and IoContract disagree on {c} (implementation: {e})")
    mult = 1 if proved and not ctx.broken else 4
    stats, viol = pa.semantic_search(rng, (1500 if ctx.quick else 200000) * mult)
    ctx.count(stats["compose_ok"] + stats["quotient_ok"] + stats["merge_ok"] + stats["rename_ok"] + stats["rejected"],
              stats["distinct_topologies"])
    ctx.notes["semantic_search"] = stats
    tried, viol2 = pa.meaningless_not_rejected(rng, (600 if ctx.quick else 60000) * mult)
    ctx.notes["meaningless_requests_tried"] = tried
    ctx.count(sum(tried.values()), 0)
    for v in viol + viol2:
        if v["prop"] == "C06":
            ctx.violation(v["kind"], f"{v['kind']} on the real IoContract", v)
    ctx.assumptions += ["DomainVars: simplification does not invent variables; renaming a term renames its variables "
                        "(proved for the polyhedral model in proofs/TermFacts.v, PolyFacts.v)"]
