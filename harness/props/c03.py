"""C03 — refinement tests decide semantic containment (model/Poly.v + proofs/PolyFacts.v; contract level via T1)."""
import random
from fractions import Fraction as F

import coqfmt as cf
import exactlp as lp
import gen
import p_poly as pp
import record
from pacti.utils.errors import IncompatibleArgsError
from pacti.iocontract import Var


def gen_pair(rng):
    nv = rng.randint(1, 4)
    vs = gen.VARS[:nv]
    mode = rng.choice(["unrelated", "weakening", "farkas", "equal", "separated", "unbounded", "empty_left", "empty_right",
                       "sublist", "self", "empty_left_constant_row", "sublist_of_right", "chain", "repeated_left_same_length"])
    p = gen.rand_point(rng, vs)
    A = [gen.rand_term(rng, vs, "dyadic", point=p) for _ in range(rng.randint(1, 4))]
    if mode == "unrelated":
        B = [gen.rand_term(rng, vs, "dyadic", point=gen.rand_point(rng, vs)) for _ in range(rng.randint(1, 3))]
    elif mode == "weakening":
        B = [(t[0], t[1] + F(rng.randint(0, 6), 2)) for t in rng.sample(A, rng.randint(1, len(A)))]
    elif mode == "farkas":
        B = [t for t in (gen.combo(rng, A, rng.choice([F(0), F(0), F(1, 2), F(-1, 4)])) for _ in range(rng.randint(1, 3))) if t[0]]
        B = B or [A[0]]
    elif mode == "equal":
        B = list(A) + [rng.choice(A)]
        rng.shuffle(B)
    elif mode == "separated":
        t = rng.choice(A)
        B = [({v: -a for v, a in t[0].items()}, -t[1] - F(rng.randint(1, 4), 2))]
    elif mode == "unbounded":
        A = A[:1]
        B = [gen.rand_term(rng, vs, "dyadic", point=p) for _ in range(rng.randint(1, 2))]
    elif mode == "empty_left":
        t = rng.choice(A)
        A = A + [({v: -a for v, a in t[0].items()}, -t[1] - F(rng.randint(1, 8), 4))]
        B = [gen.rand_term(rng, vs, "dyadic") for _ in range(rng.randint(1, 2))]
    elif mode == "empty_right":
        t = gen.rand_term(rng, vs, "dyadic")
        B = [t, ({v: -a for v, a in t[0].items()}, -t[1] - F(rng.randint(1, 8), 4))]
    elif mode == "empty_left_constant_row":
        # the left side is infeasible only through a variable-free false row (what a rename that cancels coefficients leaves behind)
        A = A + [({}, F(rng.choice([-1, -2])))] + ([({}, F(rng.choice([0, 3])))] if rng.random() < 0.5 else [])
        rng.shuffle(A)
        B = [gen.rand_term(rng, vs, "dyadic") for _ in range(rng.randint(1, 2))]
    elif mode == "sublist_of_right":
        # every term of the LEFT occurs verbatim in the right, which adds a really restricting term: the left is the WEAKER one
        B = list(A) + [gen.rand_term(rng, vs, "dyadic", point=gen.rand_point(rng, vs))]
        rng.shuffle(B)
    elif mode == "chain" and nv >= 2:
        # the bound on the right side's variable passes through a link variable the right side does not mention
        x, y = vs[0], vs[1]
        c1, c2 = F(rng.randint(-2, 3)), F(rng.randint(-2, 3))
        A = [({x: F(1), y: F(-1)}, c1), ({y: F(1)}, c2)] + ([gen.rand_term(rng, vs[2:], "dyadic")] if nv > 2 and rng.random() < 0.5 else [])
        rng.shuffle(A)
        B = [({x: F(1)}, c1 + c2 + F(rng.choice([0, 0, 1, -1]), 2))]
    elif mode == "repeated_left_same_length":
        # the left states a term twice; the right has as many entries: the left's distinct terms plus really restricting ones
        A = A[:rng.randint(1, 2)]
        A = A + [rng.choice(A) for _ in range(rng.randint(1, 2))]
        rng.shuffle(A)
        distinct = [t for i, t in enumerate(A) if t not in A[:i]]
        B = distinct + [gen.rand_term(rng, vs, "dyadic", point=gen.rand_point(rng, vs)) for _ in range(len(A) - len(distinct))]
        if rng.random() < 0.5:
            rng.shuffle(B)
    elif mode == "sublist":
        B = rng.sample(A, rng.randint(1, len(A)))
    else:
        B = list(A)
    return mode, A, B


def classify(A, B):
    """exact verdict: 'contained' (must-True), 'violated' (must-False, with witness), or 'either'."""
    if not B:
        return "contained", None
    if not A:
        return "either", None       # code answers False for an empty left side with a non-empty right side
    if all(pp.exactly_implied(A, t) for t in B):
        return "contained", None
    w = pp.implied_all(A, B)
    if w:
        return "violated", w
    return "either", None


def check(ctx):
    ctx.cov["rule"] = (
        "pairs of constraint lists over <=4 variables (unrelated, weakenings, Farkas combinations, equal bounds and "
        "duplicates, separated, unbounded, empty left/right, sub-lists, self) and contract pairs over a common "
        "interface; every linprog call recorded and replayed into model/Poly.v poly_refines (compared exactly in Coq); "
        "must-True when exact containment is certified on dyadic data, must-False when a certified witness in the box "
        "violates by more than the tolerance. non-trivial = verdict is must-True or must-False; distinct by canonical pair")
    proved = ctx.prove("props/C03.v", ["proofs/PolyFacts.v", "proofs/PolyLP.v", "proofs/PolyGenEmpty.v", "proofs/PolyGenContain.v"])
    ctx.build(["model/Corr.vo", "base/Farkas.vo"])
    rng = random.Random(ctx.seed)
    n = (300 if ctx.quick else 20000) * (1 if proved else 3)
    exprs, cases, seen = [], [], set()
    hist = {}
    for k in range(n):
        mode, A, B = gen_pair(rng)
        a, b = gen.mktl(A), gen.mktl(B)
        okind, v, calls = pp.observe(lambda: a.refines(b))
        exprs.append(f"c_refines 0 {record.coq_table(calls)} {cf.terms(A)} {cf.terms(B)} {pp.exp_bool(okind, v)}")
        cases.append((A, B, okind, v))
        pp.validate_lp(ctx, calls)
        verdict, w = classify(A, B)
        hist[f"{mode}:{verdict}:{v if okind == 'ok' else 'err'}"] = hist.get(f"{mode}:{verdict}:{v if okind == 'ok' else 'err'}", 0) + 1
        if verdict != "either":
            seen.add((gen.key_of(A), gen.key_of(B)))
        payload = {"left": [cf.jsonable_term(t) for t in A], "right": [cf.jsonable_term(t) for t in B], "mode": mode,
                   "answer": v if okind == "ok" else list(v)}
        if okind == "ok" and verdict == "contained" and v is False:
            ctx.violation("refines:false_on_contained", "refines answered False although containment holds exactly", payload)
        if okind == "ok" and verdict == "violated" and v is True:
            payload["witness"] = {kk: str(x) for kk, x in w[1].items()}
            ctx.violation("refines:true_on_violated", "refines answered True although a point violates the right side", payload)
        # the operator form on the lists (TermList.__le__) is the same relation
        okind2, v2, _ = pp.observe(lambda: a <= b)
        if okind2 == "ok" and verdict == "violated" and v2 is True:
            ctx.violation("refines:le_true_on_violated", "the <= operator on constraint lists answered True although a point violates the right side",
                          dict(payload, le_answer=v2, witness={kk: str(x) for kk, x in w[1].items()}))
        if okind2 == "ok" and verdict == "contained" and v2 is False:
            ctx.violation("refines:le_false_on_contained", "the <= operator on constraint lists answered False although containment holds exactly", dict(payload, le_answer=v2))
        if k < 2:
            ctx.sample(payload)
    # contract level: <=, contains_environment / contains_implementation, interface mismatch
    ncon = (60 if ctx.quick else 6000)
    for k in range(ncon):
        nv = rng.randint(2, 4)
        vs = gen.VARS[:nv]
        ins = vs[:rng.randint(1, nv - 1)]
        outs = [v for v in vs if v not in ins]
        p = gen.rand_point(rng, vs)
        a1 = [gen.rand_term(rng, ins, "dyadic", point=p) for _ in range(rng.randint(0, 2))]
        g1 = [gen.rand_term(rng, vs, "dyadic", point=p) for _ in range(rng.randint(1, 3))]
        mode = rng.choice(["weaker", "only_under_assumptions", "same_assumptions", "unrelated", "iface"])
        if mode == "weaker":
            a2 = a1 + [gen.rand_term(rng, ins, "dyadic", point=p)]
            g2 = [(t[0], t[1] + F(rng.randint(0, 4), 2)) for t in g1]
        elif mode == "only_under_assumptions":
            extra = gen.rand_term(rng, ins, "dyadic", point=p)
            a2 = a1 + [extra]
            g2 = [t for t in [gen.combo(rng, g1 + [extra], F(0))] if t[0]] or g1
        elif mode == "same_assumptions":
            # identical, non-empty assumption lists; the guarantee inclusion holds only where those assumptions hold
            if not a1:
                a1 = [gen.rand_term(rng, ins, "dyadic", point=p)]
            a2 = [(dict(t[0]), t[1]) for t in a1]
            g2 = []
            for _ in range(rng.randint(1, 2)):
                gt, at, kk = rng.choice(g1), rng.choice(a1), rng.choice([F(1), F(2), F(1, 2)])
                lin = dict(gt[0])
                for x, c in at[0].items():
                    lin[x] = lin.get(x, F(0)) + kk * c
                lin = {x: c for x, c in lin.items() if c != 0}
                if lin:
                    g2.append((lin, gt[1] + kk * at[1]))
            g2 = g2 or g1
        else:
            a2 = [gen.rand_term(rng, ins, "dyadic", point=p) for _ in range(rng.randint(0, 2))]
            g2 = [gen.rand_term(rng, vs, "dyadic", point=p) for _ in range(rng.randint(1, 2))]
        c1 = {"a": a1, "g": g1, "i": ins, "o": outs}
        c2 = {"a": a2, "g": g2, "i": ins, "o": outs}
        if mode == "iface":
            c2 = {"a": [], "g": [t for t in g2 if set(t[0]) <= set(outs)] , "i": [], "o": outs}
        try:
            k1, k2 = gen.mkcontract(c1), gen.mkcontract(c2)
        except IncompatibleArgsError:
            continue
        okind, v, calls = pp.observe(lambda: k1 <= k2)
        ctx.cov["evaluations"] += 1
        same_iface = set(c1["i"]) == set(c2["i"]) and set(c1["o"]) == set(c2["o"])
        payload = {"c1": cf.jsonable_contract(c1), "c2": cf.jsonable_contract(c2), "answer": v if okind == "ok" else list(v)}
        if not same_iface:
            if not (okind == "err" and v[0] == 1):
                ctx.violation("refines:interfaces_not_rejected", "refinement across different interfaces did not raise IncompatibleArgsError", payload)
            continue
        if okind != "ok":
            continue
        A1, B1 = a2, a1
        A2, B2 = g1 + [t for t in a2 if t not in g1], g2 + [t for t in a2 if t not in g2]
        v1, _ = classify(A1, B1)
        v2, _ = classify(A2, B2)
        if a2 and g1 and v1 == "contained" and v2 == "contained" and v is False:
            ctx.violation("refines:false_on_contained", "contract <= answered False although both containments hold exactly", payload)
        if (v1 == "violated" or v2 == "violated") and v is True:
            ctx.violation("refines:true_on_violated", "contract <= answered True although a containment is violated", payload)
        # derived membership tests
        comp = gen.mktl(g1 + a1)
        ok2, v2b, _ = pp.observe(lambda: k1.contains_implementation(comp))
        if ok2 == "ok" and v2b is False and pp.is_feasible(g1 + a1) and a1 and g1:
            ctx.violation("refines:false_on_contained", "contains_implementation rejected the contract's own guarantees", payload)
    mism, errs = pp.evaluate_cases("c03", exprs)
    for e in errs:
        ctx.broke("correspondence:refines", "cases file failed: " + e)
    for i in mism[:5]:
        A, B, okind, v = cases[i]
        ctx.broke("correspondence:refines", f"model/Poly.v poly_refines and PolyhedralTermList.refines disagree on left="
                  f"{[cf.jsonable_term(t) for t in A]} right={[cf.jsonable_term(t) for t in B]} implementation={v}")
    ctx.count(n, len(seen))
    ctx.notes["histogram"] = hist
    ctx.notes["correspondence_mismatches"] = len(mism)
    pp.finish_certs(ctx, "c03")
    ctx.assumptions += ["theorems are about the exact-arithmetic model with an exact LP oracle (lp_spec 0, lp_total)",
                        "every term mentions at least one variable; an empty left side against a non-empty right side answers False by design"]
