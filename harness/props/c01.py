"""C01 — composition returns a sound abstraction of the exact composition
(C05 instantiated with the polyhedral domain; correspondence through gen/AlgebraGen.v + model/*.v)."""
import random
from fractions import Fraction as F

import coqfmt as cf
import gen
import p_contract as pc
import p_poly as pp
import record
from pacti.iocontract import Var

TAU = F(1, 10 ** 9)


def _t(lin, c):
    return ({k: F(v) for k, v in lin.items()}, F(c))


# regression corpus: (wiring, c1, c2, vars_to_keep, simplify, tactics_order)
CORPUS = [
    # D11: tactic 4 refines an assumption into the variable-free '0 <= -1/2'; simplifying the guarantees in that context failed an assert
    ("corpus:D11", {"a": [], "g": [_t({"y": -2}, 6), _t({"x": F(1, 2), "y": -1}, F(3, 2))], "i": ["x"], "o": ["y"]},
     {"a": [_t({"y": F(-1, 2)}, 2), _t({"y": F(-1, 2)}, 1)],
      "g": [_t({"v": -2, "y": 2}, -10), _t({"y": 2}, F(1, 2)), _t({"v": 2, "y": -2}, 12)], "i": ["y", "u"], "o": ["v"]},
     ["v"], True, [4]),
]


def tactic_tag(stats):
    tags = set()
    for one in stats:
        for s in one:
            n, cnt = int(s[0]), int(s[2])
            if n > 0:
                tags.add(f"{n}r" if (n == 4 and cnt > 1) else str(n))
    return "+".join(sorted(tags)) or "none"


def run(ctx, n, tag, rng, quotient=False):
    pass


def check(ctx):
    ctx.cov["rule"] = (
        "pairs of polyhedral contracts in seven wirings (independent, cascade in both call orders, one-sided producer with several consumer assumptions, two-variable cascade, shared "
        "inputs, feedback), dyadic data with power-of-two coefficients on connected variables, all vars_to_keep subsets sampled, "
        "simplify on/off, tactic orders: default, each singleton, permutations; real PolyhedralIoContract.compose_tactics with "
        "linprog recorded and replayed into the translated algebra instantiated with the polyhedral model (result contract at "
        "1e-9, interface lists and tactic numbers exactly); C01's conclusion decided exactly per result by case-splitting the "
        "'component honours its contract' hypotheses into LPs whose certificates base/Farkas.v re-checks. non-trivial = a "
        "contract was returned after eliminating at least one variable, or IncompatibleArgsError; distinct by canonical input")
    proved = ctx.prove("props/C01.v", ["proofs/PolyDomainFacts.v", "proofs/TacticsFacts.v", "proofs/AlgebraSound.v", "proofs/WrapGenCompose.v"])
    ctx.build(["model/PolyDomain.vo", "base/Farkas.vo"])
    rng = random.Random(ctx.seed + 1)
    n = (250 if ctx.quick else 8000) * (1 if proved else 3)
    exprs, cases, jobs, seen = [], [], [], set()
    hist = {}
    for k in range(n):
        wiring, c1, c2 = pc.gen_pair(rng)
        outs = c1["o"] + c2["o"]
        keep = [v for v in outs if rng.random() < 0.3]
        keep_arg = rng.choice([None, keep]) if not keep else keep
        simplify = rng.random() < 0.6
        order = rng.choice(pc.ORDERS)
        if k < len(CORPUS):
            wiring, c1, c2, keep_arg, simplify, order = CORPUS[k]       # minimised failures of earlier runs go first
        k1, k2 = gen.mkcontract(c1), gen.mkcontract(c2)
        okind, v, calls = pp.observe(lambda: k1.compose_tactics(k2, keep_arg, simplify, None if order is None else list(order)))
        safe = pc.exact_safe_pair(c1, c2)
        hist["correspondence:" + ("compared" if safe else "oracle_only(inexact-prone)")] = hist.get("correspondence:" + ("compared" if safe else "oracle_only(inexact-prone)"), 0) + 1
        exprs.append(f"cc_compose {cf.q(TAU)} {record.coq_table(calls)} {pc.cfields(c1)} {pc.cfields(c2)} "
                     f"{cf.opt(keep_arg, cf.svars)} {cf.boolean(simplify)} {cf.opt(order, cf.natlist)} {pc.exp_pair(okind, v)}" if safe else "true")
        pp.validate_lp(ctx, calls)
        payload = {"wiring": wiring, "c1": cf.jsonable_contract(c1), "c2": cf.jsonable_contract(c2), "vars_to_keep": keep_arg,
                   "simplify": simplify, "tactics_order": order}
        cases.append((payload, okind, v))
        if okind == "ok":
            res = cf.contract_of(v[0])
            tag = tactic_tag(v[1])
            hist[f"{wiring}:ok:{tag}"] = hist.get(f"{wiring}:ok:{tag}", 0) + 1
            jobs.append((k, tag, (c1, c2, res)))
            if tag != "none":
                seen.add((wiring, gen.key_of(c1["a"] + c1["g"]), gen.key_of(c2["a"] + c2["g"]), tuple(keep), simplify, str(order)))
        else:
            hist[f"{wiring}:{v[1]}"] = hist.get(f"{wiring}:{v[1]}", 0) + 1
            if v[0] == 1:
                seen.add((wiring, gen.key_of(c1["a"] + c1["g"]), gen.key_of(c2["a"] + c2["g"]), tuple(keep), simplify, str(order)))
            if v[0] == 6:
                ctx.violation("compose:escape:" + v[1], "undocumented exception escaped from compose", dict(payload, exception=v[1] + ": " + v[2]))
        if k < 2:
            ctx.sample(payload)
    verdicts = pc.run_oracles(pc.oracle_compose, [j[2] for j in jobs])
    for (k, tag, args), bad in zip(jobs, verdicts):
        if bad:
            payload = dict(cases[k][0])
            payload.update(bad)
            payload["result"] = cf.jsonable_contract(args[2])
            payload["tactics_used"] = tag
            ctx.violation(f"compose:unsound:tactics={tag}", "composition result is not a sound abstraction (C01)", payload)
    mism, errs = pp.evaluate_cases("c01", exprs, chunk=60)
    for e in errs:
        ctx.broke("correspondence:compose", "cases file failed: " + e)
    for i in mism[:5]:
        payload, okind, v = cases[i]
        ctx.broke("correspondence:compose", f"translated algebra over the polyhedral model and PolyhedralIoContract.compose_tactics disagree on {payload}; "
                  f"implementation={'error ' + str(v) if okind == 'err' else cf.jsonable_contract(cf.contract_of(v[0]))}")
    ctx.count(n, len(seen))
    ctx.notes["histogram"] = hist
    ctx.notes["correspondence_mismatches"] = len(mism)
    ctx.notes["mismatch_indices"] = mism[:20]
    pp.finish_certs(ctx, "c01")
