"""C12 — optimisation returns the true optimum, None iff unbounded
(model/Poly.v poly_optimize via PolyDomain.poly_optimize_c; proofs/PolyFacts.v)."""
import random
from fractions import Fraction as F

import coqfmt as cf
import exactlp as lp
import gen
import p_contract as pc
import p_poly as pp
import record


def render_objective(obj):
    parts = []
    for v, a in obj.items():
        a = int(a)
        parts.append(("+ " if a >= 0 else "- ") + (f"{abs(a)} {v}" if abs(a) != 1 else v))
    s = " ".join(parts)
    return s[2:] if s.startswith("+ ") else "-" + s[2:]


def check(ctx):
    ctx.cov["rule"] = (
        "satisfiable and unsatisfiable polyhedral contracts over <=5 variables (bounded, unbounded in some direction, "
        "infeasible), objectives with <=3 small-integer coefficients given as strings, both directions, and "
        "get_variable_bounds; linprog recorded and replayed into model/Poly.v poly_optimize (compared exactly inside Coq); "
        "the answer compared with an exact rational LP (optimum within 1e-6 relative, None iff unbounded, ValueError iff "
        "infeasible), certificates re-checked by base/Farkas.v. non-trivial = every case; distinct by canonical input")
    proved = ctx.prove("props/C12.v", ["proofs/PolyFacts.v", "proofs/WrapGenBounds.v", "proofs/PolyGenOptimize.v"])
    ctx.build(["model/PolyDomain.vo", "base/Farkas.vo"])
    rng = random.Random(ctx.seed + 12)
    n = (200 if ctx.quick else 30000) * (1 if proved else 3)
    exprs, cases, seen = [], [], set()
    hist = {}
    for k in range(n):
        nv = rng.randint(1, 5)
        vs = gen.VARS[:nv]
        ni = rng.randint(0, nv)
        ins, outs = vs[:ni], vs[ni:]
        mode = rng.choice(["bounded", "bounded", "open", "infeasible", "infeasible_constant_rows"])
        p = gen.rand_point(rng, vs)
        a = [gen.rand_term(rng, ins, "dyadic", point=p) for _ in range(rng.randint(0, 2))] if ins else []
        g = []
        # sometimes part of the interface is mentioned by no constraint at all (declared but unconstrained variables)
        used = vs if (nv < 2 or rng.random() < 0.7) else rng.sample(vs, rng.randint(1, nv - 1))
        free = [v for v in vs if v not in used]
        if free:
            a = [t for t in a if all(x in used for x in t[0])]
        if mode in ("bounded", "infeasible"):
            for v in used:
                g += pc.two_sided(rng, {v: F(1)}, p, 6)
        g += [gen.rand_term(rng, used, "dyadic", point=p) for _ in range(rng.randint(1, 3))]
        if mode == "infeasible_constant_rows":
            # unsatisfiable only through a variable-free false row, standing next to a variable-free TRUE one and ordinary constraints
            for v in used:
                g += pc.two_sided(rng, {v: F(1)}, p, 6)
            extra = [({}, F(rng.choice([-1, -3]))), ({}, F(rng.choice([0, 2])))]
            if rng.random() < 0.5 and a:
                a = a + extra[:1]
                g = g + extra[1:]
            else:
                g = g + extra
        if mode == "infeasible":
            t = rng.choice(g)
            g.append(({x: -c for x, c in t[0].items()}, -t[1] - F(rng.randint(1, 6), 2)))
        rng.shuffle(g)
        c = {"a": a, "g": g, "i": ins, "o": outs}
        try:
            k1 = gen.mkcontract(c)
        except Exception:
            continue
        obj = {v: F(rng.choice([-3, -2, -1, 1, 2, 3])) for v in rng.sample(vs, rng.randint(1, min(3, nv)))}
        if free and rng.random() < 0.7:
            obj[rng.choice(free)] = F(rng.choice([-2, -1, 1, 2]))
            obj = dict(list(obj.items())[-3:])
        hist["unconstrained_interface_variable_in_objective" if any(x in free for x in obj) else "objective_over_constrained_variables"] = \
            hist.get("unconstrained_interface_variable_in_objective" if any(x in free for x in obj) else "objective_over_constrained_variables", 0) + 1
        expr = render_objective(obj)
        mx = rng.random() < 0.5
        okind, v, calls = pp.observe(lambda: k1.optimize(expr, maximize=mx))
        exprs.append(f"cc_optimize 0 {record.coq_table(calls)} {pc.cfields(c)} {cf.pvars(obj)} {cf.boolean(mx)} {pp.exp_optq(okind, v)}")
        pp.validate_lp(ctx, calls)
        allc = a + [t for t in g if t not in a]
        r = lp.maximize(obj if mx else {x: -q for x, q in obj.items()}, allc, extra_vars=vs)
        truth = r["status"]
        payload = {"contract": cf.jsonable_contract(c), "objective": expr, "maximize": mx,
                   "answer": (None if v is None else float(v)) if okind == "ok" else list(v), "exact": truth}
        cases.append(payload)
        key = f"{truth}:{'value' if okind == 'ok' and v is not None else 'None' if okind == 'ok' else v[1]}"
        hist[key] = hist.get(key, 0) + 1
        seen.add((gen.key_of(allc), tuple(obj.items()), mx))
        if truth == "opt":
            exact = r["max"] if mx else -r["max"]
            payload["exact_optimum"] = str(exact)
            if not (okind == "ok" and v is not None and abs(F(float(v)) - exact) <= F(1, 10 ** 6) * (1 + abs(exact))):
                ctx.violation("optimize:wrong_value", "optimize did not return the exact optimum", payload)
            pp.CERTS.append(("implies", allc, ({x: (q if mx else -q) for x, q in obj.items()}, r["max"]), r["y"]))
        elif truth == "unbounded":
            if not (okind == "ok" and v is None):
                kind = "optimize:error_on_unbounded" if okind == "err" else "optimize:value_on_unbounded"
                ctx.violation(kind, "optimize did not return None on a non-empty set unbounded in the requested direction", payload)
        else:
            if not (okind == "err" and v[0] == 2):
                ctx.violation("optimize:no_error_on_empty", "optimize did not raise ValueError on an unsatisfiable contract", payload)
            pp.CERTS.append(("infeasible", allc, r["y"]))
        # variable bounds ARE the minimum and the maximum over all behaviours (None iff unbounded on that side, ValueError iff empty)
        if k % 2 == 0:
            var = rng.choice(vs)
            okb, vb, _ = pp.observe(lambda: k1.get_variable_bounds(var))
            rmax = lp.maximize({var: F(1)}, allc, extra_vars=vs)
            rmin = lp.maximize({var: F(-1)}, allc, extra_vars=vs)
            binfo = dict(payload, variable=var, bounds=list(vb) if okb == "ok" else list(vb),
                         exact_min=str(-rmin["max"]) if rmin["status"] == "opt" else rmin["status"],
                         exact_max=str(rmax["max"]) if rmax["status"] == "opt" else rmax["status"])
            hist["bounds:" + (truth if truth == "infeasible" else "feasible")] = hist.get("bounds:" + (truth if truth == "infeasible" else "feasible"), 0) + 1
            if rmax["status"] == "infeasible":
                if not (okb == "err" and vb[0] == 2):
                    ctx.violation("optimize:bounds_no_error_on_empty", "get_variable_bounds did not raise ValueError on an unsatisfiable contract", binfo)
            elif okb == "ok":
                lo, hi = vb

                def off(got, exact):
                    return abs(F(float(got)) - exact) > F(1, 10 ** 6) * (1 + abs(exact))
                bad = None
                if rmax["status"] == "opt" and (hi is None or off(hi, rmax["max"])):
                    bad = "upper bound is not the maximum"
                if rmax["status"] == "unbounded" and hi is not None:
                    bad = "finite upper bound although the variable is unbounded above"
                if rmin["status"] == "opt" and (lo is None or off(lo, -rmin["max"])):
                    bad = "lower bound is not the minimum"
                if rmin["status"] == "unbounded" and lo is not None:
                    bad = "finite lower bound although the variable is unbounded below"
                if bad:
                    ctx.violation("optimize:bounds_not_min_max", "get_variable_bounds: " + bad, binfo)
            elif okb == "err":
                ctx.violation("optimize:bounds_error_on_nonempty" if vb[0] != 6 else "optimize:escape:" + vb[1],
                              "get_variable_bounds raised on a satisfiable contract", binfo)
        if k < 2:
            ctx.sample(payload)
    mism, errs = pp.evaluate_cases("c12", exprs)
    for e in errs:
        ctx.broke("correspondence:optimize", "cases file failed: " + e)
    for i in mism[:5]:
        ctx.broke("correspondence:optimize", f"model poly_optimize and PolyhedralIoContract.optimize disagree on {cases[i]}")
    ctx.count(len(exprs), len(seen))
    ctx.notes["histogram"] = hist
    ctx.notes["correspondence_mismatches"] = len(mism)
    pp.finish_certs(ctx, "c12")
    ctx.assumptions += ["the objective string is parsed by the real grammar; the model receives the objective's coefficient map "
                        "(parser model: C09)", "objectives without a constant term"]
