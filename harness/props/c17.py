"""C17 — compound (disjunctive) contracts behave as unions of polyhedra
(model/Compound.v + proofs/CompoundFacts.v; correspondence with LP replay; exact semantic oracle)."""
import itertools
import random
from fractions import Fraction as F

import compound_cases as cc
import coqfmt as cf
import exactlp as lp
import p_poly as pp


def feasible(ts):
    return lp.feasible(ts)["status"] != "infeasible"


def equivalent(x, y):
    return all(pp.exactly_implied(x, t) for t in y) and all(pp.exactly_implied(y, t) for t in x)


def point_outside_all(left, rights, vs):
    """a point of `left` (in the box) violating every alternative of `rights` by more than the tolerance, or None"""
    if not rights:
        r = lp.feasible(left + lp.box_terms(vs, pp.BOX))
        return r.get("point") if r["status"] != "infeasible" else None
    for choice in itertools.product(*[range(len(r)) for r in rights]):
        H = list(left) + lp.box_terms(vs, pp.BOX)
        for r, k in zip(rights, choice):
            t = r[k]
            H.append(({v: -a for v, a in t[0].items()}, -(t[1] + pp.TOL * (1 + abs(t[1])))))
        res = lp.feasible(H)
        if res["status"] != "infeasible":
            return res["point"]
    return None


def semantic_oracle(ctx, sc):
    """Decide C17 on the real objects for one scenario; reports violations into ctx."""
    nests = {}
    vs = list(dict.fromkeys(sc["i"] + sc["o"] + ["w"]))
    for key in ("a1", "g1", "a2", "g2"):
        alts = sc[key]
        kind, v, _ = pp.observe(lambda: cc.mknested(alts, True))
        shares = any(feasible(alts[i] + alts[j]) for i in range(len(alts)) for j in range(i + 1, len(alts)))
        info = {"alternatives": [[cf.jsonable_term(t) for t in a] for a in alts]}
        if any(not t[0] for a in alts for t in a):
            continue
        if kind == "ok" and shares:
            ctx.violation("compound:overlap_accepted", "overlapping alternatives accepted by the disjointness check", info)
        if kind == "err" and v[0] == 2 and not shares:
            ctx.violation("compound:disjoint_rejected", "disjoint alternatives rejected with ValueError", info)
        nests[key] = cc.mknested(alts, False)
    # contains_behavior
    for b in sc["beh"]:
        for key, n in nests.items():
            alts = sc[key]
            kind, v, _ = pp.observe(lambda: n.contains_behavior(cc.mkbehavior(b)))
            bd = dict(b)
            if kind != "ok":
                continue
            if any(x not in bd for a in alts for t in a for x in t[0]):
                continue
            truth = any(all(lp.holds_at(t, bd) for t in a) for a in alts)
            if v != truth:
                ctx.violation("compound:contains_wrong", "nested contains_behavior disagrees with exact evaluation",
                              {"alternatives": [[cf.jsonable_term(t) for t in a] for a in alts], "behavior": [(k, str(x)) for k, x in b], "answer": v})
    # intersection = pairwise intersections, only empty ones dropped
    # (force_empty_intersection=True is what IoContractCompound.merge uses for the assumptions)
    for p, q, force in (("a1", "a2", False), ("a1", "a2", True), ("a2", "a1", True), ("g1", "g2", False)):
        if p not in nests or q not in nests:
            continue
        kind, v, _ = pp.observe(lambda: nests[p].intersect(nests[q], force))
        pairs = [x + [t for t in y if t not in x] for x in sc[p] for y in sc[q]]
        live = [pr for pr in pairs if feasible(pr)]
        if kind == "err" and v[0] == 2 and force:
            if not any(feasible(live[i] + live[j]) for i in range(len(live)) for j in range(i + 1, len(live))):
                ctx.violation("compound:disjoint_rejected", "an intersection with pairwise disjoint alternatives was rejected with ValueError",
                              {"left": [[cf.jsonable_term(t) for t in a] for a in sc[p]], "right": [[cf.jsonable_term(t) for t in a] for a in sc[q]]})
            continue
        if kind != "ok":
            continue
        res = cc.nested_of(v)
        info = {"left": [[cf.jsonable_term(t) for t in a] for a in sc[p]], "right": [[cf.jsonable_term(t) for t in a] for a in sc[q]],
                "force_empty_intersection": force, "result": [[cf.jsonable_term(t) for t in a] for a in res]}
        if force and any(feasible(res[i] + res[j]) for i in range(len(res)) for j in range(i + 1, len(res))):
            ctx.violation("compound:overlap_accepted", "overlapping alternatives accepted in an intersection built with the disjointness check", info)
        for pr in live:
            if not any(equivalent(pr, r) for r in res):
                ctx.violation("compound:intersection_lost", "a non-empty pairwise intersection is missing from the result", info)
                break
        for r in res:
            if not any(equivalent(pr, r) for pr in pairs):
                ctx.violation("compound:intersection_extra", "the intersection contains an alternative that is no pairwise intersection", info)
                break
            if not feasible(r):
                ctx.violation("compound:empty_kept", "an empty alternative was kept in the intersection", info)
                break
    # a side with NO alternative (what a merge of incompatible contracts leaves behind) contains no behaviour: intersecting with it,
    # from either side, must give no alternative
    for key in ("a1", "g1"):
        if key not in nests:
            continue
        kind, empty_side, _ = pp.observe(lambda: cc.mknested([], False))
        if kind != "ok":
            break
        for left, right, tag in ((nests[key], empty_side, "x & none"), (empty_side, nests[key], "none & x")):
            for force in (False, True):
                kind, v, _ = pp.observe(lambda: left.intersect(right, force))
                if kind == "ok" and cc.nested_of(v):
                    ctx.violation("compound:intersection_with_nothing_not_empty", "intersecting with a nested list without alternatives kept alternatives",
                                  {"order": tag, "force_empty_intersection": force, "alternatives": [[cf.jsonable_term(t) for t in a] for a in sc[key]],
                                   "result": [[cf.jsonable_term(t) for t in a] for a in cc.nested_of(v)]})
    # ... and at contract level: merging with a compound contract one of whose sides has no alternative gives no alternative there
    try:
        ka = cc.mkcompound({"a": sc["a1"], "g": sc["g1"], "i": sc["i"], "o": sc["o"]})
        for side in ("a", "g"):
            hollow = cc.mkcompound({"a": [] if side == "a" else sc["a2"], "g": [] if side == "g" else sc["g2"], "i": sc["i"], "o": sc["o"]})
            for left, right, tag in ((ka, hollow, "c.merge(hollow)"), (hollow, ka, "hollow.merge(c)")):
                kind, v, _ = pp.observe(lambda: left.merge(right))
                if kind == "ok":
                    got = cc.nested_of(v.a if side == "a" else v.g)
                    if got:
                        ctx.violation("compound:merge_with_nothing_not_empty", "merging with a compound contract whose " + ("assumptions" if side == "a" else "guarantees") +
                                      " have no alternative kept alternatives on that side", {"order": tag, "result_side": [[cf.jsonable_term(t) for t in a] for a in got]})
    except ValueError:
        pass
    # <= : True only if the left union is contained in the right union
    for p, q in (("a1", "a2"), ("g1", "g2"), ("g2", "g1")):
        if p not in nests or q not in nests:
            continue
        kind, v, _ = pp.observe(lambda: nests[p] <= nests[q])
        if kind == "ok" and v is True:
            for a in sc[p]:
                w = point_outside_all(a, sc[q], vs)
                if w is not None:
                    ctx.violation("compound:le_unsound", "nested <= answered True but a point of the left union is outside the right union",
                                  {"left": [[cf.jsonable_term(t) for t in x] for x in sc[p]],
                                   "right": [[cf.jsonable_term(t) for t in x] for x in sc[q]], "point": {k: str(x) for k, x in w.items()}})
                    break


def slack_in(alt, bd):
    """smallest slack of the point in the alternative (negative = outside)"""
    return min((t[1] - sum(a * bd[x] for x, a in t[0].items()) for t in alt), default=F(1000))


def contract_level(ctx, rng, sc):
    """What the CONTRACT constructor and the contract-level merge keep: the constructor must itself reject assumption alternatives
    that share a behaviour (whatever the nested list it is handed went through), and must keep every alternative it is given --
    in particular an alternative that CONTAINS an earlier one (smaller first) and the nested pairwise intersections of a merge."""
    from pacti.contracts.polyhedral_iocontract import PolyhedralIoContractCompound
    from pacti.iocontract import Var
    ins, outs = sc["i"], sc["o"]
    if set(ins) & set(outs) or not ins:
        return
    vs = list(dict.fromkeys(ins + outs))
    jal = lambda alts: [[cf.jsonable_term(t) for t in a] for a in alts]     # noqa: E731

    def build(a_alts, g_alts, validated):
        return PolyhedralIoContractCompound(assumptions=cc.mknested(a_alts, validated), guarantees=cc.mknested(g_alts, False),
                                            input_vars=[Var(v) for v in ins], output_vars=[Var(v) for v in outs])

    # (1) the constructor on a nested list that was NOT validated when it was built
    for a_alts in (sc["a1"], sc["a2"]):
        if any(not t[0] for a in a_alts for t in a) or any(x not in ins for a in a_alts for t in a for x in t[0]):
            continue
        shares = any(feasible(a_alts[i] + a_alts[j]) for i in range(len(a_alts)) for j in range(i + 1, len(a_alts)))
        kind, v, _ = pp.observe(lambda: build(a_alts, sc["g1"], False))
        info = {"assumption_alternatives": jal(a_alts), "guarantee_alternatives": jal(sc["g1"]), "inputs": ins, "outputs": outs,
                "how": "PolyhedralIoContractCompound(assumptions=NestedPolyhedra(..., force_empty_intersection=False), ...)"}
        if kind == "ok" and shares:
            ctx.violation("compound:overlap_accepted_by_constructor", "the contract constructor accepted assumption alternatives that share a behaviour", info)
        if kind == "err" and v[0] == 2 and v[1] == "ValueError" and not shares:
            ctx.violation("compound:disjoint_rejected_by_constructor", "the contract constructor rejected pairwise disjoint assumption alternatives", dict(info, error=list(v)))
    # (2) guarantees with a later alternative containing an earlier one (and the other way round); a point of the larger one outside the smaller
    if any(not t[0] for a in sc["g1"] for t in a) or not sc["g1"] or not sc["g1"][0]:
        return
    small = list(sc["g1"][0])
    m = F(rng.choice([1, 2, 3]), rng.choice([1, 2]))
    big = [(co, c + m * sum(abs(a) for a in co.values())) for co, c in small if rng.random() < 0.9] or [(small[0][0], small[0][1] + m)]
    g_alts = [small, big] if rng.random() < 0.7 else [big, small]
    a_alts = sc["a1"] if not any(feasible(sc["a1"][i] + sc["a1"][j]) for i in range(len(sc["a1"])) for j in range(i + 1, len(sc["a1"]))) else sc["a1"][:1]
    if any(not t[0] for a in a_alts for t in a):
        return
    pts = []
    for co, c in small:
        r = lp.feasible(big + lp.box_terms(vs, F(50)) + [({x: -a for x, a in co.items()}, -(c + m * sum(abs(a) for a in co.values()) / 2))])
        if r["status"] != "infeasible":
            pts.append({x: r["point"].get(x, F(0)) for x in vs})
    inner = lp.feasible(small + lp.box_terms(vs, F(50)))
    if inner["status"] != "infeasible":
        pts.append({x: inner["point"].get(x, F(0)) for x in vs})
    kind, k1, _ = pp.observe(lambda: build(a_alts, g_alts, True))
    if kind != "ok":
        return
    info = {"assumption_alternatives": jal(a_alts), "guarantee_alternatives": jal(g_alts), "inputs": ins, "outputs": outs}
    if len(cc.nested_of(k1.g)) != len(g_alts) and feasible(small):
        ctx.violation("compound:constructor_lost_alternative", "the contract constructor did not keep every guarantee alternative it was given",
                      dict(info, kept=jal(cc.nested_of(k1.g))))
    for bd in pts:
        truth = any(slack_in(a, bd) >= 0 for a in g_alts)
        kind, v, _ = pp.observe(lambda: k1.g.contains_behavior(cc.mkbehavior(list(bd.items()))))
        if kind == "ok" and v != truth:
            ctx.violation("compound:contract_contains_wrong", "the guarantees of a constructed compound contract disagree with the union of the alternatives given",
                          dict(info, behavior={x: str(q) for x, q in bd.items()}, answer=v))
    # (3) merge: the union of the result's guarantee alternatives is the intersection of the operands' unions, also when the pairwise
    #     intersections are nested although no operand's alternatives are (cut both by a third list)
    cutv = rng.choice(vs)
    c0 = rng.choice(pts)[cutv] if pts else F(0)
    w = F(rng.choice([0, 1, 2]), rng.choice([1, 2]))
    g_cut = [[({cutv: F(1)}, c0 + w), ({cutv: F(-1)}, -(c0 - w))]]
    kind, k2, _ = pp.observe(lambda: build(a_alts, g_cut, True))
    if kind != "ok":
        return
    for left, right, tag in ((k1, k2, "c1.merge(c2)"), (k2, k1, "c2.merge(c1)")):
        kind, mg, _ = pp.observe(lambda: left.merge(right))
        if kind != "ok":
            continue
        for bd in pts:
            s = min(max((slack_in(a, bd) for a in g_alts)), max((slack_in(a, bd) for a in g_cut)))
            if abs(s) < F(1, 1024):
                continue
            kind, v, _ = pp.observe(lambda: mg.g.contains_behavior(cc.mkbehavior(list(bd.items()))))
            if kind == "ok" and v != (s > 0):
                ctx.violation("compound:merge_union_wrong", "the guarantees of a merge are not the intersection of the operands' unions at a point",
                              dict(info, other_guarantee_alternatives=jal(g_cut), order=tag, behavior={x: str(q) for x, q in bd.items()},
                                   answer=v, merged_guarantees=jal(cc.nested_of(mg.g))))


def check(ctx):
    ctx.cov["rule"] = (
        "scenarios of two related compound contracts over <=3 variables, 1-3 alternatives per side (disjoint, touching, "
        "overlapping, empty, duplicated terms), every operation of NestedPolyhedra / PolyhedralIoContractCompound run on the "
        "real classes with linprog recorded and replayed into model/Compound.v (results compared exactly inside Coq, with a "
        "canary); C17 re-decided exactly on the real objects (membership by exact evaluation, intersection alternative by "
        "alternative, <= by exact search for a point outside the right union, disjointness by exact feasibility); at contract level: the constructor on nested lists that were not validated, guarantee "
        "alternatives one of which contains another (either order) with a point of the larger outside the smaller, and merges whose "
        "pairwise intersections are nested. "
        "non-trivial = the operation returned a value or ValueError; distinct counted per (scenario, operation)")
    proved = ctx.prove("props/C17.v", ["proofs/CompoundFacts.v", "proofs/CompoundGenNested.v", "proofs/CompoundGenContract.v"])
    ctx.build(["model/Compound.vo", "model/Corr.vo"])
    n = (60 if ctx.quick else 1500) * (1 if proved else 3)
    try:
        res = cc.selftest(n, ctx.seed + 17, tag="c17")
        ctx.count(res["cases"], res["cases"] - res["outcomes"].get("vars:value", 0))
        ctx.notes["correspondence"] = {k: res[k] for k in ("scenarios", "cases", "per_operation", "outcomes", "lp_calls", "mismatches", "canary_detected")}
        if not res["canary_detected"]:
            ctx.machinery_failure("the canary mismatch was not reported by the Coq comparison")
        for e in res["coq_errors"]:
            ctx.broke("correspondence:compound", "cases file failed: " + str(e))
        for m in res["first_mismatches"]:
            ctx.broke("correspondence:compound", f"model/Compound.v and the implementation disagree on {m}")
    except (SystemExit, Exception) as e:  # noqa: BLE001  a stage that cannot run any more is a broken correspondence; the search below still runs
        ctx.broke("correspondence:compound", "the model-correspondence stage stopped: " + repr(e)[:1200])
    rng = random.Random(ctx.seed + 170)
    nsem = (120 if ctx.quick else 3000)
    for k in range(nsem):
        sc = cc.rand_scenario(rng)
        info = lambda sc=sc: {"scenario": {kk: str(v)[:600] for kk, v in sc.items()}}     # noqa: E731
        ctx.attempt("compound", info, lambda: semantic_oracle(ctx, sc))
        ctx.attempt("compound", info, lambda: contract_level(ctx, rng, sc))
        if k < 1:
            ctx.sample({kk: (str(v)[:400]) for kk, v in sc.items()})
    ctx.count(nsem, nsem)
    pp.CERTS.clear()
