"""C08 — merging is the exact conjunction of the two viewpoints."""
import random
from fractions import Fraction as F

import coqfmt as cf
import gen
import p_contract as pc
import p_poly as pp
import record


def gen_merge_pair(rng):
    mode = rng.choice(["shared_inputs", "shared_outputs", "disjoint", "same_iface", "clash"])
    if mode == "shared_inputs":
        i1, o1, i2, o2 = ["x", "w"], ["y"], ["x"], ["v"]
    elif mode == "shared_outputs":
        i1, o1, i2, o2 = ["x"], ["y"], ["w"], ["y", "v"]
    elif mode == "disjoint":
        i1, o1, i2, o2 = ["x"], ["y"], ["u"], ["v"]
    elif mode == "same_iface":
        i1, o1, i2, o2 = ["x"], ["y", "z"], ["x"], ["y", "z"]
    else:
        i1, o1, i2, o2 = ["x"], ["y"], ["y"], ["v"]          # an input of one is an output of the other
    allv = list(dict.fromkeys(i1 + o1 + i2 + o2))
    p = gen.rand_point(rng, allv) if rng.random() < 0.85 else None

    def contract(ins, outs):
        a = [gen.rand_term(rng, ins, "dyadic", point=p) for _ in range(rng.randint(0, 2))]
        g = [gen.rand_term(rng, ins + outs, "dyadic", point=p) for _ in range(rng.randint(1, 3))]
        return {"a": a, "g": g, "i": ins, "o": outs}
    c1, c2 = contract(i1, o1), contract(i2, o2)
    # redundant / duplicated terms across the two
    r = rng.random()
    shared = [v for v in i1 + o1 if v in i2 + o2]
    if r < 0.4 and c1["g"]:
        t = rng.choice(c1["g"])
        if set(t[0]) <= set(i2 + o2):
            c2["g"].append(rng.choice([t, gen.scaled(rng, t), (dict(t[0]), t[1] + F(rng.randint(0, 2)))]))
    if r > 0.7 and c1["a"]:
        t = rng.choice(c1["a"])
        if set(t[0]) <= set(i2):
            c2["a"].append(rng.choice([t, gen.scaled(rng, t)]))
    shared_vars = [v for v in i1 + o1 if v in i2 + o2]
    if mode != "clash" and shared_vars and rng.random() < 0.15:
        # two ALMOST parallel guarantees (directions 8e-6 apart) with clearly different bounds over a shared variable and a fresh,
        # otherwise unconstrained shared input: each is the tighter one on part of the box, both must survive the merge
        y = rng.choice(shared_vars)
        for c in (c1, c2):
            c["i"] = list(c["i"]) + ["p"]
        kk = F(rng.choice([1, 2, -1]))
        c1["g"].append(({y: kk, "p": -kk}, F(rng.randint(0, 2))))
        c2["g"].append(({y: kk, "p": -kk * (1 - F(1, 2 ** 17))}, F(rng.randint(0, 2)) + F(rng.choice([1, 2, 8]), 1024)))
    if rng.random() < 0.15:
        # a term stated twice by the first operand (assumptions are never simplified), shared with the second operand, which
        # adds one more term: unions must still pick that one up
        role = rng.choice(["a", "g"])
        pool2 = i2 if role == "a" else i2 + o2
        cands = [t for t in c1[role] if set(t[0]) <= set(pool2)]
        if cands and pool2:
            t = rng.choice(cands)
            c1[role] = [t, t] + [u for u in c1[role] if u is not t][:1]
            extra = gen.rand_term(rng, pool2, "dyadic", point=p)
            c2[role] = [t] + ([c1[role][2]] if len(c1[role]) > 2 and set(c1[role][2][0]) <= set(pool2) else []) + [extra]
    # look-alikes that are NOT duplicates: same variables, same constant, some but not all coefficients equal
    def lookalike(t):
        vs_ = list(t[0])
        if len(vs_) < 2:
            return None
        lin = dict(t[0])
        v = rng.choice(vs_)
        # (the last factor: equal up to 4e-6 relative -- still a different constraint, by 4e-3 at the edge of the box)
        fac = rng.choice([F(2), F(-1), F(1, 2), F(3), 1 + F(1, 2 ** 18), 1 + F(1, 2 ** 18), 1 - F(1, 2 ** 17), 1 - F(1, 2 ** 17)])
        lin[v] = lin[v] * fac
        # almost parallel but clearly different bounds: neither row makes the other redundant over the whole box
        shift = F(rng.choice([1, 2, 16]), 1024) if fac == 1 - F(1, 2 ** 17) else F(0)
        return (lin, t[1] + shift)
    if rng.random() < 0.35:
        for role, pool2 in (("g", i2 + o2), ("a", i2)):
            cands = [t for t in c1[role] if len(t[0]) >= 2 and set(t[0]) <= set(pool2)]
            if cands:
                la = lookalike(rng.choice(cands))
                if la:
                    c2[role].append(la)
    if mode != "clash" and rng.random() < 0.2:
        # very different scales across the two viewpoints: a small coefficient (7.6e-6) that still matters at the edge of the
        # box in one, a large one (1024) in the other, over a shared input that nothing else constrains
        for c in (c1, c2):
            c["i"] = list(c["i"]) + ["p"]
        c1["g"].append(({c1["o"][0]: F(1), "p": F(rng.choice([1, -1]), rng.choice([2 ** 17, 2 ** 20, 2 ** 20]))}, F(rng.randint(0, 3))))
        c2["g"].append(({c2["o"][-1]: F(1), "p": F(rng.choice([1024, -1024, 2048]))}, F(rng.randint(0, 3))))
    return mode, c1, c2


def check(ctx):
    ctx.cov["rule"] = (
        "pairs of polyhedral contracts with shared inputs / shared outputs / disjoint / identical interfaces and ill-formed "
        "unions, with identical, scaled and implied terms across the two; merge in both operand orders; real merge with linprog "
        "recorded and replayed into the translated algebra over the polyhedral model (exact comparison); the two equivalences of "
        "C08 and the interface unions decided exactly (certificates re-checked by base/Farkas.v). non-trivial = merge returned a "
        "contract or raised IncompatibleArgsError; distinct by canonical pair")
    proved = ctx.prove("props/C08.v", ["proofs/PolyDomainFacts.v", "proofs/AlgebraSound.v", "proofs/PolyFacts.v"])
    ctx.build(["model/PolyDomain.vo", "base/Farkas.vo"])
    rng = random.Random(ctx.seed + 8)
    n = (150 if ctx.quick else 15000) * (1 if proved else 3)
    exprs, cases, jobs, seen = [], [], [], set()
    hist = {}
    for k in range(n):
        mode, c1, c2 = gen_merge_pair(rng)
        try:
            k1, k2 = gen.mkcontract(c1), gen.mkcontract(c2)
        except Exception:
            continue
        res = {}
        for tag, (a, b, ka, kb) in (("12", (c1, c2, k1, k2)), ("21", (c2, c1, k2, k1))):
            okind, v, calls = pp.observe(lambda: ka.merge(kb))
            exprs.append(f"cc_merge 0 {record.coq_table(calls)} {pc.cfields(a)} {pc.cfields(b)} {pc.exp_one(okind, v)}")
            pp.validate_lp(ctx, calls)
            payload = {"mode": mode, "c1": cf.jsonable_contract(a), "c2": cf.jsonable_contract(b)}
            cases.append((payload, okind, v))
            res[tag] = (okind, v)
            hist[f"{mode}:{'ok' if okind == 'ok' else v[1]}"] = hist.get(f"{mode}:{'ok' if okind == 'ok' else v[1]}", 0) + 1
            if okind == "ok":
                m = cf.contract_of(v)
                jobs.append((len(cases) - 1, (a, b, m)))
                from pacti.utils.lists import list_union
                if m["i"] != list_union(a["i"], b["i"]) or m["o"] != list_union(a["o"], b["o"]):
                    ctx.violation("merge:interface_not_union", "the merged interface is not the pair of unions", dict(payload, merged=cf.jsonable_contract(m)))
                seen.add((gen.key_of(a["a"] + a["g"]), gen.key_of(b["a"] + b["g"]), tuple(a["i"] + a["o"]), tuple(b["i"] + b["o"])))
            elif v[0] == 1:
                seen.add((gen.key_of(a["a"] + a["g"]), gen.key_of(b["a"] + b["g"]), "rejected"))
            elif v[0] == 6:
                ctx.violation("merge:escape:" + v[1], "undocumented exception escaped from merge", dict(payload, exception=v[1] + ": " + v[2]))
        # either order: same interface sets (and the same meaning, checked through the oracle on both)
        if res["12"][0] == "ok" and res["21"][0] == "ok":
            m1, m2 = cf.contract_of(res["12"][1]), cf.contract_of(res["21"][1])
            if set(m1["i"]) != set(m2["i"]) or set(m1["o"]) != set(m2["o"]):
                ctx.violation("merge:order_dependent_interface", "merge(c1,c2) and merge(c2,c1) have different interfaces", cases[-1][0])
        elif (res["12"][0] == "ok") != (res["21"][0] == "ok"):
            if not (res["12"][0] == "err" and res["12"][1][0] == 2) and not (res["21"][0] == "err" and res["21"][1][0] == 2):
                ctx.violation("merge:order_dependent_outcome", "merge succeeds in one operand order and is rejected in the other", cases[-1][0])
        if k < 2:
            ctx.sample(cases[-1][0])
    verdicts = pc.run_oracles(pc.oracle_merge, [j[1] for j in jobs])
    for (i, args), bad in zip(jobs, verdicts):
        if bad:
            payload = dict(cases[i][0])
            payload.update(bad)
            payload["merged"] = cf.jsonable_contract(args[2])
            ctx.violation("merge:not_the_conjunction:" + bad["what"].split()[0], "merge is not the exact conjunction (C08)", payload)
    mism, errs = pp.evaluate_cases("c08", exprs, chunk=80)
    for e in errs:
        ctx.broke("correspondence:merge", "cases file failed: " + e)
    for i in mism[:5]:
        payload, okind, v = cases[i]
        ctx.broke("correspondence:merge", f"translated algebra over the polyhedral model and merge disagree on {payload}; implementation="
                  f"{'error ' + str(v) if okind == 'err' else cf.jsonable_contract(cf.contract_of(v))}")
    ctx.count(len(exprs), len(seen))
    ctx.notes["histogram"] = hist
    ctx.notes["correspondence_mismatches"] = len(mism)
    pp.finish_certs(ctx, "c08")
