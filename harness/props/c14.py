"""C14 — failures are reported only through the documented exceptions."""
import copy
import json
import os
import random
import tempfile
from fractions import Fraction as F

import coqfmt as cf
import gen
import json_cases as jc
import p_contract as pc
import p_poly as pp
from pacti.contracts import PolyhedralIoContract
from pacti.iocontract import Var
from pacti.terms.polyhedra import PolyhedralTermList
from pacti.utils.errors import ContractFormatError
from pacti.utils.fileio import read_contracts_from_file

REPL = [None, True, 3, 2.5, "s", [], ["q"], {}, {"k": 1}]


def well_shaped(entry):
    """the shape a readable machine / string entry must have (written from the property text)"""
    def num(x):
        return isinstance(x, (int, float)) and not isinstance(x, bool)
    if not (isinstance(entry, dict) and isinstance(entry.get("name"), str) and isinstance(entry.get("data"), dict)):
        return False
    d = entry["data"]
    if not all(k in d and isinstance(d[k], list) for k in ("assumptions", "guarantees", "input_vars", "output_vars")):
        return False
    if not all(isinstance(s, str) for s in d["input_vars"] + d["output_vars"]):
        return False
    if entry.get("type") == "PolyhedralIoContract_machine":
        for cl in d["assumptions"] + d["guarantees"]:
            if not (isinstance(cl, dict) and num(cl.get("constant")) and isinstance(cl.get("coefficients"), dict)
                    and all(num(v) for v in cl["coefficients"].values())):
                return False
        return True
    return all(isinstance(s, str) for s in d["assumptions"] + d["guarantees"])


def classify_read(file_obj):
    fd, fn = tempfile.mkstemp(suffix=".json")
    os.close(fd)
    try:
        json.dump(file_obj, open(fn, "w"))
        try:
            import contextlib
            import io
            with contextlib.redirect_stdout(io.StringIO()):      # validate_contract_dict prints the offending entry
                cs, names = read_contracts_from_file(fn)
            return "ok", cs
        except ContractFormatError:
            return "ContractFormatError", None
        except ValueError as e:       # includes IncompatibleArgsError
            return "ValueError", None
        except Exception as e:  # noqa: BLE001
            from pacti.utils import errors
            if isinstance(e, (errors.PolyhedralSyntaxException, errors.PolyhedralSyntaxConvexException)):
                return "SyntaxError", None
            return "ESC:" + type(e).__name__, None
    finally:
        os.remove(fn)


def snapshot(objs):
    out = []
    for o in objs:
        if isinstance(o, PolyhedralIoContract):
            out.append(("c", cf.contract_of(o)))
        elif isinstance(o, PolyhedralTermList):
            out.append(("t", cf.pts_of(o)))
        else:
            out.append(("x", copy.deepcopy(o)))
    return out


def adversarial(rng):
    """(name, operands, thunk) with adversarial shapes"""
    vs = gen.VARS[:rng.randint(1, 4)]
    p = gen.rand_point(rng, vs)
    kind = rng.choice(["empty_lists", "single_var", "unbounded_ctx", "more_vars_than_rows", "cancelling", "plain", "infeasible", "chain", "chain"])
    def terms(n, pool=None, pt=p):
        return [gen.rand_term(rng, pool or vs, "dyadic", point=pt) for _ in range(n)]
    if kind == "empty_lists":
        ts, ctx = [], []
    elif kind == "single_var":
        ts, ctx = terms(2, vs[:1]), terms(1, vs[:1])
    elif kind == "unbounded_ctx":
        ts, ctx = terms(2), terms(1)[:1]
    elif kind == "more_vars_than_rows":
        ts, ctx = terms(1), terms(1)
    elif kind == "cancelling":
        t = terms(1)[0]
        ts, ctx = [t, ({v: -a for v, a in t[0].items()}, -t[1])], [({v: a for v, a in t[0].items()}, t[1] + 1)]
    elif kind == "infeasible":
        t = terms(1)[0]
        ts, ctx = [t, ({v: -a for v, a in t[0].items()}, -t[1] - 2)], terms(1)
    else:
        ts, ctx = terms(rng.randint(1, 3)), terms(rng.randint(0, 3))
    tl, cl = gen.mktl(ts), gen.mktl(ctx)
    elim = [Var(v) for v in rng.sample(vs, rng.randint(1, len(vs)))]
    order = rng.choice([[1], [2], [3], [4], [5], [1, 2, 3, 4, 5], [5, 4, 3, 2, 1]])
    if kind == "chain":
        # chains of two-variable rows through eliminated variables that end in a bound or dead-end (tactic-4 recursion)
        import props.c04 as c04
        ts, ctx, names, order = c04.chain_case(rng, rng.random() < 0.7)
        tl, cl = gen.mktl(ts), gen.mktl(ctx)
        elim = [Var(v) for v in names]
        vs = list(dict.fromkeys(v for t in ts + ctx for v in t[0]))
        p = gen.rand_point(rng, vs)
    sp = rng.random() < 0.5
    beh = {Var(v): float(p[v]) for v in vs if rng.random() < 0.8}
    ops = [
        ("simplify", [tl, cl], lambda: tl.simplify(cl)),
        ("simplify_noctx", [tl], lambda: tl.simplify()),
        ("refines", [tl, cl], lambda: tl.refines(cl)),
        ("is_empty", [tl], lambda: tl.is_empty()),
        ("contains_behavior", [tl], lambda: tl.contains_behavior(beh)),
        ("elim_refine", [tl, cl], lambda: tl.elim_vars_by_refining(cl, elim, sp, order)),
        ("elim_relax", [tl, cl], lambda: tl.elim_vars_by_relaxing(cl, elim, sp, order)),
        ("to_str_list", [tl], lambda: tl.to_str_list()),
    ]
    # term level: a rename that merges two variables with exactly opposite coefficients, then calls on the renamed term
    from pacti.terms.polyhedra import PolyhedralTerm
    kk = float(rng.choice([1, 2, 0.5]))
    a_, b_ = Var("ra"), Var("rb")
    t0 = PolyhedralTerm({a_: kk, b_: -kk, Var("rc"): 1.0} if rng.random() < 0.5 else {a_: kk, b_: -kk}, float(rng.randint(-3, 3)))
    def renamed():
        return t0.rename_variable(a_, b_)
    ops += [
        ("term_rename_cancel", [], lambda: renamed()),
        ("term_rename_then_isolate", [], lambda: renamed().isolate_variable(b_)),
        ("term_rename_then_substitute", [], lambda: renamed().substitute_variable(b_, PolyhedralTerm({Var("rc"): 1.0}, 0.0))),
        ("term_rename_then_elim", [], lambda: PolyhedralTermList([renamed()]).elim_vars_by_refining(PolyhedralTermList([PolyhedralTerm({b_: 1.0}, 2.0)]), [b_], False, order)),
    ]
    return kind, ops


def check(ctx):
    ctx.cov["rule"] = (
        "(i) every single-node deletion and every replacement of a node by each of [None, True, 3, 2.5, 's', [], ['q'], {}, "
        "{'k': 1}] of valid contract files in both representations, enumerated exhaustively, read through real files: the "
        "outcome must be a contract of the required shape, ContractFormatError, ValueError or a syntax error, never another "
        "exception and never an ill-shaped value accepted; the same faults are replayed through model/Json.v inside Coq; "
        "(ii) public operations on adversarial shapes (empty lists, single-variable constraints, contexts leaving LPs unbounded, "
        "more eliminated variables than rows, cancelling coefficients, infeasible systems) and on composition/quotient/merge/"
        "rename/refines of generated contract pairs: the exception type is classified and every operand is snapshotted before "
        "and compared after a failing call. non-trivial = the call raised or the entry was faulted; distinct by fault / input")
    proved = ctx.prove("props/C14.v", ["proofs/JsonFacts.v", "proofs/TacticsFacts.v", "proofs/AlgebraSound.v", "proofs/ParseAllFacts.v", "proofs/JsonGenValidate.v", "proofs/JsonGenDict.v", "proofs/JsonGenFile.v"])
    ctx.build(["model/Json.vo"])
    rng = random.Random(ctx.seed + 14)
    # ---- (i) dictionaries and files
    bases = []
    for typ, dicts in (("PolyhedralIoContract_machine", jc.MACHINE_DICTS), ("PolyhedralIoContract", jc.STRING_DICTS)):
        for d in dicts if not ctx.quick else dicts[:2]:
            bases.append([{"name": "c", "type": typ, "data": d}])
    hist = {}
    nfaults = 0
    for base in bases:
        for path, faulted in jc.faults(base):
            if path and path[0] == "ins":
                continue            # insertion of unknown keys is outside the property's quantifier (deletions and kind changes)
            nfaults += 1
            res, cs = classify_read(faulted)
            hist[res] = hist.get(res, 0) + 1
            info = {"base_type": base[0]["type"], "fault_path": list(map(str, path)), "faulted_file": json.dumps(faulted)[:600]}
            if res.startswith("ESC:"):
                ctx.violation("json:escape:" + res[4:] + ":" + "/".join(str(x) for x in path if not isinstance(x, int)),
                              "a faulted contract file escaped with an undocumented exception", info)
            elif res == "ok":
                if not (isinstance(faulted, list) and all(well_shaped(e) for e in faulted)):
                    ctx.violation("json:accepted_wrong_kind:" + "/".join(str(x) for x in path if not isinstance(x, int)),
                                  "a file entry lacking a field or with a field of the wrong kind was read as a contract", info)
    ctx.notes["file_faults"] = {"enumerated": nfaults, "outcomes": hist}
    ctx.cov["exhaustive"] = True
    # model replay of the dictionary faults (full selftest of the json model)
    nbad, nchecks = jc.selftest(n_random=40 if ctx.quick else 300, seed=ctx.seed, verbose=False)
    if nbad:
        ctx.broke("correspondence:json", f"model/Json.v and the implementation disagree on {nbad} of {nchecks} fault cases")
    ctx.notes["json_model_checks"] = nchecks
    # ---- (ii) operations on adversarial shapes
    n = 150 if ctx.quick else 3000
    ophist = {}
    for k in range(n):
        kind, ops = adversarial(rng)
        for name, operands, thunk in ops:
            before = snapshot(operands)
            okind, v, _ = pp.observe(thunk)
            key = f"{name}:{'ok' if okind == 'ok' else v[1]}"
            ophist[key] = ophist.get(key, 0) + 1
            info = {"shape": kind, "operation": name, "operands": [str(b)[:400] for b in before]}
            if okind == "err" and v[0] == 6:
                ctx.violation(f"ops:escape:{name}:{v[1]}", "an undocumented exception escaped", dict(info, exception=v[1] + ": " + v[2]))
            if okind == "err" and snapshot(operands) != before:
                ctx.violation(f"ops:operand_changed_by_failure:{name}", "an operand was modified by a failing call", info)
    # contract-level operations
    for k in range(n // 2):
        wiring, c1, c2 = pc.gen_pair(rng)
        if rng.random() < 0.3:
            c2["o"] = c2["o"] + c1["o"][:1]           # shared outputs
        elif rng.random() < 0.25:
            # producer whose guarantees chain its outputs together; consumer assumes something about the head of the chain
            import props.c04 as c04
            ts, rows, names, _ = c04.chain_case(rng, True)
            kept = [v for v in ts[0][0] if v not in names][0]
            wiring = "chain"
            c1 = {"i": [], "o": list(names), "a": [], "g": [t for t in rows if all(v in names for v in t[0])]}
            c2 = {"i": [kept, names[0]], "o": ["out"], "a": list(ts), "g": [({"out": F(1), kept: F(-1)}, F(0))]}
        try:
            k1, k2 = gen.mkcontract(c1), gen.mkcontract(c2)
        except Exception:
            continue
        ops = [("compose", lambda: k1.compose(k2, rng.sample(c1["o"] + c2["o"], 1) if rng.random() < 0.3 else None)),
               ("quotient", lambda: k1.quotient(k2)), ("merge", lambda: k1.merge(k2)), ("refines", lambda: k1 <= k2),
               # simplify=False: the eliminations then work on the operands' own lists (no copy made by a simplification)
               ("compose_nosimplify", lambda: k1.compose(k2, None, False)), ("quotient_nosimplify", lambda: k1.quotient(k2, None, False)),
               ("quotient_rev_nosimplify", lambda: k2.quotient(k1, None, False)),
               ("rename", lambda: k1.rename_variable(Var(rng.choice(c1["i"] + c1["o"])), Var(rng.choice(c1["i"] + c1["o"] + ["n"])))),
               ("optimize", lambda: k1.optimize(rng.choice(c1["i"] + c1["o"]), True)),
               ("bounds", lambda: k1.get_variable_bounds(rng.choice(c1["i"] + c1["o"])))]
        for name, thunk in ops:
            before = snapshot([k1, k2])
            okind, v, _ = pp.observe(thunk)
            key = f"{name}:{'ok' if okind == 'ok' else v[1]}"
            ophist[key] = ophist.get(key, 0) + 1
            info = {"wiring": wiring, "operation": name, "c1": cf.jsonable_contract(c1), "c2": cf.jsonable_contract(c2)}
            if okind == "err" and v[0] == 6:
                ctx.violation(f"ops:escape:{name}:{v[1]}", "an undocumented exception escaped", dict(info, exception=v[1] + ": " + v[2]))
            if snapshot([k1, k2]) != before:
                ctx.violation(f"ops:operand_changed:{name}", "an operand was modified by the call", info)
            if okind == "err":
                ok2, _, _ = pp.observe(lambda: (k1.copy(), k2.copy(), k1.to_machine_dict()))
                if ok2 != "ok" and pp.is_feasible(c1["a"] + c1["g"]) and pp.is_feasible(c2["a"] + c2["g"]):
                    ctx.violation(f"ops:operand_unusable_after_error:{name}", "an operand is unusable after a failing call", info)
    # constraint strings whose constant arithmetic divides by zero: malformed strings, to be reported as syntax errors
    from pacti.utils import errors as perr
    for k in range(20 if ctx.quick else 200):
        den = rng.choice(["0", "(1-1)", "(2*0)", "0.0", "(3-2-1)", "0e0"])
        num = rng.choice(["1", "2.5", "(1+1)"])
        shape = rng.choice(["({n}/{d})x <= 1", "x + ({n}/{d})y <= 3", "2x <= ({n}/{d})", "({n}/{d})|x| <= 4", "|x| + ({n}/{d})(x + y) <= 4",
                            "x <= 1 + ({n}/{d})", "({n}/{d}/2)x = 1"])
        text = shape.format(n=num, d=den)
        calls = [("from_strings", lambda: PolyhedralIoContract.from_strings(input_vars=["x"], output_vars=["y"], assumptions=[text], guarantees=[])),
                 ("from_strings_g", lambda: PolyhedralIoContract.from_strings(input_vars=["x"], output_vars=["y"], assumptions=[], guarantees=[text]))]
        for name, thunk in calls:
            try:
                thunk()
                out = "ok"
            except (perr.PolyhedralSyntaxException, perr.PolyhedralSyntaxConvexException):
                out = "SyntaxError"
            except Exception as e:  # noqa: BLE001
                out = "ESC:" + type(e).__name__
            ophist[f"divzero_string:{out}"] = ophist.get(f"divzero_string:{out}", 0) + 1
            if out != "SyntaxError":
                ctx.violation(f"ops:escape:{name}:{out[4:] if out.startswith('ESC:') else 'accepted'}",
                              "a constraint string dividing by zero was not reported as a syntax error", {"string": text, "outcome": out})
    ctx.notes["operation_outcomes"] = ophist
    ctx.count(nfaults + nchecks + sum(ophist.values()), nfaults + len(ophist))
    ctx.sample({"fault_example": hist, "operation_outcomes": dict(list(ophist.items())[:12])})
    pp.CERTS.clear()
    ctx.assumptions += ["integer literals beyond the double range (>= 2^1024) and unknown extra keys in a string-representation "
                        "dictionary are outside the enumerated faults (both still escape: OverflowError / TypeError; see DESIGN 5)"]
