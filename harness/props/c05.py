"""C05 — algebra layer sound for any constraint domain (proof on the T1 translation)."""
import random

import p_algebra as pa


def check(ctx):
    ctx.cov["rule"] = (
        "theorems of props/C05.v re-checked against gen/AlgebraGen.v regenerated from iocontract.py; "
        "T1 cross-check: real IoContract on a scripted symbolic TermList vs the translated algebra in Coq "
        "(outcomes compared exactly); semantic search: real IoContract on a brute-force sound finite domain, "
        "obligations decided by enumerating all 32 behaviours.  A case is non-trivial when the operation "
        "returned a contract or raised IncompatibleArgsError; distinct = distinct (operands, op, arguments, script class)")
    proved = ctx.prove("props/C05.v", ["proofs/AlgebraSound.v"])
    ctx.build(["model/Script.vo"])
    rng = random.Random(ctx.seed)
    n_script = 1500 if ctx.quick else 100000
    res = pa.script_crosscheck(rng, n_script, None if ctx.quick else 2, "c05")
    ctx.count(len(res["cases"]), res["distinct"])
    ctx.notes["script_hist"] = res["hist"]
    for c, e in list(zip(res["cases"], res["exps"]))[:2]:
        ctx.sample({"script_case": c, "implementation_outcome": e})
    for err in res["errors"]:
        ctx.broke("correspondence:T1-script", "cases file failed to evaluate: " + err)
    for c, e in res["mismatches"][:5]:
        ctx.broke("correspondence:T1-script", f"translated algebra and IoContract disagree on {c} (implementation: {e})")
    n_sem = (1500 if ctx.quick else 300000) * (1 if proved and not ctx.broken else 4)
    stats, viol = pa.semantic_search(rng, n_sem)
    ctx.count(n_sem, stats["distinct_topologies"])
    ctx.notes["semantic_search"] = stats
    for v in viol:
        if v["prop"] == "C05":
            ctx.violation(v["kind"], f"{v['kind']} fails on the real IoContract with a sound finite domain", v)
    ctx.assumptions += [
        "den of a TermList is the conjunction of the meanings of its terms (Forall), Term.__eq__ identifies only terms with equal meaning",
        "value model of the translator: copy()/deepcopy are the identity (aliasing is C13's business)",
    ]
