"""C09 — parsing a constraint string preserves its arithmetic meaning
(model/Grammar.v + model/Syntax.v + model/Ast.v; proofs/GrammarFacts.v, proofs/SyntaxFacts.v)."""
import itertools
import random
import re
from fractions import Fraction as F

import coqfmt as cf
import exactlp as lp
import grammar_cases as gc
import p_poly as pp
import syntax_cases as sc
from pacti.terms.polyhedra.serializer import polyhedral_termlist_from_string


# ---------------------------------------------------------------- independent meaning of a syntax tree
def aff_add(a, b, k=F(1)):
    lin = dict(a[0])
    for v, c in b[0].items():
        lin[v] = lin.get(v, F(0)) + k * c
    return ({v: c for v, c in lin.items()}, a[1] + k * b[1])


def aff_scale(a, k):
    return ({v: c * k for v, c in a[0].items()}, a[1] * k)


ZERO = ({}, F(0))


def cev(c):
    v = sc.ceval_exact(c)
    if v is None:
        raise ZeroDivisionError
    return v

SG = {"+": F(1), "-": F(-1)}


def lterm_aff(t):
    tag = t[0]
    if tag == "TVar":
        return ({t[1]: F(1)}, F(0))
    if tag == "TNumVar":
        return ({t[2]: cev(t[1])}, F(0))
    if tag == "TNum":
        return ({}, cev(t[1]))
    if tag == "TParen":
        return lterms_aff(t[1])
    return aff_scale(lterms_aff(t[2]), cev(t[1]))


def lterms_aff(ts):
    acc = aff_scale(lterm_aff(ts[2]), SG[ts[1]])
    for s, t in ts[3]:
        acc = aff_add(acc, lterm_aff(t), SG[s])
    return acc


def side_parts(sd):
    """side = affine + sum m_j |L_j| : returns (affine, [(m_j, L_j)])"""
    aff, absl = ZERO, []

    def aterm(a, k):
        nonlocal aff
        if a[0] == "ATerm":
            aff = aff_add(aff, lterm_aff(a[2]), k * SG[a[1]])
        else:
            m = k * SG[a[1]] * (F(1) if a[2] is None else cev(a[2]))
            absl.append((m, lterms_aff(a[3])))
    for p in sd:
        if p[0] == "PGroup":
            k = SG[p[1]] * (F(1) if p[2] is None else cev(p[2]))
            for a in p[3]:
                aterm(a, k)
        else:
            aterm(p[1], F(1))
    return aff, absl


def meaning_cells(ast):
    """The relation as a union of polyhedra, one per sign pattern of the absolute bodies: [(cell rows, relation rows)]"""
    if ast[0] == "EEq":
        d = aff_add(lterms_aff(ast[1]), lterms_aff(ast[2]), F(-1))
        rows = [(d[0], -d[1]), ({v: -c for v, c in d[0].items()}, d[1])]
        return [([], rows)]
    sides = [side_parts(s) for s in ast[1]]
    pairs = list(zip(sides, sides[1:]))
    if ast[0] == "EGeq":
        pairs = [(b, a) for a, b in pairs]
    bodies = []
    for aff, absl in sides:
        for m, L in absl:
            bodies.append(L)
    cells = []
    for sig in itertools.product([F(1), F(-1)], repeat=len(bodies)):
        sgn = {id(L): s for L, s in zip(bodies, sig)}
        cell = [({v: -s * c for v, c in L[0].items()}, s * L[1]) for L, s in zip(bodies, sig)]    # s*L >= 0
        rows = []
        for (a_aff, a_abs), (b_aff, b_abs) in pairs:
            d = aff_add(a_aff, b_aff, F(-1))
            for m, L in a_abs:
                d = aff_add(d, L, m * sgn[id(L)])
            for m, L in b_abs:
                d = aff_add(d, L, -m * sgn[id(L)])
            rows.append((d[0], -d[1]))
        cells.append((cell, rows))
    return cells


def clean(ts):
    return [({v: c for v, c in t[0].items() if c != 0}, t[1]) for t in ts]


def semantic_mismatch(ast, parsed):
    """None if the parsed terms mean exactly the written relation (all real points), else a description"""
    P = clean(parsed)
    for cell, rows in meaning_cells(ast):
        cell, rows = clean(cell), clean(rows)
        for t in P:                               # R_sigma subset of P
            if not pp.exactly_implied(cell + rows, t):
                return {"direction": "relation holds but a parsed inequality fails", "parsed_term": cf.jsonable_term(t)}
        for r in rows:                            # P inside the cell subset of R_sigma
            if not pp.exactly_implied(P + cell, r):
                return {"direction": "parsed inequalities hold but the relation fails", "relation_row": cf.jsonable_term(r)}
    return None


# ---------------------------------------------------------------- spellings
def respell(rng, s, star=False):
    """equivalent spellings: spacing around delimiters/operators, '*' for juxtaposition, number shapes"""
    out = s
    if star or rng.random() < 0.35:
        # the multiplication written out: "2 x" -> "2*x", "3 (x + y)" -> "3 * (x + y)", "2 |x|" -> "2*|x|" (done on the canonical rendering,
        # where a blank before a bar always precedes an OPENING bar)
        star = rng.choice(["*", " * ", "* "])
        out = re.sub(r"(?<![A-Za-z_0-9.])(\d+\.?\d*(?:[eE][+-]?\d+)?|\.\d+(?:[eE][+-]?\d+)?)\s+(?=[A-Za-z_(|])", lambda m: m.group(1) + star, out)
        if rng.random() < 0.5:
            out = re.sub(r"\)\s+(?=[A-Za-z_(])", lambda m: ")" + star, out)
    r = rng.random()
    if r < 0.3:
        out = re.sub(r"\s*([()|*/])\s*", r"\1", out)
    elif r < 0.6:
        out = re.sub(r"\s*(<=|>=|==|=)\s*", r"  \1\t", out)
        out = re.sub(r"\s*([()|])\s*", r" \1 ", out)

    def num(m):
        tok = m.group(0)
        try:
            v = float(tok)
        except ValueError:
            return tok
        if v != int(v) or abs(v) > 1e6:
            return tok
        iv = int(v)
        dotted = f".{iv}e{len(str(iv))}" if iv > 0 and not str(iv).endswith("0") else tok      # 5 -> .5e1, 12 -> .12e2
        return rng.choice([tok, f"{iv}.0", f"{iv}e0", f"{iv}.", dotted, dotted.replace("e", "E+")])
    if rng.random() < 0.5:
        out = re.sub(r"(?<![A-Za-z_0-9.])\d+(?![\d.eExA-Za-z_])", num, out)
    return out


def impl(s):
    okind, v, _ = pp.observe(lambda: polyhedral_termlist_from_string(s))
    if okind == "ok":
        return "ok", [cf.pt_of(t) for t in v]
    return "err", v


def check(ctx):
    ctx.cov["rule"] = (
        "(a) every string of <=3 (quick) / <=4 (thorough) tokens over a 15-token alphabet, joined with and without spaces, plus "
        "random well-formed and mutated strings: accept/reject/tree of the real pyparsing grammar vs model/Grammar.v (compared "
        "inside Coq); (b) random syntax trees of depth <=3 over <=4 variables (repeated variables, repeated absolute bodies, "
        "negative absolute coefficients, constant arithmetic): the real parse actions + serializer vs model/Syntax.v fold_expr; "
        "(c) trees rendered as strings in several equivalent spellings, parsed by the real polyhedral_termlist_from_string: the "
        "result must equal model parse_terms and must mean exactly the written relation, decided for all real points by "
        "decomposing the relation over the sign patterns of its absolute values and exact rational LP; each string is parsed "
        "twice. non-trivial = the string is accepted or raises the convexity error; distinct by string")
    proved = ctx.prove("props/C09.v", ["proofs/SyntaxFacts.v", "proofs/GrammarFacts.v", "proofs/ParseAllFacts.v", "proofs/SyntaxGenTermList.v", "proofs/SyntaxGenAbsTerm.v", "proofs/SyntaxGenAbsTermList.v", "proofs/SyntaxGenSerializer.v", "proofs/SyntaxGenGrammar.v", "proofs/SyntaxGenFold.v", "proofs/GrammarGenTokens.v", "proofs/GrammarGenTerms.v", "proofs/GrammarGenExpr.v", "proofs/GrammarGenFacts.v"])
    ctx.build(["model/ParseAll.vo"])
    g = {"enumerated": 0, "random": 0, "enumerated_accepted": 0, "random_accepted": 0}
    f = {"n": 0}
    # (a) grammar
    try:
        for kind, msg in gc.IMPORT_PROBLEMS:
            ctx.broke("correspondence:grammar_actions", "the harness's mirror of grammar.py's parse actions no longer agrees with grammar.py (" + kind + "): " + msg)
        if gc._COPY is not None:
            g = gc.selftest(maxlen=3 if ctx.quick else 4, nrandom=800 if ctx.quick else 4000, seed=ctx.seed, verbose=False,
                            nchar=200 if ctx.quick else 2000)
            ctx.notes["grammar"] = {k: g[k] for k in g if k not in ("bad", "errors", "divzero")}
            for s, r in g["bad"][:5]:
                ctx.broke("correspondence:grammar", f"model/Grammar.v and pyparsing disagree on {s!r} (pyparsing: {str(r)[:300]})")
            for e in g["errors"][:3]:
                ctx.broke("correspondence:grammar", "cases file failed: " + str(e)[:500])
            if g["copy_vs_real_disagreements"] and not gc.IMPORT_PROBLEMS:
                ctx.broke("correspondence:grammar_actions", "the harness's mirror of grammar.py's parse actions differs from the real grammar on generated strings")
    except (SystemExit, Exception) as e:  # noqa: BLE001  a stage that cannot run any more is a broken correspondence; the search below still runs
        ctx.broke("correspondence:grammar", "the grammar stage of the harness stopped: " + repr(e)[:1200])
    # (b) folding
    try:
        f = sc.selftest(n=200 if ctx.quick else 3000, seed=ctx.seed + 9, verbose=False, keep=True)
        ctx.notes["folding"] = {"n": f["n"], "kinds": f["kinds"], "skipped_signed_zero": f["skipped_signed_zero"],
                                "string_cross_check": {k: v for k, v in f["string_cross_check"].items() if k != "differ_examples"}}
        for i in f["mismatch_strict"][:5]:
            ctx.broke("correspondence:folding", f"model/Syntax.v fold_expr and pacti's parse actions disagree on {sc.ast_to_string(f['cases'][i][1])!r}: python {f['cases'][i][2]}")
        for st, r, r2 in f.get("star_differs", [])[:3]:
            ctx.broke("correspondence:folding", f"pacti's parse actions give different results with and without the optional '*' token on the tree of {st!r}: {str(r)[:300]} / {str(r2)[:300]}")
        for e in f["coq_failures"][:3]:
            ctx.broke("correspondence:folding", "cases file failed: " + e[-500:])
    except (SystemExit, Exception) as e:  # noqa: BLE001  a stage that cannot run any more is a broken correspondence; the search below still runs
        ctx.broke("correspondence:folding", "the folding stage of the harness stopped: " + repr(e)[:1200])
    # (c) end to end on strings, several spellings, semantic oracle
    rng = random.Random(ctx.seed + 90)
    n = 150 if ctx.quick else 2500
    exprs, info, seen = [], [], set()
    hist = {"ok": 0, "convex_error": 0, "syntax_error": 0, "other": 0, "spellings_compared": 0}
    for k in range(n):
        ast = sc.gen_expr(rng)
        if ast[0] != "EEq" and len(ast[1]) < 2:
            continue
        divzero = False
        try:
            meaning_cells(ast)
        except ZeroDivisionError:
            divzero = True
        base = sc.ast_to_string(ast)
        if divzero:
            # a constant expression divides by zero: a malformed constraint, to be reported as the syntax error
            r1 = impl(base)
            seen.add(base)
            hist["division_by_zero"] = hist.get("division_by_zero", 0) + 1
            if r1[0] == "ok" or r1[1][0] != 3:
                key = "parse:escape:" + r1[1][1] if r1[0] != "ok" and r1[1][0] == 6 else "parse:division_by_zero_not_rejected"
                ctx.violation(key, "a constraint whose constant arithmetic divides by zero is not reported as a syntax error",
                              {"string": base, "outcome": str(r1)[:300]})
            exprs.append(f"agree (terms_close 0) (parse_terms {gc.coq_string(base)}) " + (f"(Exp {cf.terms(r1[1])})" if r1[0] == "ok" else f"(ExpErr {cf.nat(r1[1][0])})"))
            info.append((base, r1))
            continue
        results = []
        spellings = [base] + [respell(rng, base) for _ in range(2)]
        if re.search(r"[\d)]\s+\|", base):
            spellings.append(respell(rng, base, star=True))      # a multiplier in front of an absolute value, with the '*' written out
        for s in spellings:
            r1, r2 = impl(s), impl(s)
            if r1 != r2:
                ctx.violation("parse:not_idempotent", "parsing the same string twice gave different results", {"string": s})
            results.append((s, r1))
            seen.add(s)
            kind, v = r1
            if kind == "ok":
                exp = f"(Exp {cf.terms(v)})"
            else:
                exp = f"(ExpErr {cf.nat(v[0])})"
            exprs.append(f"agree (terms_close 0) (parse_terms {gc.coq_string(s)}) {exp}")
            info.append((s, r1))
        kind0, v0 = results[0][1]
        for s, (kind, v) in results[1:]:
            hist["spellings_compared"] += 1
            same = (kind == kind0) and (v == v0 if kind == "ok" else v[0] == v0[0])
            if not same and kind0 == "ok" and kind == "ok":
                # a different tree may be a different but equivalent reading; only meaning matters
                same = semantic_mismatch(ast, v) is None
            if not same:
                ctx.violation("parse:spelling_changes_meaning", "equivalent spellings are parsed differently",
                              {"spelling_1": results[0][0], "result_1": str(results[0][1])[:400], "spelling_2": s, "result_2": str((kind, v))[:400]})
        if kind0 == "ok":
            hist["ok"] += 1
            bad = semantic_mismatch(ast, v0)
            if bad:
                ctx.violation("parse:meaning_changed", "the parsed inequalities do not mean the written relation",
                              dict(bad, string=base, parsed=[cf.jsonable_term(t) for t in v0]))
        elif v0[0] == 4:
            hist["convex_error"] += 1
        elif v0[0] == 3:
            hist["syntax_error"] += 1
            ctx.violation("parse:generated_string_rejected", "a string rendered from a grammar tree is rejected", {"string": base})
        else:
            hist["other"] += 1
            if v0[0] == 6:
                ctx.violation("parse:escape:" + v0[1], "undocumented exception from the parser", {"string": base, "exception": v0[2]})
        if k < 2:
            ctx.sample({"string": base, "result": str(results[0][1])[:300]})
    pre = ("From Coq Require Import Ascii.\nRequire Import Ast Syntax Grammar ParseAll.\n"
           "Fixpoint str_of (l : list nat) : string :=\n"
           "  match l with [] => EmptyString | n :: r => String (ascii_of_nat n) (str_of r) end.\n")
    old = pp.PRELUDE
    pp.PRELUDE = old + pre
    try:
        mism, errs = pp.evaluate_cases("c09", exprs, chunk=120)
    finally:
        pp.PRELUDE = old
    for e in errs:
        ctx.broke("correspondence:parse_terms", "cases file failed: " + e)
    for i in mism[:5]:
        ctx.broke("correspondence:parse_terms", f"model parse_terms and polyhedral_termlist_from_string disagree on {info[i][0]!r}: implementation {str(info[i][1])[:400]}")
    ctx.count(g["enumerated"] + g["random"] + f["n"] + len(exprs), g["enumerated_accepted"] + g["random_accepted"] + f["n"] + len(seen))
    ctx.notes["end_to_end"] = dict(hist, strings=len(exprs), mismatches=len(mism))
    pp.CERTS.clear()
    ctx.assumptions += ["a literal is identified with its exact decimal value (the harness uses literals that are exact doubles); "
                        "constant arithmetic is exact in the model", "signed zero is outside the model",
                        "the pyparsing engine is not derived: the PEG model is validated exhaustively on short token strings"]
