"""C19 — equality, hashing and copying of terms, lists and contracts are coherent."""
import copy
import random
from fractions import Fraction as F

import coqfmt as cf
import gen
import p_contract as pc
import p_poly as pp
from pacti.iocontract import Var


def single_edits(rng, c):
    """contracts differing from c in exactly one field"""
    out = []
    if len(c["i"]) >= 2:
        out.append(("inputs_permuted", dict(c, i=list(reversed(c["i"])))))
    if len(c["o"]) >= 2:
        out.append(("outputs_permuted", dict(c, o=list(reversed(c["o"])))))
    out.append(("outputs_extended", dict(c, o=c["o"] + ["extra_out"])))
    out.append(("inputs_extended", dict(c, i=c["i"] + ["extra_in"])))
    if c["g"]:
        t = c["g"][0]
        v0 = next(iter(t[0]))
        out.append(("g_coefficient", dict(c, g=[({**t[0], v0: t[0][v0] + 1}, t[1])] + c["g"][1:])))
        out.append(("g_constant", dict(c, g=[(t[0], t[1] + F(1, 2))] + c["g"][1:])))
        # tiny edits (one part in 2^20 of the coefficient / 2^-30 on the constant): still different objects
        out.append(("g_coefficient_tiny", dict(c, g=[({**t[0], v0: t[0][v0] * (1 + F(1, 2 ** 20))}, t[1])] + c["g"][1:])))
        out.append(("g_constant_tiny", dict(c, g=[(t[0], t[1] + F(1, 2 ** 30))] + c["g"][1:])))
        if len(c["g"]) >= 2 and c["g"][0] != c["g"][1]:
            out.append(("g_order", dict(c, g=[c["g"][1], c["g"][0]] + c["g"][2:])))
    if c["a"]:
        t = c["a"][0]
        out.append(("a_constant", dict(c, a=[(t[0], t[1] + 1)] + c["a"][1:])))
    return out


def check(ctx):
    ctx.cov["rule"] = (
        "base contracts / constraint lists / terms on dyadic data and every single-field edit of them (permute or change inputs, "
        "outputs, one coefficient, one constant, term order), copies and machine-dictionary round trips; == and hash() observed on "
        "the real objects: equal only if all four fields are equal, symmetric, transitive on generated triples, equal objects "
        "hash equally, copies equal and hash equally; the same pairs are decided by the model (term_eqb_p, list equality, the "
        "translated IoContract.__eq__) inside Coq. non-trivial = every pair; distinct by canonical pair")
    proved = ctx.prove("props/C19.v", ["proofs/PolyDomainFacts.v", "proofs/TermFacts.v", "proofs/TermGenCore.v"])
    ctx.build(["model/PolyDomain.vo"])
    rng = random.Random(ctx.seed + 19)
    n = (150 if ctx.quick else 20000) * (1 if proved else 3)
    exprs, cases, seen = [], [], set()
    hist = {}
    for k in range(n):
        nv = rng.randint(2, 5)
        vs = gen.VARS[:nv]
        ni = rng.randint(1, nv - 1)
        ins, outs = vs[:ni], vs[ni:]
        p = gen.rand_point(rng, vs)
        c = {"a": [gen.rand_term(rng, ins, "dyadic", point=p) for _ in range(rng.randint(0, 2))],
             "g": [gen.rand_term(rng, vs, "dyadic", point=p) for _ in range(rng.randint(1, 3))], "i": ins, "o": outs}
        try:
            base = gen.mkcontract(c)
        except Exception:
            continue
        # copies
        cp = base.copy()
        payload = {"contract": cf.jsonable_contract(c)}
        if pp.is_feasible(c["a"] + c["g"]):
            k2 = gen.mkcontract(c, simplify=True)
            cp2 = k2.copy()
            if not (cp2 == k2 and hash(cp2) == hash(k2)):
                ctx.violation("eq:copy_differs", "a copy of a contract built with the default simplification is not equal / hashes differently", payload)
        for tl in (base.a, base.g):
            tc = tl.copy()
            if not (tc == tl and hash(tc) == hash(tl)):
                ctx.violation("eq:list_copy_differs", "a copy of a constraint list is not equal / hashes differently", payload)
            for t in tl.terms:
                if not (t.copy() == t and hash(t.copy()) == hash(t)):
                    ctx.violation("eq:term_copy_differs", "a copy of a term is not equal / hashes differently", payload)
        rt = type(base).from_dict(base.to_machine_dict(), simplify=False)
        if not (rt == base and base == rt and hash(rt) == hash(base)):
            ctx.violation("eq:roundtrip_differs", "machine-dictionary round trip is not equal / hashes differently", payload)
        # single-field edits
        others = []
        for name, d in single_edits(rng, c):
            try:
                o = gen.mkcontract(d)
            except Exception:
                continue
            others.append((name, d, o))
            e1, e2 = (base == o), (o == base)
            key = f"{name}:{e1}"
            hist[key] = hist.get(key, 0) + 1
            seen.add((gen.key_of(c["a"] + c["g"]), tuple(c["i"]), tuple(c["o"]), name))
            info = dict(payload, edit=name, other=cf.jsonable_contract(d))
            if e1 or e2:
                ctx.violation("eq:" + ("outputs_ignored" if name.startswith("outputs") else name + "_ignored"),
                              "contracts differing in one field compare equal", info)
            if e1 != e2:
                ctx.violation("eq:not_symmetric", "== is not symmetric", info)
            exprs.append(f"Bool.eqb (@IoContract_eq (poly_domain (fun _ => LpMiss)) (mk_pc _ {pc.cfields(c)}) (mk_pc _ {pc.cfields(d)})) {cf.boolean(e1)}")
            cases.append(info)
        # equal objects: same fields built independently; transitivity on triples
        twin = gen.mkcontract(copy.deepcopy(c))
        if not (twin == base and hash(twin) == hash(base)):
            ctx.violation("eq:equal_fields_unequal", "contracts with equal fields compare unequal or hash differently", payload)
        exprs.append(f"Bool.eqb (@IoContract_eq (poly_domain (fun _ => LpMiss)) (mk_pc _ {pc.cfields(c)}) (mk_pc _ {pc.cfields(c)})) true")
        cases.append(payload)
        # a history: build without simplification, hash (use as a set member), simplify IN PLACE, compare with the same
        # contract built simplified and with a copy -- equal objects must still hash equally
        try:
            raw = gen.mkcontract(copy.deepcopy(c), simplify=False)
            h_before = hash(raw)
            raw.simplify()
            ref = gen.mkcontract(copy.deepcopy(c), simplify=True)
            for other_name, other in (("built simplified", ref), ("its copy", raw.copy())):
                if raw == other and hash(raw) != hash(other):
                    ctx.violation("eq:equal_but_different_hash_after_simplify", "a contract hashed before an in-place simplify() is equal to "
                                  + other_name + " but hashes differently", dict(payload, hash_before=h_before))
            hist["inplace_simplify:" + ("changed_hash" if hash(raw) != h_before else "same_hash")] = \
                hist.get("inplace_simplify:" + ("changed_hash" if hash(raw) != h_before else "same_hash"), 0) + 1
        except ValueError:
            pass
        objs = [base, twin, cp] + [o for _, _, o in others[:2]]
        for x in objs:
            for y in objs:
                for z in objs:
                    if x == y and y == z and not x == z:
                        ctx.violation("eq:not_transitive", "== is not transitive", payload)
                if x == y and hash(x) != hash(y):
                    ctx.violation("eq:equal_but_different_hash", "equal contracts hash differently", payload)
        # terms: variable order in the dict must not matter; lists: order matters
        for t in c["g"]:
            if len(t[0]) >= 2:
                rev = (dict(reversed(list(t[0].items()))), t[1])
                t1, t2 = gen.mkterm(t), gen.mkterm(rev)
                if not (t1 == t2 and hash(t1) == hash(t2)):
                    ctx.violation("eq:term_dict_order", "terms with the same coefficients in a different dict order are unequal / hash differently", payload)
                exprs.append(f"Bool.eqb (term_eqb_p {cf.term(t)} {cf.term(rev)} && key_eqb (term_key {cf.term(t)}) (term_key {cf.term(rev)})) true")
                cases.append(payload)
        if k < 2:
            ctx.sample(payload)
    # variables built from names that are not strings (Var normalises its name with str()): Var(1) and Var("1") are the same variable,
    # so they -- and terms, lists and contracts over them -- must compare AND hash alike, and survive the dictionary round trip
    from pacti.contracts import PolyhedralIoContract
    from pacti.terms.polyhedra import PolyhedralTerm, PolyhedralTermList
    for raw in ([1, 7, 2.5, 10 ** 6, True] if ctx.quick else [1, 7, 2.5, 10 ** 6, True, -3, 0, 1e-3, 12345678901234567890]):
        va, vb = Var(raw), Var(str(raw))
        info = {"raw_name": repr(raw), "string_name": str(raw)}
        hist["var_pairs"] = hist.get("var_pairs", 0) + 1
        if (va == vb) != (str(va) == str(vb)):
            ctx.violation("eq:var_eq_not_by_name", "two variables with the same (normalised) name compare unequal, or with different names equal", info)
        if va == vb and hash(va) != hash(vb):
            ctx.violation("eq:equal_but_different_hash:var", "equal variables hash differently", info)
        if va == vb and len({va, vb}) != 1:
            ctx.violation("eq:equal_but_different_hash:var", "a set keeps two equal variables", info)
        x, o = Var("x"), Var("o")
        mk = lambda v: PolyhedralIoContract(assumptions=PolyhedralTermList([PolyhedralTerm({v: 1.0}, 4.0)]),        # noqa: E731
                                            guarantees=PolyhedralTermList([PolyhedralTerm({o: 1.0, v: -2.0, x: 1.0}, 0.5)]),
                                            input_vars=[x, v], output_vars=[o])
        try:
            ca, cb = mk(va), mk(vb)
        except Exception as e:  # noqa: BLE001
            ctx.violation("eq:escape:" + type(e).__name__, "building a contract over a variable with a non-string name raised", dict(info, error=str(e)[:200]))
            continue
        for what, p, q in (("contract", ca, cb), ("assumptions", ca.a, cb.a), ("guarantees", ca.g, cb.g), ("term", ca.g.terms[0], cb.g.terms[0])):
            if not (p == q and q == p):
                ctx.violation("eq:same_name_unequal:" + what, f"two {what}s over the same variable, named once by a number and once by its string, compare unequal", info)
            elif hash(p) != hash(q):
                ctx.violation("eq:equal_but_different_hash:" + what, f"equal {what}s (a variable named by a number / by its string) hash differently", info)
        rt = PolyhedralIoContract.from_dict(ca.to_machine_dict(), simplify=False)
        if not (rt == ca and ca == rt and hash(rt) == hash(ca)):
            ctx.violation("eq:roundtrip_differs", "machine-dictionary round trip of a contract over a variable with a non-string name is not equal / hashes differently", info)
        cp = ca.copy()
        if not (cp == ca and hash(cp) == hash(ca)):
            ctx.violation("eq:copy_differs", "a copy of a contract over a variable with a non-string name is not equal / hashes differently", info)
    mism, errs = pp.evaluate_cases("c19", exprs, chunk=200)
    for e in errs:
        ctx.broke("correspondence:equality", "cases file failed: " + e)
    for i in mism[:5]:
        ctx.broke("correspondence:equality", f"model equality and the implementation's == disagree on {cases[i]}")
    ctx.count(len(exprs), len(seen))
    ctx.notes["histogram"] = hist
    ctx.notes["correspondence_mismatches"] = len(mism)
    pp.CERTS.clear()
    ctx.assumptions += ["hash(x) = H(key x) for an arbitrary H: the theorems are about keys (str of a term is determined by term_key)",
                        "signed zero is outside the model (0.0 == -0.0 but their str differ)"]
