"""C11 — behaviour membership and emptiness agree with exact arithmetic
(model/Term.v contains_behavior, model/Poly.v poly_is_empty; proofs/EvalFacts.v, PolyFacts.v)."""
import random
from fractions import Fraction as F

import coqfmt as cf
import exactlp as lp
import gen
import p_poly as pp
import record
from pacti.iocontract import Var


def boundary_points(rng, ts, vs):
    """points on, just inside and just outside every constraint boundary (dyadic values)"""
    pts = []
    for t in ts:
        base = gen.rand_point(rng, vs)
        v0 = next(iter(t[0]))
        a = t[0][v0]
        rest = sum(c * base[x] for x, c in t[0].items() if x != v0)
        on = (t[1] - rest) / a
        if on.denominator & (on.denominator - 1) == 0 and on.denominator <= 2 ** 20:
            for d in (F(0), F(1, 2 ** 10), F(-1, 2 ** 10), F(1), F(-1)):
                p = dict(base)
                p[v0] = on + d
                pts.append(p)
    pts.append(gen.rand_point(rng, vs))
    return pts


def check(ctx):
    ctx.cov["rule"] = (
        "constraint lists (1-5 terms, <=4 variables, dyadic data) with behaviours on, just inside (2^-10) and just outside every "
        "constraint boundary, behaviours with a missing or an extra variable; emptiness on feasible, infeasible and thinly "
        "feasible/infeasible systems (margins down to 2^-10); implementation vs model compared exactly inside Coq (LP answers "
        "replayed); answers re-decided by exact rational evaluation / exact LP with certificates. non-trivial = the point lies "
        "within 1 of some boundary, or a variable is missing, or the system is infeasible/thin; distinct by canonical input")
    proved = ctx.prove("props/C11.v", ["proofs/EvalFacts.v", "proofs/PolyFacts.v", "proofs/TermListGenEval.v", "proofs/TermListGenContains.v", "proofs/PolyGenEmpty.v"])
    ctx.build(["model/Corr.vo", "base/Farkas.vo"])
    rng = random.Random(ctx.seed + 11)
    n = (150 if ctx.quick else 20000) * (1 if proved else 3)
    exprs, cases, seen = [], [], set()
    hist = {"contained": 0, "not_contained": 0, "unassigned": 0, "empty": 0, "nonempty": 0, "refines_consistent": 0}
    for k in range(n):
        nv = rng.randint(1, 4)
        vs = gen.VARS[:nv]
        p0 = gen.rand_point(rng, vs)
        ts = [gen.rand_term(rng, vs, "dyadic", point=p0 if rng.random() < 0.7 else None) for _ in range(rng.randint(1, 5))]
        tl = gen.mktl(ts)
        used = lp.term_vars(ts)
        for p in boundary_points(rng, ts, vs)[:6]:
            b = dict(p)
            r = rng.random()
            if r < 0.1 and used:
                b.pop(rng.choice(used), None)
            elif r < 0.2:
                b["extra"] = F(1)
            items = list(b.items())
            beh = {Var(x): float(v) for x, v in items}
            okind, v, calls = pp.observe(lambda: tl.contains_behavior(beh))
            exprs.append(f"c_contains {cf.terms(ts)} {cf.pvars(items)} {pp.exp_bool(okind, v)}")
            cases.append(("contains", ts, items, okind, v))
            missing = [x for x in used if x not in b]
            payload = {"terms": [cf.jsonable_term(t) for t in ts], "behavior": {x: str(q) for x, q in items}, "answer": v if okind == "ok" else list(v)}
            if missing:
                hist["unassigned"] += 1
                if not (okind == "err" and v[0] == 2):
                    ctx.violation("contains:unassigned_not_rejected", "a constrained variable is unassigned but no ValueError was raised", payload)
            elif okind == "ok":
                truth = all(lp.holds_at(t, b) for t in ts)
                hist["contained" if truth else "not_contained"] += 1
                if v != truth:
                    ctx.violation("contains:wrong_answer", "contains_behavior disagrees with exact evaluation", payload)
            else:
                ctx.violation("contains:spurious_error", "contains_behavior raised although every variable is assigned", payload)
            seen.add((gen.key_of(ts), tuple(items)))
            if k < 1:
                ctx.sample(payload)
        # a LARGE bound missed by a SMALL amount (and met with the same small margin): the violation is real (everything is dyadic) although
        # it is tiny relative to the bound -- membership is decided on the sign of the exact difference, not up to a relative tolerance
        if k % 3 == 0:
            C = F(rng.choice([8, 64, 1024, 4096, 65536])) * rng.choice([1, 3, 5])
            other = rng.choice([v for v in gen.VARS[:4] if v != "x"] or ["y"])
            big = [({"x": F(1), other: F(rng.choice([1, -1, 2]))}, C), ({"x": F(-1)}, F(0))] + ([({other: F(1)}, F(5))] if rng.random() < 0.5 else [])
            bl_ = gen.mktl(big)
            for j in (10, 14, 20):
                for sgn in (1, -1):
                    items = [("x", C + sgn * F(1, 2 ** j)), (other, F(0))]
                    beh = {Var(x): float(v) for x, v in items}
                    okind, v, calls = pp.observe(lambda: bl_.contains_behavior(beh))
                    exprs.append(f"c_contains {cf.terms(big)} {cf.pvars(items)} {pp.exp_bool(okind, v)}")
                    cases.append(("contains", big, items, okind, v))
                    seen.add((gen.key_of(big), tuple(items)))
                    truth = sgn < 0
                    hist["contained" if truth else "not_contained"] += 1
                    if okind != "ok" or v != truth:
                        ctx.violation("contains:wrong_answer", "contains_behavior disagrees with exact evaluation (a large bound missed / met by a small dyadic amount)",
                                      {"terms": [cf.jsonable_term(t) for t in big], "behavior": {x: str(q) for x, q in items}, "answer": v if okind == "ok" else list(v)})
        # emptiness
        mode = rng.choice(["as_is", "thin_feasible", "thin_infeasible", "infeasible", "box_later_variable_empty", "constant_rows", "no_terms"])
        es = list(ts)
        if mode == "no_terms":
            es = []               # the list without any constraint ("true"): what evaluate / `-` / get_terms_with_vars hand back; it is NOT empty
        if mode == "box_later_variable_empty" and nv < 2:
            mode = "as_is"
        if mode == "box_later_variable_empty":
            # every term bounds one variable; the first variables have proper intervals, a LATER one an empty interval
            es = []
            bad = rng.randrange(1, nv)
            for j, x in enumerate(vs):
                lo = F(rng.randint(-4, 2))
                hi = lo + F(rng.randint(1, 4)) if j != bad else lo - F(rng.choice([1, 2]), rng.choice([1, 2, 1024]))
                es += [({x: F(1)}, hi), ({x: F(-1)}, -lo)]
            if rng.random() < 0.5:
                es = es[:2] + sorted(es[2:], key=lambda _: rng.random())
        elif mode == "constant_rows":
            # variable-free rows (what a rename that cancels coefficients leaves behind): a false one empties the set, true ones say nothing
            es = es + [({}, F(rng.choice([-1, -2, 1, 3])))] + ([({}, F(rng.choice([0, 2])))] if rng.random() < 0.6 else [])
            rng.shuffle(es)
        elif mode not in ("as_is", "no_terms"):
            t = rng.choice(ts)
            gap = {"thin_feasible": F(1, 2 ** 10), "thin_infeasible": -F(1, 2 ** 10), "infeasible": -F(rng.randint(1, 4))}[mode]
            es = es + [({x: -a for x, a in t[0].items()}, -t[1] + gap)]
        el = gen.mktl(es)
        okind, v, calls = pp.observe(lambda: el.is_empty())
        exprs.append(f"c_is_empty 0 {record.coq_table(calls)} {cf.terms(es)} {pp.exp_bool(okind, v)}")
        cases.append(("is_empty", es, None, okind, v))
        pp.validate_lp(ctx, calls)
        truth = lp.feasible(es)["status"] == "infeasible"
        robust = lp.feasible(pp.shrink(es, pp.TOL))["status"] != "infeasible"
        hist["empty" if truth else "nonempty"] += 1
        payload = {"terms": [cf.jsonable_term(t) for t in es], "mode": mode, "answer": v if okind == "ok" else list(v)}
        if okind == "ok":
            if v is True and robust:
                ctx.violation("is_empty:true_on_feasible", "is_empty answered True for a (robustly) satisfiable list", payload)
            if v is False and lp.feasible(pp.relax(es, pp.TOL))["status"] == "infeasible":
                ctx.violation("is_empty:false_on_infeasible", "is_empty answered False for a list infeasible beyond the tolerance", payload)
        elif v[0] == 6:
            ctx.violation("is_empty:escape:" + v[1], "undocumented exception", payload)
        # consistency with refinement: contained in A, A refines B  =>  contained in B (up to tolerance)
        B = [t for t in (gen.combo(rng, ts, F(rng.randint(0, 2))) for _ in range(2)) if t[0]]
        if B:
            bl = gen.mktl(B)
            ok2, v2, _ = pp.observe(lambda: tl.refines(bl))
            if ok2 == "ok" and v2 is True:
                beh = {Var(x): float(q) for x, q in p0.items()}
                oka, va, _ = pp.observe(lambda: tl.contains_behavior(beh))
                okb, vb, _ = pp.observe(lambda: bl.contains_behavior(beh))
                if oka == "ok" and va is True and okb == "ok":
                    hist["refines_consistent"] += 1
                    worst = max((lp.evalf(t[0], p0) - t[1] - pp.TOL * (1 + abs(t[1])) for t in B), default=F(-1))
                    if vb is False and worst > 0:
                        ctx.violation("contains:refinement_inconsistent", "a behaviour of A is outside B although A refines B",
                                      {"A": [cf.jsonable_term(t) for t in ts], "B": [cf.jsonable_term(t) for t in B], "behavior": {x: str(q) for x, q in p0.items()}})
    mism, errs = pp.evaluate_cases("c11", exprs)
    for e in errs:
        ctx.broke("correspondence:membership", "cases file failed: " + e)
    for i in mism[:5]:
        op, ts, items, okind, v = cases[i]
        ctx.broke("correspondence:" + op, f"model and implementation disagree on {op} terms={[cf.jsonable_term(t) for t in ts]} behavior={items} implementation={v}")
    ctx.count(len(exprs), len(seen))
    ctx.notes["histogram"] = hist
    ctx.notes["correspondence_mismatches"] = len(mism)
    pp.finish_certs(ctx, "c11")
