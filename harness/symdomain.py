"""Scripted symbolic TermList for the T1 cross-check (mirror of coq/model/Script.v).

The real pacti.iocontract.IoContract is run on SymTermList operands; the same script
instantiates the translated algebra inside Coq; outcomes must agree exactly."""
from __future__ import annotations

from pacti.iocontract import IoContract, Term, TermList, Var
from pacti.utils.lists import list_diff, list_intersection

SEED = [0]


class SymTerm(Term):
    def __init__(self, ident, varnames):
        self.ident = int(ident)
        self.varnames = list(varnames)

    @property
    def vars(self):  # noqa: A003
        return [Var(v) for v in self.varnames]

    def contains_var(self, var_to_seek):
        return var_to_seek in self.vars

    def __eq__(self, other):
        return self.ident == other.ident

    def __str__(self):
        return f"A{self.ident}{self.varnames}"

    def __hash__(self):
        return hash(self.ident)

    def __repr__(self):
        return str(self)

    def copy(self):
        return SymTerm(self.ident, self.varnames)

    def rename_variable(self, source_var, target_var):
        return SymTerm(self.ident, [target_var.name if v == source_var.name else v for v in self.varnames])


def ids(terms):
    return sum(t.ident for t in terms)


def mentions(vs, t):
    return len(list_intersection(t.vars, vs)) > 0


class SymTermList(TermList):
    def __hash__(self):
        return hash(tuple(self.terms))

    def contains_behavior(self, behavior):
        return True

    def _elim(self, salt, context, vars_to_elim):
        s = self.terms
        k = (SEED[0] + salt + 7 * ids(s) + 13 * ids(context.terms) + 31 * len(vars_to_elim)) % 5
        if k in (0, 1):
            return SymTermList([t.copy() for t in s if not mentions(vars_to_elim, t)]), []
        if k == 2:
            return SymTermList([t.copy() for t in s]), []
        if k == 3:
            raise ValueError("scripted failure")
        out = []
        for t in s:
            if mentions(vars_to_elim, t):
                out.append(SymTerm(t.ident + 100, [v.name for v in list_diff(t.vars, vars_to_elim)]))
            else:
                out.append(t.copy())
        return SymTermList(out), []

    def elim_vars_by_refining(self, context, vars_to_elim, simplify=True, tactics_order=None):
        return self._elim(1, context, vars_to_elim)

    def elim_vars_by_relaxing(self, context, vars_to_elim, simplify=True, tactics_order=None):
        return self._elim(2, context, vars_to_elim)

    def simplify(self, context=None):
        c = context.terms if context is not None else []
        k = (SEED[0] + 3 * ids(self.terms) + 5 * ids(c)) % 4
        if k in (0, 1):
            cid = [t.ident for t in c]
            return SymTermList([t.copy() for t in self.terms if t.ident not in cid])
        if k == 2:
            return SymTermList([t.copy() for t in self.terms])
        raise ValueError("scripted failure")

    def refines(self, other):
        k = (SEED[0] + ids(self.terms) + 2 * ids(other.terms)) % 7
        if k == 6:
            raise ValueError("scripted failure")
        return k % 2 == 0

    def is_empty(self):
        return False


def mk_contract(c):
    """c: dict a,g: list of (id, [vars]); i,o: names.  Built without simplification."""
    return IoContract(
        assumptions=SymTermList([SymTerm(i, vs) for i, vs in c["a"]]),
        guarantees=SymTermList([SymTerm(i, vs) for i, vs in c["g"]]),
        input_vars=[Var(v) for v in c["i"]],
        output_vars=[Var(v) for v in c["o"]],
        simplify=False,
    )


def dump_contract(c):
    return {
        "a": [(t.ident, list(t.varnames)) for t in c.a.terms],
        "g": [(t.ident, list(t.varnames)) for t in c.g.terms],
        "i": [v.name for v in c.inputvars],
        "o": [v.name for v in c.outputvars],
    }
