#!/usr/bin/env python3
"""Regenerate seeded/README.md from the confirmed seeded changes filed under seeded/<name>/meta.json."""
import glob
import json
import os

VERIF = os.path.dirname(os.path.dirname(os.path.abspath(__file__)))


def main():
    rows = []
    for m in sorted(glob.glob(os.path.join(VERIF, "seeded", "*", "meta.json"))):
        name = os.path.basename(os.path.dirname(m))
        meta = json.load(open(m))
        conf = meta.get("confirmation", {})
        checks = conf.get("checks", {})
        caught = []
        for p, v in sorted(checks.items()):
            if not isinstance(v, dict):
                continue
            if v.get("exit") == 1:
                keys = v.get("keys", [])
                with_input = [k for k in keys if not k.startswith("NO-INPUT")]
                how = ("input: " + ", ".join(with_input[:2])) if with_input else ("no-failing-input-found: " + ", ".join(k[9:] for k in keys[:2]))
                caught.append(f"**{p}** ({how})")
            else:
                caught.append(f"{p} (passes)")
        rows.append((name, meta.get("property", name[:3]), (meta.get("summary") or "").replace("\n", " ").replace("|", "\\|"), "; ".join(caught),
                     conf.get("pytest_with_change", "")))
    out = ["# Seeded breaking changes",
           "",
           "Each directory holds `patch.diff` (apply with `git -C <worktree> apply`), `demo.py` (exit 0 on /repo, non-zero on the change;",
           "`PACTI_SRC=<tree>/src /venv/bin/python demo.py`) and `meta.json` (what the author reported plus my confirmation:",
           "the pinned suite still passes with the change, the demo separates the two trees, and what each check said).",
           "The changes were written by sub-agents that saw only the property text and a scratch worktree, never /verif.",
           "They are never committed to /repo. To re-run: `python3 harness/seedtest.py seeded/<name>/patch.diff Cxx …`",
           "(makes a worktree under /tmp, runs the checks from a copy of /verif with VERIF_REPO pointing at it, removes both).",
           "",
           "| seeded change | property | what was changed | verdict of the checks run against it | suite with change |",
           "|---|---|---|---|---|"]
    for r in rows:
        out.append("| " + " | ".join(r) + " |")
    out.append("")
    open(os.path.join(VERIF, "seeded", "README.md"), "w").write("\n".join(out))
    print(f"{len(rows)} seeded changes")


if __name__ == "__main__":
    main()
