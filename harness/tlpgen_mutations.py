#!/usr/bin/env python3
"""Sensitivity experiment for the translation of PolyhedralTermList._get_tlp_context, _context_reduction and
PolyhedralTerm.solve_for_variables (translator/py2coq_tlp.py -> gen/TlpGen.v) and of the equality proofs
proofs/TlpGen*.v.

For each small edit of src/pacti/terms/polyhedra/polyhedra.py (applied to a scratch copy of the source tree, one at a
time) the translator is run into a scratch copy of the Coq tree and proofs/TlpGenFacts.vo (which requires every group
file) is rebuilt with `make -k` (every coqc under `timeout`).  Semantic edits must be rejected by the translator (fail
closed: TRANSLATOR-UNSUPPORTED[TlpGen.v], the output file is poisoned) or break an equality proof; harmless rewrites
must pass.  Nothing outside the scratch directory is written (except the report); the scratch SOURCE tree is always
removed at the end.

usage: tlpgen_mutations.py <verif dir> <repo dir> <scratch dir> [report.md] [--keep] [--only ID,ID,...]
"""
import os
import re
import shutil
import subprocess
import sys

PY = "/venv/bin/python"
REL = "src/pacti/terms/polyhedra/polyhedra.py"
TARGETS = ["proofs/TlpGenFacts.vo"]
GEN = "TlpGen.v"

OBJ_OLD = "        objective = np.array([term.get_coefficient(var) if var in forbidden_vars else 0 for var in var_list])\n"
FLIP_OLD = "        if refine:\n            objective *= -1\n\n        res = linprog("
STATUS_OLD = '''        if res["status"] == 3:
            raise ValueError("Unbounded")
        elif res["status"] != 0:
            raise ValueError("Constraints are unfeasible")
'''
STATUS_NEW = '''        if res["status"] != 0 and res["status"] != 3:
            raise ValueError("Constraints are unfeasible")
'''
PICK_OLD = "            if list_intersection(context_term.vars, forbidden_vars):\n"
BREAK_OLD = '''                terms_added += 1
                if terms_added == num_vars_to_elim:
                    break
'''
SOLVE_OLD = '''        try:
            multipliers = np.linalg.solve(row_matrix.T, term_vector)
        except np.linalg.LinAlgError:
            raise ValueError("Context rows are not independent")
'''
SIGN_OLD = '''        if refine and np.any(multipliers < 0):
            raise ValueError("Context rows do not bound the term")
        if (not refine) and np.any(multipliers > 0):
            raise ValueError("Context rows do not bound the term")
'''
SIGN_INV = '''        if refine and np.any(multipliers > 0):
            raise ValueError("Context rows do not bound the term")
        if (not refine) and np.any(multipliers < 0):
            raise ValueError("Context rows do not bound the term")
'''
SIGN_REFINE_ONLY = '''        if refine and np.any(multipliers < 0):
            raise ValueError("Context rows do not bound the term")
'''
TLP_CALL = '''                matrix_row_terms, forbidden_vars = PolyhedralTermList._get_tlp_context(
                    term, context, vars_to_elim, refine
                )
'''
KK_CALL = '''                matrix_row_terms, forbidden_vars = PolyhedralTermList._get_kaykobad_context(
                    term, context, vars_to_elim, refine
                )
'''
ELSE_OLD = '''            else:
                raise ValueError("Unknown strategy")
'''
DISPATCH_OLD = "            if strategy == 1:\n" + KK_CALL + "            elif strategy == 5:\n" + TLP_CALL
DISPATCH_SWAPPED = "            if strategy == 5:\n" + TLP_CALL + "            elif strategy == 1:\n" + KK_CALL
SUBST_OLD = "            result = result.substitute_variable(var, sols[var])\n"
LEN_OLD = '''        if len(context.terms) != len(vars_to_solve):
            raise ValueError("The number of equations does not match the number of variables to solve")
'''
GUARD_OLD = '''        if len(sols) > 0:
            return {Var(str(key)): PolyhedralTerm.to_term(sols[key]) for key in sols.keys()}
        return {}
'''
GUARD_NEW = '''        return {Var(str(key)): PolyhedralTerm.to_term(sols[key]) for key in sols.keys()}
'''
COPY_OLD = '        result = term.copy()\n        # logging.debug("Result is %s", result)\n'
NUM_OLD = '''        num_vars_to_elim = len(forbidden_vars)
        slack = res["slack"]
'''

# (id, kind, description, [(old text, new text), ...])   kind: "semantic" | "harmless"
EDITS = [
    ("S1", "semantic", "_get_tlp_context: the multipliers are solved with the un-transposed matrix, "
     "`np.linalg.solve(row_matrix, term_vector)` (seeded change C04 verbatim)",
     [("np.linalg.solve(row_matrix.T, term_vector)", "np.linalg.solve(row_matrix, term_vector)")]),
    ("A1", "semantic", "_get_tlp_context: the objective is not restricted to the forbidden variables",
     [(OBJ_OLD, "        objective = np.array([term.get_coefficient(var) for var in var_list])\n")]),
    ("A2", "semantic", "_get_tlp_context: the objective's sign is not flipped when refining",
     [(FLIP_OLD, "        res = linprog(")]),
    ("A2b", "semantic", "_get_tlp_context: the objective's sign is flipped when RELAXING (`if not refine`)",
     [("        if refine:\n            objective *= -1\n", "        if not refine:\n            objective *= -1\n")]),
    ("A3", "semantic", "_get_tlp_context: status 3 (unbounded) treated as success", [(STATUS_OLD, STATUS_NEW)]),
    ("A4", "semantic", "_get_tlp_context: `len(indices) < num_vars_to_elim` off by one (`<=`)",
     [("        if len(indices) < num_vars_to_elim:\n", "        if len(indices) <= num_vars_to_elim:\n")]),
    ("A5", "semantic", "_get_tlp_context: active rows that mention no forbidden variable are selected as well",
     [(PICK_OLD, "            if context_term.vars:\n")]),
    ("A6", "semantic", "_get_tlp_context: the multiplier sign check is inverted", [(SIGN_OLD, SIGN_INV)]),
    ("A7", "semantic", "_get_tlp_context: the multiplier sign check is skipped when relaxing", [(SIGN_OLD, SIGN_REFINE_ONLY)]),
    ("A8", "semantic", "_context_reduction: the solutions are substituted into a copy of the first context term instead of "
     "the term", [(COPY_OLD, COPY_OLD.replace("term.copy()", "context.terms[0].copy()"))]),
    ("A8b", "semantic", "_context_reduction: the solutions are substituted into a copy of the context (`context.copy()`)",
     [(COPY_OLD, COPY_OLD.replace("term.copy()", "context.copy()"))]),
    ("A9", "semantic", "_context_reduction: strategy 5 is routed to the Kaykobad selector",
     [("            elif strategy == 5:\n" + TLP_CALL, "            elif strategy == 5:\n" + KK_CALL)]),
    ("A10", "semantic", "_context_reduction: the solutions are applied with the wrong sign",
     [(SUBST_OLD, "            result = result.substitute_variable(var, sols[var].multiply(-1))\n")]),
    ("A11", "semantic", "_get_tlp_context: every active row is selected (the `break` at num_vars_to_elim rows is gone)",
     [(BREAK_OLD, "                terms_added += 1\n")]),
    ("A12", "semantic", "_get_tlp_context: np.linalg.solve outside any `try` (LinAlgError, a ValueError subclass, escapes)",
     [(SOLVE_OLD, "        multipliers = np.linalg.solve(row_matrix.T, term_vector)\n")]),
    ("A13", "semantic", "solve_for_variables: the check on the number of equations is dropped", [(LEN_OLD, "")]),
    ("A14", "semantic", "solve_for_variables: unknowns in the order of vars_to_elim (`list_intersection(vars_to_elim, "
     "context.vars)`)", [("list_intersection(context.vars, vars_to_elim)", "list_intersection(vars_to_elim, context.vars)")]),
    ("A15", "semantic", "solve_for_variables: the guard `len(sols) > 0` is dropped ([].keys() on an inconsistent system)",
     [(GUARD_OLD, GUARD_NEW)]),
    ("A16", "semantic", "_context_reduction: an unknown strategy falls back to the Kaykobad selector instead of raising",
     [(ELSE_OLD, "            else:\n" + KK_CALL)]),
    ("A17", "semantic", "PolyhedralTerm.to_symbolic (inside the sympy primitive): the constant enters with the wrong sign",
     [("        ex = -term.constant\n", "        ex = term.constant\n")]),
    ("A18", "semantic", "_get_tlp_context: a looser activity test, `np.isclose(slack, 0, atol=1e-6)`",
     [("np.isclose(slack, 0)", "np.isclose(slack, 0, atol=1e-6)")]),
    ("A19", "semantic", "_get_tlp_context: the term vector enters the multiplier system negated",
     [("        term_vector = np.array([term.get_coefficient(var) for var in forbidden_vars])\n",
       "        term_vector = np.array([-term.get_coefficient(var) for var in forbidden_vars])\n")]),
    ("A20", "semantic", "_get_tlp_context: the LP is solved over the context's matrix with the TERM's constants swapped in "
     "(`b_ub=objective`)", [("res = linprog(c=objective, A_ub=B, b_ub=b, bounds=(None, None))",
                            "res = linprog(c=objective, A_ub=B, b_ub=objective, bounds=(None, None))")]),
    ("A21", "semantic", "_context_reduction: the rows are solved for ALL variables to eliminate, not the forbidden ones "
     "(`list(vars_to_elim)`)", [("PolyhedralTerm.solve_for_variables(matrix_row_terms_tl, list(forbidden_vars))",
                                 "PolyhedralTerm.solve_for_variables(matrix_row_terms_tl, list(vars_to_elim))")]),
    ("H1", "harmless", "_get_tlp_context: locals renamed (matrix_row_terms -> picked, terms_added -> count, indices -> active)",
     []),
    ("H2", "harmless", "logging.debug added in _get_tlp_context, _context_reduction and solve_for_variables",
     [(NUM_OLD, '        logging.debug("LP solved: %s", res)\n' + NUM_OLD),
      (COPY_OLD, '        logging.debug("substituting %s", sols)\n' + COPY_OLD),
      (LEN_OLD, '        logging.debug("unknowns %s", vars_to_solve)\n' + LEN_OLD)]),
    ("H3", "harmless", "_get_tlp_context: `objective = objective * -1` for `objective *= -1`",
     [("            objective *= -1\n", "            objective = objective * -1\n")]),
    ("H4", "harmless", "_get_tlp_context: `num_vars_to_elim = len(forbidden_vars)` computed before the LP is solved",
     [("        num_vars_to_elim = len(forbidden_vars)\n", ""),
      ("        matrix_row_terms = []\n\n        var_list, B, b, _, _",
       "        matrix_row_terms = []\n        num_vars_to_elim = len(forbidden_vars)\n\n        var_list, B, b, _, _")]),
    ("H5", "harmless", "_context_reduction: the two strategy branches swapped (`if strategy == 5 ... elif strategy == 1`)",
     [(DISPATCH_OLD, DISPATCH_SWAPPED)]),
    ("H6", "harmless", "solve_for_variables: locals renamed (exprs -> equations, vars_to_solve_symb -> unknowns)", []),
]

PREAMBLE = r"""# T1 for `_get_tlp_context`, `_context_reduction` and `solve_for_variables`

Generated by `harness/tlpgen_mutations.py`
(rerun: `/venv/bin/python harness/tlpgen_mutations.py <verif> /repo <scratch> docs/TLPGEN_REPORT.md`).

## 1. What is translated

`translator/py2coq_tlp.py` (a new generator module; `py2coq.main` has one import line and one `guard("TlpGen.v", ...)` line
for it; class `TFn` subclasses the statement / expression translator `PFn` of `py2coq_poly.py`, helpers come from
`py2coq.py` and `py2coq_termlist.py`; no existing translator file is otherwise edited) renders, from the current
`/repo/src` on every run, into `coq/gen/TlpGen.v` the last pieces of the variable-elimination code of
`src/pacti/terms/polyhedra/polyhedra.py` that were hand-modelled only:

* `PolyhedralTerm.solve_for_variables` — the Python around the sympy calls, line by line: the unknowns
  `list_intersection(context.vars, vars_to_elim)`, the check on the number of equations (ValueError), the two comprehensions
  that build the sympy arguments, the `len(sols) > 0` guard, the dict comprehension that converts the solution back;
* `PolyhedralTermList._get_tlp_context` (tactic 5) — whole function: the LP over the whole context with the objective
  restricted to the forbidden variables, `objective *= -1` when refining, status 3 / other non-zero statuses, the count of
  LP-active rows `np.where(np.isclose(slack, 0))[0]`, the selection loop with its `break`, both "insufficient information"
  errors, `row_matrix` / `term_vector`, `np.linalg.solve(row_matrix.T, term_vector)` inside
  `try ... except np.linalg.LinAlgError`, the two sign checks;
* `PolyhedralTermList._context_reduction` (tactics 1, 3, 5) — whole function: strategy dispatch inside
  `try ... except ValueError`, `PolyhedralTermList(list(rows))`, `solve_for_variables`, `term.copy()`, the substitution loop
  over `sols.keys()`.

Called, not re-translated (their generated signatures are re-read and checked on every run): the `PolyhedralTerm` methods of
`gen/TermGen.v` (`get_coefficient`, `vars`, `copy`, `substitute_variable`), `PolyhedralTermList.__init__` / `vars` and
`_get_kaykobad_context` of `gen/TermListGen.v`, `termlist_to_polytope` of `gen/PolyGen.v`.  So `gen/TlpGen.v` imports those
three files: a source that poisons one of them also stops the `TlpGen` obligations.

New vocabulary file `coq/base/PyLinalg.v` (hand-written, stable): `np_transpose` (`a.T`: entry (j, i) of the result is entry
(i, j); a 1-D array is its own transpose), `np_where_idx` (`np.where(c)[0]`; an index array is the list of its entries),
`np_asarray_opt` (`res["slack"]` handed to a numpy function; `None` raises TypeError as the ufunc does), `try_except_linalg`
(`except np.linalg.LinAlgError`), dicts `{Var: PolyhedralTerm}` (`tdict`, `tdict_set` / `tdict_get` (KeyError) / `tdict_keys` /
`tdict_comp_m`: per item the key, then the value, then the store), and the NAMED PRIMITIVES, class `LinalgPrims`:

| field | Python | model instance (`proofs/TlpGenBase.v:model_linalg`) |
|---|---|---|
| `la_solve : ndarray -> ndarray -> M ndarray` | `np.linalg.solve(a, b)` | `gauss_linsolve`: as numpy, `Escape "LinAlgError"` unless `a` is a square 2-D array, ValueError when `b` has another length; then one equation per row of `a` over the unknowns `#`, `#i`, ... solved by the hand model's `gauss` / `solve_isolate` (exactly the text of `model/Tactics.v:get_tlp_context`); LinAlgError unless every unknown gets a pivot |
| `la_isclose : ndarray -> Q -> barray` | `np.isclose(a, k)` on an array | against 0 the hand model's `isclose0` (`|s| <= 1/10^8`, the rational, not the double `1e-08`), otherwise `np_isclose` of `PyNumpy.v` |
| `sym_expr`, `sym_symbol`, `sym_sols` | sympy expression / Symbol / result of `sympy.solve` | `pterm` (read `Σ coeffs - constant`), `var`, `list (var * pterm)` |
| `sym_to_symbolic`, `sym_to_term` | `PolyhedralTerm.to_symbolic`, `PolyhedralTerm.to_term` | `ret` (the round trip is the identity on values) |
| `sym_symbols`, `sym_var` | `sympy.symbols(var.name)`, `Var(str(key))` | the identity |
| `sym_solve` | `sympy.solve(exprs, *symbols)` | `gauss_solve`: the hand model's Gauss-Jordan elimination over the columns `symbols`; the solution when the unused rows are `0 = 0`, `[]` otherwise (`solve_sound` / `solve_complete` of `TacticsFacts.v` are about this function) |
| `sym_len`, `sym_keys`, `sym_get` | `len(sols)`, `sols.keys()`, `sols[key]` | length, the keys (AttributeError on `[]`, which is a list), lookup (KeyError) |

`scipy.optimize.linprog` is the primitive `np_linprog` of `PyNumpy.v` with the instance `PolyGenBase.v:poly_lp O` (the LP oracle
behind scipy's input validation), its columns named by the variable list that the `termlist_to_polytope` call returns.
The pacti code INSIDE the sympy primitives (`to_symbolic`, `to_term`) is pinned: the translator compares a digest of their
ASTs (docstrings and logging removed) with the one recorded when the instance was written and rejects a changed source.

Fail closed (`TRANSLATOR-UNSUPPORTED[TlpGen.v]: ...`, only this output file is poisoned): everything `PFn` rejects (constructs
or numpy calls outside the subset, in-place updates of objects that are not provably fresh and unaliased, `return` inside a
loop, int literals whose kind nothing fixes ...), a missing listed function, changed decorators / annotations, a changed
signature of one of the called generated functions, `np.linalg.solve` outside `try ... except np.linalg.LinAlgError`,
`np.where` other than `np.where(c)[0]`, `np.isclose` with keyword arguments, comprehensions with filters or several `for`
clauses, `Var(...)` other than `Var(str(<symbol>))`, a changed `to_symbolic` / `to_term`, local names colliding with the
vocabulary.  Output is deterministic (checked with three hash seeds).

## 2. Equality theorems

`O` is the LP oracle of model/Poly.v; generated functions are applied to the instances `poly_lp O` and `model_linalg`; `wft t` =
the keys of the dict are pairwise distinct; `tlp_lp term ctx vs refine` = the LP that `_get_tlp_context` poses;
`slack_fits O p` = an answer `LpOpt f s` to `p` has at most one slack per row.  All equalities are pointwise equalities of
monadic results (values and error kinds).

| file | theorem | statement |
|---|---|---|
| TlpGenContext.v | `get_tlp_context_eq` | `list_intersection vs (term_vars_p term) <> [] -> slack_fits O (tlp_lp term ctx vs refine) -> @PolyhedralTermList__get_tlp_context (poly_lp O) model_linalg term ctx vs refine = get_tlp_context O term ctx vs refine` |
| | `pick_loop` | the `for index in indices` loop with its `break`, started after any prefix of the context, is `tlp_pick` |
| TlpGenReduction.v | `solve_for_variables_eq` | `@PolyhedralTerm_solve_for_variables model_linalg ctx vs = solve_for_variables ctx vs` (NO precondition; `gauss_keys_nodup`: the Gauss-Jordan solution has pairwise distinct keys for ANY rows, so the dict comprehension rebuilds it) |
| | `context_reduction_eq` | `wft term -> Forall wft ctx -> (strategy = 5 -> list_intersection vs (term_vars_p term) <> [] /\ slack_fits O (tlp_lp term ctx vs refine)) -> @PolyhedralTermList__context_reduction (poly_lp O) model_linalg term ctx vs refine strategy = context_reduction O term ctx vs refine strategy` (every strategy number) |
| TlpGenFacts.v | `poly_prims_context_reduction_generated` | same hypotheses: `@p_context_reduction (poly_prims O) term ctx vs refine strategy = @PolyhedralTermList__context_reduction (poly_lp O) model_linalg term ctx vs refine strategy` — the field of the instance that every `TermListGen*.v` equality uses IS the generated function |
| | `tactic_1_closed` | `wft term -> Forall wft ctx -> @PolyhedralTermList__tactic_1 (poly_prims_gen O) term ctx vs refine = tactic_1 O term ctx vs refine`, where `poly_prims_gen O` is `poly_prims O` with `p_context_reduction := the generated _context_reduction` |
| | `tactic_5_closed` | `... -> list_intersection vs (term_vars_p term) <> [] -> slack_fits O (tlp_lp term ctx vs refine) -> @PolyhedralTermList__tactic_5 (poly_prims_gen O) ... = tactic_5 O ...` |
| | `tactic_3_closed` | `wft' term -> Forall wft ctx -> NoDup vs -> ~ In "_" vs -> @PolyhedralTermList__tactic_3 (poly_prims_gen O) ... = tactic_3 O ...` (the hypotheses of `tactic_3_eq`; the term and context handed to tactic 1 are shown to be dicts) |
| | `tactics_table_closed` | `NoDup vs -> ~ In "_" vs -> oracle_slack_ok O -> wft' term -> Forall wft' ctx -> list_intersection vs (term_vars_p term) <> [] -> @PolyhedralTermList_TACTICS (poly_prims_gen O) num term ctx vs refine = run_tactic O num term ctx vs refine` (all six tactics) |
| | `transform_term_closed_gen` | `NoDup vs -> ~ In "_" vs -> oracle_slack_ok O -> wft' term -> Forall wft' ctx -> PolyhedralTermList__transform_term (@PolyhedralTermList_TACTICS (poly_prims_gen O)) term ctx vs refine (Some order) = transform_term O order term ctx vs refine` — the dispatcher over translated code down to the LP / solve primitives; the side condition on the forbidden variables is discharged by the dispatcher's own first test |

`Print Assumptions`: `get_tlp_context_eq`, `solve_for_variables_eq`: closed under the global context; `context_reduction_eq` and
what follows from it use `TacticsFacts.solve_spec` / `get_kk_spec` / `get_tlp_spec` (real arithmetic: the two allow-listed
standard-library axioms).  Compile times: `TlpGenFacts.v` 5.4 s, every other new file < 2 s.

Preconditions and why (each with an `Example`):
* `list_intersection vs (term_vars_p term) <> []` — §4.1, a difference between the hand model and the Python
  (`get_tlp_context_no_forbidden_var`);
* `slack_fits` — §4.2 (`get_tlp_context_long_slack`);
* `wft term`, `Forall wft ctx` — an association list with a repeated key denotes no Python dict: `term.copy()` and
  `substitute_variable` build dicts item by item and merge the repeated key, the hand model's `map` / `filter` keep both
  entries (`context_reduction_repeated_key`: both for the term and for a context row);
* further Examples: `get_tlp_context_transpose` (the rows `x + y <= 2`, `y <= 1`, the term `x + 3y`: the transposed system
  gives the multipliers `(1, 2)`, the un-transposed one `(-2, 3)`), `solve_for_variables_inconsistent` (the model of
  `sympy.solve` answers `[]`, on which `.keys()` raises: the guard `len(sols) > 0` matters).

## 3. Python / numpy / sympy semantics that are approximated (each is also an `assumption:` line and in the generated header)

* everything listed in `docs/LPGEN_REPORT.md` §3 (exact rationals for floats, `A1` / `A2` arrays, in-place updates of fresh
  objects as rebinding, `res[...]` as record fields, messages dropped / types kept, the ghost column names of `linprog`);
* `np.linalg.solve`, `np.isclose` on an array, and the sympy round trip are NAMED PRIMITIVES (§1); what is proved is equality
  with the hand model when they are instantiated with the hand model's functions.  In particular: `np.isclose(slack, 0)` is
  `|s| <= 1/10^8` (numpy: `|s| <= 1e-08` the double, `1.00000000000000002e-08`); `np.linalg.solve` is exact, numpy's is an LU
  factorisation in floats which raises LinAlgError only on an exactly zero pivot — measured (numpy 2.5.3): of 269 exactly
  singular integer matrices of size 1-4 with entries in [-3, 3], 6 are NOT reported singular (multipliers of the order 1e16
  are returned and the sign check decides on them); all 2731 non-singular ones agree with the exact solution to 1e-9;
* `np.linalg.LinAlgError` is its own error kind `Escape "LinAlgError"`; in numpy it is a subclass of ValueError.  The model has
  no subclass relation between kinds, so `np.linalg.solve` is accepted only directly inside `try ... except
  np.linalg.LinAlgError` (mutation A12 is rejected); checked on numpy: 1-D `a`, non-square `a`, singular `a` raise LinAlgError,
  a `b` of another length raises ValueError, `np.isclose(None, 0)` raises TypeError;
* an index array is the list of its entries; `a *= k` on a fresh unaliased array is `a := np_scale a k`;
* `sympy.solve` on these square linear systems is taken to return `[]` (a list: inconsistent) or a mapping Symbol ->
  expression (for a dependent, consistent system: the pivot unknowns in terms of the others, which is what `gauss_solve`
  returns as well); sympy itself is not modelled;
* an int literal assigned to a local (`terms_added = 0`) is typed as a count when a comparison of that local with a count
  fixes it (`terms_added == num_vars_to_elim`).

## 4. Discrepancies between the hand model and the Python

1. **A term that mentions no variable to eliminate (strategy 5).**  Reproduced on the real library
   (`PYTHONPATH=/repo/src /venv/bin/python`, `pacti.__file__` under /repo/src): `term = z <= 3`,
   `context = [x <= 5, -x <= 0]`, `vars_to_elim = [x]`, either direction:
   `PolyhedralTermList._get_tlp_context(term, context, [x], True)` raises `ValueError("Context rows are not independent")` and
   `_context_reduction(term, context, [x], True, 5)` raises `ValueError("Could not transform term 1.0*z <= 3.0")`:
   `forbidden_vars = []`, the LP (objective 0) is solved, `num_vars_to_elim = 0`, no row is selected, `row_matrix = np.array([])`
   is a 1-D array and `np.linalg.solve` raises `LinAlgError: 1-dimensional array given`.  `model/Tactics.v:get_tlp_context`
   solves the empty multiplier system and returns `([], [])`; `context_reduction ... 5` then returns a copy of the term and
   `tactic_5` answers `(Some (z <= 3), 1)`.  The generated text agrees with the library
   (`TlpGenContext.v:get_tlp_context_no_forbidden_var`, both sides by `vm_compute`).  Not reachable through the public
   API: `_transform_term` raises before any tactic when the term shares no variable with `vars_to_elim`, and tactic 3 calls
   strategy 1.  The hand model was not changed; the equality is proved under `list_intersection vs (term_vars_p term) <> []`,
   which `transform_term_closed_gen` discharges from the dispatcher's own test.  Consequence for `TermListGen*.v`: the
   parametric theorems of `TermListGenElim.v` ask the tactic table to agree with `run_tactic` on EVERY well-formed term
   (`HT`), which the translated table does not on such a term — so `_transform` and the two wrappers are closed over the
   translated `_context_reduction` only up to `_transform_term` (§5).
2. **More slacks than rows.**  The oracle type allows `LpOpt f s` with `length s > length rows`; `linprog` never answers so.
   The code indexes `context.terms` with the position of the extra active slack (IndexError), the hand model zips rows with
   slacks (`get_tlp_context_long_slack`).  Precondition `slack_fits`; `lp_spec` says nothing about the length of the slack.
3. Outside the constructor invariant: a repeated key in the term or in a context row (`context_reduction_repeated_key`).
   A stored zero coefficient makes NO difference here (`wft`, not `wft'`, is what is asked).
4. No other difference was found: objective, sign flip, status handling, both "insufficient information" errors, the
   selection order and its cut-off, the transposed multiplier system, both sign checks, the strategy dispatch, the order of
   the unknowns, the error kinds and the order of the substitutions agree on every input.

## 5. Coverage of the requested list

Covered: `_get_tlp_context` (whole function), `_context_reduction` (whole function), `solve_for_variables` (everything around
the sympy calls), the loop with `proofs/TermListGen*.v` closed for tactics 1, 3, 5, the table `TACTICS` and `_transform_term`.
Not done: `_transform`, `elim_vars_by_refining`, `elim_vars_by_relaxing` over `poly_prims_gen O` (their parametric theorems need
the table to agree with `run_tactic` unconditionally, see §4.1; the existing `_closed` theorems over `poly_prims O` are
untouched and, by `poly_prims_context_reduction_generated`, already speak about the generated `_context_reduction` wherever
the term mentions an eliminated variable); `PolyhedralTerm.to_symbolic` / `to_term` and sympy itself stay inside the
primitives (pinned by a digest); the new equalities are not restated as `C04_code_*` theorems in `props/`; DESIGN.md is not
updated.

## 6. Sensitivity experiment

Each row is one edit of `src/pacti/terms/polyhedra/polyhedra.py` applied to a scratch copy of `/repo/src`; the translator is
run into a scratch copy of `coq/` and `proofs/TlpGenFacts.vo` (which requires every group file) is rebuilt with `make -k`
(every `coqc` under `timeout 600`).  A *semantic* edit must be rejected by the translator or break an equality proof; a
*harmless* rewrite must still translate and prove.  The outcome names the theorem whose proof script stops compiling and says
whether the generated text (sha line excluded) differs from the original's.  `S1` is the seeded change
`seeded/C04-tlp-transposed` verbatim, `A*` further small semantic edits, `H*` harmless rewrites.

"""


def sh(cmd, cwd=None, timeout=3600):
    p = subprocess.run(cmd, cwd=cwd, stdout=subprocess.PIPE, stderr=subprocess.STDOUT, text=True, timeout=timeout)
    return p.returncode, p.stdout


def rename_in(text, start_marker, end_marker, renames):
    a = text.index(start_marker)
    b = text.index(end_marker, a + len(start_marker))
    seg = text[a:b]
    for old, new in renames:
        seg2 = re.sub(r"\b" + re.escape(old) + r"\b", new, seg)
        assert seg2 != seg, (old, start_marker)
        seg = seg2
    return text[:a] + seg + text[b:]


def apply_edit(text, ident, pairs):
    if ident == "H1":
        return rename_in(text, "    def _get_tlp_context(", "    @staticmethod\n    def _tactic_5(",
                         [("matrix_row_terms", "picked"), ("terms_added", "count"), ("indices", "active")])
    if ident == "H6":
        return rename_in(text, "    def solve_for_variables(", "class PolyhedralTermList(TermList):",
                         [("exprs", "equations"), ("vars_to_solve_symb", "unknowns")])
    for old, new in pairs:
        assert text.count(old) == 1, (ident, old, text.count(old))
        text = text.replace(old, new, 1)
    return text


def all_errors(log):
    out = []
    for m in re.finditer(r'File "\./([^"]+)", line (\d+), characters [^\n]*\n(Error:.*?)(?=\nmake|\nFile "|\nCOQC|\Z)', log, re.S):
        msg = " ".join(m.group(3).split())
        k = re.search(r"Unable to unify|Impossible to unify|The term|Found no subterm|Tactic failure|No such|Cannot|Not an inductive|"
                      r"Wrong|Illegal|The reference|Unable to find|No matching|Tactic generated|Not a discriminable|No applicable|"
                      r"Attempt to save|Not convertible", msg)
        out.append((m.group(1), int(m.group(2)), ("Error: " + msg[k.start():] if k else msg)[:170]))
    return out


def enclosing(vfile, line):
    name = "?"
    for i, l in enumerate(open(vfile), 1):
        m = re.match(r"\s*(?:Theorem|Lemma|Corollary|Example|Definition|Fixpoint)\s+([\w']+)", l)
        if m:
            name = m.group(1)
        if i >= line:
            break
    return name


def main(verif, repo, scratch, report=None, keep=False, only=None):
    if os.path.exists(scratch):
        shutil.rmtree(scratch)
    os.makedirs(scratch)
    coq = os.path.join(scratch, "coq")
    shutil.copytree(os.path.join(verif, "coq"), coq, ignore=shutil.ignore_patterns("cases"), copy_function=shutil.copy2)
    orig = open(os.path.join(repo, REL)).read()
    rows = []
    baseline = {}

    def gen_text():     # generated text without the sha256 line of the header
        return "".join(l for l in open(os.path.join(coq, "gen", GEN)) if "sha256" not in l)

    def run(ident, kind, desc, pairs):
        tree = os.path.join(scratch, "repo")
        if os.path.exists(tree):
            shutil.rmtree(tree)
        shutil.copytree(os.path.join(repo, "src"), os.path.join(tree, "src"))
        if ident != "ORIG":
            text = apply_edit(orig, ident, pairs)
            with open(os.path.join(tree, REL), "w") as fh:
                fh.write(text)
            rc, out = sh([PY, "-c", f"import ast; ast.parse(open({os.path.join(tree, REL)!r}).read())"])
            assert rc == 0, out
        rc, out = sh([PY, os.path.join(verif, "translator", "py2coq.py"), tree, os.path.join(coq, "gen")])
        msg = [l for l in out.splitlines() if l.startswith("TRANSLATOR-UNSUPPORTED")]
        other = [l for l in msg if f"[{GEN}]" not in l]
        if rc != 0 or msg:
            mine = [l for l in msg if f"[{GEN}]" in l]
            res = ("translator rejects" + (" (other generators too)" if other else ""),
                   (mine or msg or [out.strip()[-200:]])[0][:300])
            passed = False
        else:
            if ident == "ORIG":
                baseline["t"] = gen_text()
            changed = gen_text() != baseline["t"]
            rc2, log = sh(["make", "-k", "-j8", "COQC=timeout 600 coqc"] + TARGETS, cwd=coq)
            if rc2 == 0:
                res = ("translates; all equality proofs COMPILE", "")
                passed = True
            else:
                errs = all_errors(log)
                if errs:
                    names = [f"`{enclosing(os.path.join(coq, f), line)}` ({f}:{line})" for f, line, _ in errs]
                    res = ("translates; proof FAILS: " + ", ".join(names), errs[0][2])
                else:
                    res = ("translates; build FAILS", log.strip()[-200:])
                passed = False
            res = (res[0] + (" [generated text differs from the original's]" if changed else ""), res[1])
        ok = (passed == (kind in ("harmless", "original")))
        rows.append((ident, kind, desc, res[0], res[1], ok))
        print(f"{ident} [{kind}] {desc}\n    -> {res[0]} {res[1]}\n    {'as expected' if ok else 'UNEXPECTED'}", flush=True)

    run("ORIG", "original", "unmodified /repo/src", None)
    for ident, kind, desc, pairs in EDITS:
        if only and ident not in only:
            continue
        run(ident, kind, desc, pairs)
    run("ORIG", "original", "unmodified /repo/src again (after all edits)", None)
    bad = [r for r in rows if not r[5]]
    if report:
        with open(report, "w") as fh:
            fh.write(PREAMBLE)
            sem = [r for r in rows if r[1] == "semantic"]
            fh.write(f"Summary: {len(sem)} semantic edits — {sum('proof FAILS' in r[3] for r in sem)} break an equality "
                     f"proof, {sum('translator rejects' in r[3] for r in sem)} are rejected by the translator, "
                     f"{sum('COMPILE' in r[3] for r in sem)} pass unnoticed; "
                     f"{sum(r[1] == 'harmless' for r in rows)} harmless rewrites — "
                     f"{sum(r[1] == 'harmless' and 'COMPILE' in r[3] for r in rows)} still translate and prove.  "
                     f"Unexpected outcomes: {len(bad)}.\n\n")
            fh.write("| id | kind | edit | outcome | first error |\n|---|---|---|---|---|\n")
            for ident, kind, desc, res, err, ok in rows:
                fh.write(f"| {ident} | {kind} | {desc} | {res} | {err.replace('|', '/')} |\n")
    tree = os.path.join(scratch, "repo")
    if os.path.exists(tree):
        shutil.rmtree(tree)          # the scratch SOURCE tree is always removed
    if not keep:
        shutil.rmtree(scratch)
    print("unexpected outcomes:", len(bad))
    return 1 if bad else 0


if __name__ == "__main__":
    argv = sys.argv[1:]
    only = None
    if "--only" in argv:
        i = argv.index("--only")
        only = set(argv[i + 1].split(","))
        del argv[i:i + 2]
    args = [a for a in argv if a != "--keep"]
    sys.exit(main(*args, keep="--keep" in argv, only=only))
