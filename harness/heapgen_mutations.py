#!/usr/bin/env python3
"""heapgen_mutations.py -- does the heap purity theorem (C13) notice in-place edits of the source?

For every mutant: copy /repo/src to a scratch directory under /tmp (removed afterwards), apply ONE textual edit (the
pattern must occur exactly once), regenerate HeapGen.v with translator/py2coq_heap.py into a scratch Coq directory
holding coq/base/PyHeap.vo (and, when they are there and compile on the unchanged tree, coq/proofs/PyHeapFacts.vo +
coq/proofs/HeapGenFacts.v; otherwise a stand-in with just `pacti_prog_checked`), and compile under `timeout`.

  * purity-breaking edits   : expected  REJECTED  = the extractor raises Unsupported, or the theorem does not compile
  * impure-self edits (a method so far pure stores on the top cell of self): the extractor can only flip the claim
    mutates_self to true; expected REJECTED when HeapGenFacts.v states pacti_public_ops_pure, otherwise FLAGGED (= compiles,
    and the flipped claim is reported)
  * behaviour-preserving edits: expected ACCEPTED = everything still compiles
Prints a table; exit status 0 iff every mutant behaves as expected.   usage: heapgen_mutations.py [-j N] [name ...]
"""
import concurrent.futures
import os
import re
import shutil
import subprocess
import sys
import tempfile

HERE = os.path.dirname(os.path.abspath(__file__))
VERIF = os.path.dirname(HERE)
REPO = os.environ.get("PACTI_REPO", "/repo")
PY = "/venv/bin/python" if os.path.exists("/venv/bin/python") else sys.executable
EXTRACTOR = os.path.join(VERIF, "translator", "py2coq_heap.py")
COQ_TIMEOUT = 600

IO = "iocontract/iocontract.py"
POLY = "terms/polyhedra/polyhedra.py"
SER = "terms/polyhedra/serializer.py"
GRAM = "terms/polyhedra/syntax/grammar.py"
PIO = "contracts/polyhedral_iocontract.py"
LISTS = "utils/lists.py"

STANDIN = """Require Import String List Bool. Require Import PyHeap HeapGen. Import ListNotations.
Theorem pacti_prog_checked : check_prog pacti_prog = true. Proof. vm_compute. reflexivity. Qed.
"""
FAILING = """Require Import String List Bool. Require Import PyHeap HeapGen. Import ListNotations.
Eval vm_compute in (failing pacti_prog).
"""

# (name, kind, file, old, new, what)
MUTANTS = [
    ("M01-alias-then-reverse", "impure", POLY, "        ts = self.terms.copy()\n",
     "        ts = self.terms\n        ts.reverse()\n", "to_str_list: alias instead of copy, then an in-place reverse"),
    ("M02-rename-removes-from-operand", "impure", IO,
     "        inputvars = self.inputvars.copy()\n        outputvars = self.outputvars.copy()\n        assumptions = self.a.copy()\n"
     "        guarantees = self.g.copy()\n        if source_var != target_var:",
     "        inputvars = self.inputvars\n        outputvars = self.outputvars.copy()\n        assumptions = self.a.copy()\n"
     "        guarantees = self.g.copy()\n        if source_var != target_var:",
     "IoContract.rename_variable: `inputvars.remove(...)` / item store now hit the operand's list"),
    ("M03-module-list-reversed", "impure", POLY, "            tactics_order = TACTICS_ORDER\n        term_list = list(self.terms)\n",
     "            tactics_order = TACTICS_ORDER\n        TACTICS_ORDER.reverse()\n        term_list = list(self.terms)\n",
     "_transform: module-level TACTICS_ORDER mutated"),
    ("M04-or-extends-other", "impure", IO, "        return type(self)(list_union(self.copy().terms, other.copy().terms))\n",
     "        other.terms.extend(self.terms)\n        return type(self)(list_union(self.copy().terms, other.copy().terms))\n",
     "TermList.__or__: other.terms.extend(...)"),
    ("M05-parse-action-negates-in-place", "impure", GRAM, "    if sign == \"-\":\n        return tl.negate()\n    return tl\n",
     "    if sign == \"-\":\n        for k in tl.factors:\n            tl.factors[k] = -tl.factors[k]\n        return tl\n    return tl\n",
     "_parse_signed_term: scales the parsed object's dict in place (a parse action that is NOT on the excluded list)"),
    ("M06-init-sorts-argument", "impure", IO, "        self.inputvars = input_vars.copy()\n",
     "        input_vars.sort(key=str)\n        self.inputvars = input_vars.copy()\n", "IoContract.__init__: input_vars.sort()"),
    ("M07-del-on-operand", "impure", POLY, "            that = self.copy()\n            that.variables.pop(var)\n            return that\n",
     "            del self.variables[var]\n            return self.copy()\n", "remove_variable: del self.variables[var]"),
    ("M08-simplify-appends-to-context", "impure", POLY, "            new_self = self - context\n",
     "            new_self = self - context\n            context.terms.append(new_self)\n", "simplify: context.terms.append(...)"),
    ("M09-merge-stores-into-other", "impure", IO, "        guarantees = self.g | other.g\n        return type(self)(assumptions, guarantees, input_vars, output_vars)\n",
     "        guarantees = self.g | other.g\n        other.inputvars = input_vars\n        return type(self)(assumptions, guarantees, input_vars, output_vars)\n",
     "merge: attribute store into `other`"),
    ("M10-slice-dropped-operand-list-mutated", "impure", SER, "    ts = terms[1:]\n", "    ts = terms\n",
     "polyhedral_term_list_to_strings: `ts.remove(tn)` now removes from the caller's list"),
    ("M11-list-union-in-place", "impure", LISTS, "    return list1 + [el for el in list2 if (el not in list1)]\n",
     "    list1.extend([el for el in list2 if (el not in list1)])\n    return list1\n", "list_union extends its first argument"),
    ("M12-term-rename-without-copy", "impure", POLY, "        new_term = self.copy()\n        if source_var in self.vars:\n",
     "        new_term = self\n        if source_var in self.vars:\n", "PolyhedralTerm.rename_variable writes into self.variables"),
    ("M13-impure-str", "impure", POLY, "        res = \"[\\n  \"\n", "        self.terms.sort(key=str)\n        res = \"[\\n  \"\n",
     "PolyhedralTermList.__str__ sorts self.terms in place"),
    ("M14-to-machine-dict-pops", "impure", PIO, "            for term in self.g.terms\n        ]\n",
     "            for term in self.g.terms\n        ]\n        self.g.terms.clear()\n", "to_machine_dict clears the guarantees"),
    ("M15-setattr", "impure", IO, "        guarantees = self.g | other.g\n        return type(self)(assumptions, guarantees, input_vars, output_vars)\n",
     "        guarantees = self.g | other.g\n        setattr(other, \"merged\", True)\n        return type(self)(assumptions, guarantees, input_vars, output_vars)\n",
     "merge: setattr on an operand (outside the subset: the extractor must refuse)"),
    ("M16-returned-alias-mutated-by-caller", "impure", IO, "        return type(self)(list_diff(self.copy().terms, other.copy().terms))\n",
     "        mine = self.terms\n        mine.remove(other.terms[0])\n        return type(self)(mine)\n",
     "TermList.__sub__: the operand's own list is edited and handed to the constructor"),
    ("M17-pure-method-stores-on-self", "impure-self", IO,
     "        guarantees = self.g | other.g\n        return type(self)(assumptions, guarantees, input_vars, output_vars)\n",
     "        guarantees = self.g | other.g\n        self.inputvars = input_vars\n        return type(self)(assumptions, guarantees, input_vars, output_vars)\n",
     "merge: attribute store on self -- the extractor can only claim mutates_self=true; rejected by pacti_public_ops_pure of HeapGenFacts.v"),
    ("M18-store-into-var", "impure", IO, "        if source_var != target_var:\n            if source_var in inputvars:\n",
     "        if source_var != target_var:\n            source_var._name = target_var.name\n            if source_var in inputvars:\n",
     "rename_variable: writes the name of a Var operand (Var is modelled as immutable: the extractor must refuse)"),
    ("M19-global-statement", "impure", LISTS, "    return [el for el in list1 if el in list2]\n",
     "    global CALLS\n    CALLS = 1\n    return [el for el in list1 if el in list2]\n", "list_intersection: `global` (outside the subset)"),
    ("M20-augassign-on-operand-list", "impure", IO, "        return type(self)(list_intersection(self.copy().terms, other.copy().terms))\n",
     "        acc = other.terms\n        acc += self.terms\n        return type(self)(list_intersection(self.copy().terms, other.copy().terms))\n",
     "TermList.__and__: `acc += ...` on an alias of the operand's list (in-place list extension)"),
    ("P01-extra-local-copy", "pure", POLY, "        ts = self.terms.copy()\n", "        ts = list(self.terms.copy())\n", "to_str_list: one more copy"),
    ("P02-loop-to-comprehension", "pure", IO,
     "        terms = []\n        for t in self.terms:\n            if list_intersection(t.vars, variable_list):\n                terms.append(t)\n",
     "        terms = [t for t in self.terms if list_intersection(t.vars, variable_list)]\n", "get_terms_with_vars as a comprehension"),
    ("P03-renamed-local", "pure", POLY, "            that = self.copy()\n            that.variables.pop(var)\n            return that\n",
     "            shorter = self.copy()\n            shorter.variables.pop(var)\n            return shorter\n", "remove_variable: local renamed"),
    ("P04-added-pure-helper", "pure", LISTS, "    return list1 + [el for el in list2 if (el not in list1)]\n",
     "    return list1 + _missing(list1, list2)\n\n\ndef _missing(list1: List[Any], list2: List[Any]) -> List[Any]:\n"
     "    return [el for el in list2 if (el not in list1)]\n", "list_union through a new pure helper"),
    ("P05-reordered-statements", "pure", IO,
     "        inputvars = self.inputvars.copy()\n        outputvars = self.outputvars.copy()\n        assumptions = self.a.copy()\n"
     "        guarantees = self.g.copy()\n        return type(self)",
     "        guarantees = self.g.copy()\n        assumptions = self.a.copy()\n        outputvars = self.outputvars.copy()\n"
     "        inputvars = self.inputvars.copy()\n        return type(self)", "IoContract.copy: independent statements reordered"),
    ("P06-extra-temporary-list", "pure", IO, "        self.inputvars = input_vars.copy()\n",
     "        tmp_inputs = [v for v in input_vars]\n        self.inputvars = tmp_inputs.copy()\n", "IoContract.__init__: an extra fresh list"),
    ("P07-local-copy-then-sort", "pure", IO, "        self.inputvars = input_vars.copy()\n",
     "        ordered = input_vars.copy()\n        ordered.reverse()\n        ordered.reverse()\n        self.inputvars = ordered\n",
     "IoContract.__init__: in-place operations on a LOCAL copy"),
]


def run(cmd, cwd=None, timeout=COQ_TIMEOUT):
    p = subprocess.run(["timeout", str(timeout)] + cmd, cwd=cwd, stdout=subprocess.PIPE, stderr=subprocess.STDOUT, text=True)
    return p.returncode, p.stdout


def prepare_coq_dir(d, facts):
    os.makedirs(d, exist_ok=True)
    shutil.copy(os.path.join(VERIF, "coq", "base", "PyHeap.vo"), d)
    if facts:
        shutil.copy(os.path.join(VERIF, "coq", "proofs", "PyHeapFacts.vo"), d)
        shutil.copy(os.path.join(VERIF, "coq", "proofs", "HeapGenFacts.v"), d)


def claims_of(path):
    """{function: (mutates_self, result)} read back from a generated HeapGen.v"""
    out, cur = {}, None
    for line in open(path):
        m = re.match(r"\(\* (\S+)  \[", line)
        if m:
            cur = m.group(1)
        m = re.match(r"  (true|false) (\w+)\.$", line)
        if m and cur:
            out[cur] = (m.group(1), m.group(2))
    return out


BASE_CLAIMS = {}


def evaluate(src_root, facts, workdir):
    """regenerate + compile; -> (verdict, how) with verdict in ACCEPTED / REJECTED / ERROR"""
    coq = os.path.join(workdir, "coq")
    prepare_coq_dir(coq, facts)
    rc, out = run([PY, EXTRACTOR, src_root, os.path.join(coq, "HeapGen.v")], timeout=300)
    if rc != 0:
        m = re.search(r"Unsupported: (.*)", out)
        if m:
            return "REJECTED", "extractor refuses: " + m.group(1)[:150]
        return "ERROR", "extractor crashed: " + out[-300:]
    cl = claims_of(os.path.join(coq, "HeapGen.v"))
    if not BASE_CLAIMS:
        BASE_CLAIMS.update(cl)
    flipped = sorted(f for f, c in cl.items() if f in BASE_CLAIMS and BASE_CLAIMS[f][0] == "false" and c[0] == "true")
    note = f"; mutates_self flipped to true: {flipped}" if flipped else ""
    rc, out = run(["coqc", "-Q", ".", "", "HeapGen.v"], cwd=coq)
    if rc != 0:
        return "ERROR", "HeapGen.v does not compile: " + out[-300:]
    with open(os.path.join(coq, "HgFailing.v"), "w") as fh:
        fh.write(FAILING)
    rc, out = run(["coqc", "-Q", ".", "", "HgFailing.v"], cwd=coq)
    names = re.findall(r'"([^"]+)"', out) if rc == 0 else ["?"]
    thm = "HeapGenFacts.v" if facts else "HgStandin.v"
    if not facts:
        with open(os.path.join(coq, thm), "w") as fh:
            fh.write(STANDIN)
    rc, out = run(["coqc", "-Q", ".", "", thm], cwd=coq)
    if rc == 0:
        return ("FLAGGED" if flipped else "ACCEPTED"), f"{thm} compiles; failing = {names}{note}"
    return "REJECTED", f"{thm} does not compile; checker rejects: " + (", ".join(names) or "nothing (a later theorem of the file fails)") + note


def one(mut, facts):
    name, kind, rel, old, new, what = mut
    work = tempfile.mkdtemp(prefix="hgmut_", dir="/tmp")
    try:
        root = os.path.join(work, "repo")
        shutil.copytree(os.path.join(REPO, "src"), os.path.join(root, "src"))
        if rel is not None:
            path = os.path.join(root, "src", "pacti", rel)
            txt = open(path).read()
            if txt.count(old) != 1:
                return name, kind, "ERROR", f"pattern found {txt.count(old)} times in {rel}"
            with open(path, "w") as fh:
                fh.write(txt.replace(old, new))
        verdict, how = evaluate(root, facts, work)
        return name, kind, verdict, how
    finally:
        shutil.rmtree(work, ignore_errors=True)


def main(argv):
    jobs = 8
    if argv[:1] == ["-j"]:
        jobs, argv = int(argv[1]), argv[2:]
    muts = [m for m in MUTANTS if not argv or m[0] in argv or m[0].split("-")[0] in argv]
    facts = all(os.path.exists(os.path.join(VERIF, "coq", "proofs", f)) for f in ("PyHeapFacts.vo", "HeapGenFacts.v"))
    base = one(("BASELINE-unchanged", "pure", None, "", "", "the unchanged source"), facts)
    if base[2] != "ACCEPTED" and facts:
        print(f"note: coq/proofs/HeapGenFacts.v does not compile on the unchanged tree in a scratch directory ({base[3][:200]});"
              " falling back to the stand-in theorem")
        facts = False
        base = one(("BASELINE-unchanged", "pure", None, "", "", "the unchanged source"), facts)
    rows = [base + ("the unchanged source",)]
    with concurrent.futures.ThreadPoolExecutor(max_workers=jobs) as ex:
        futs = {ex.submit(one, m, facts): m for m in muts}
        res = {}
        for f in concurrent.futures.as_completed(futs):
            res[futs[f][0]] = f.result() + (futs[f][5],)
    rows += [res[m[0]] for m in muts]
    ok = True
    public = facts and "pacti_public_ops_pure" in open(os.path.join(VERIF, "coq", "proofs", "HeapGenFacts.v")).read()
    print(f"theorem file used: {'coq/proofs/HeapGenFacts.v' if facts else 'stand-in pacti_prog_checked'}")
    print("| mutant | kind | edit | expected | observed | how detected |")
    print("|---|---|---|---|---|---|")
    for name, kind, verdict, how, what in rows:
        exp = "REJECTED" if kind == "impure" else ("ACCEPTED" if kind == "pure" else ("REJECTED" if public else "FLAGGED"))
        good = verdict == exp
        ok = ok and good
        print(f"| {name} | {kind} | {what} | {exp} | {verdict}{'' if good else '  <-- UNEXPECTED'} | {how.replace('|', '/')} |")
    print("ALL AS EXPECTED" if ok else "SOME MUTANTS NOT AS EXPECTED")
    return 0 if ok else 1


if __name__ == "__main__":
    sys.exit(main(sys.argv[1:]))
