#!/usr/bin/env python3
"""Cross-check of the numpy / scipy vocabulary of coq/base/PyNumpy.v and of the linprog input validation of
proofs/PolyGenBase.v:oracle_linprog against the real libraries.

The Coq primitives are mirrored here by hand (same case analysis, same error kinds) and run next to numpy / scipy on
random small shapes, including the degenerate ones (no row, no column, 1-D vs 2-D).  What is compared: the resulting
SHAPE and entries, or the exception TYPE.  An Escape "NumpyShape" of the model (the model declines to follow) is
reported separately and never counted as agreement.

usage: lpgen_numpy_check.py [n_cases] [seed]
"""
import random
import sys
import warnings

import numpy as np
from scipy.optimize import linprog


class Err(Exception):
    def __init__(self, kind):
        self.kind = kind


# ---- the model: ("A1", v) | ("A2", m, rows)
def to_model(a):
    if a.ndim == 1:
        return ("A1", [float(x) for x in a])
    return ("A2", a.shape[1], [[float(x) for x in r] for r in a])


def same(model, arr):
    if model[0] == "A1":
        return arr.ndim == 1 and list(map(float, arr)) == model[1]
    return arr.ndim == 2 and arr.shape == (len(model[2]), model[1]) and [list(map(float, r)) for r in arr] == model[2]


def np_array_2d(l):
    if not l:
        return ("A1", [])
    if all(len(r) == len(l[0]) for r in l):
        return ("A2", len(l[0]), [list(r) for r in l])
    raise Err("ValueError")


def np_shape(a):
    return [len(a[1])] if a[0] == "A1" else [len(a[2]), a[1]]


def py_unpack2(l):
    if len(l) == 2:
        return tuple(l)
    raise Err("ValueError")


def list_get(l, i):
    if i < len(l):
        return l[i]
    raise Err("IndexError")


def np_row(a, i):
    if a[0] == "A2":
        return ("A1", list(list_get(a[2], i)))
    raise Err("IndexError")


def np_item(a, i):
    if a[0] == "A1":
        return list_get(a[1], i)
    list_get(a[2], i)
    raise Err("NumpyShape")


def np_row_list(a, i):
    if a[0] == "A2":
        return list(list_get(a[2], i))
    list_get(a[1], i)
    raise Err("TypeError")


def np_rows(a, idx):
    if a[0] == "A2":
        return ("A2", a[1], [list(list_get(a[2], i)) for i in idx])
    raise Err("IndexError")


def np_setitem(a, i, x):
    if a[0] == "A1":
        list_get(a[1], i)
        v = list(a[1])
        v[i] = x
        return ("A1", v)
    list_get(a[2], i)
    rows = [list(r) for r in a[2]]
    rows[i] = [x] * a[1]
    return ("A2", a[1], rows)


def np_delete_axis0(a, i):
    if a[0] == "A1":
        if i < len(a[1]):
            return ("A1", a[1][:i] + a[1][i + 1:])
        raise Err("IndexError")
    if i < len(a[2]):
        return ("A2", a[1], a[2][:i] + a[2][i + 1:])
    raise Err("IndexError")


def np_delete_flat(a, i):
    v = a[1] if a[0] == "A1" else [x for r in a[2] for x in r]
    if i < len(v):
        return ("A1", v[:i] + v[i + 1:])
    raise Err("IndexError")


def np_concatenate(a, b):
    if a[0] == "A1" and b[0] == "A1":
        return ("A1", a[1] + b[1])
    if a[0] == "A2" and b[0] == "A2" and a[1] == b[1]:
        return ("A2", a[1], a[2] + b[2])
    raise Err("ValueError")


def lp_squeeze(a):
    if a[0] == "A1":
        return a[1]
    if len(a[2]) == 1:
        return a[2][0]
    if a[1] == 1:
        return [x for r in a[2] for x in r]
    return None


def linprog_validates(c, a, b):
    """True when oracle_linprog reaches the oracle, False when it raises ValueError"""
    cv = lp_squeeze(c)
    if cv is None or not cv:
        return False
    if a[0] == "A1" or a[1] != len(cv):
        return False
    bv = lp_squeeze(b)
    return bv is not None and len(bv) == len(a[2])


# ---- random shapes
def rnd_array(rng):
    k = rng.random()
    if k < 0.35:
        return np.array([float(rng.randint(-3, 3)) for _ in range(rng.randint(0, 3))])
    n, m = rng.randint(0, 3), rng.randint(0, 3)
    return np.array([[float(rng.randint(-3, 3)) for _ in range(m)] for _ in range(n)]).reshape(n, m)


def outcome(thunk):
    try:
        with warnings.catch_warnings():
            warnings.simplefilter("ignore")
            return ("ok", thunk())
    except Err as e:
        return ("err", e.kind)
    except Exception as e:  # noqa: BLE001
        return ("err", type(e).__name__)


def agree(mo, ro, cmp):
    if mo[0] == "err" and mo[1] == "NumpyShape":
        return None
    if mo[0] != ro[0]:
        return False
    if mo[0] == "err":
        return mo[1] == ro[1]
    return cmp(mo[1], ro[1])


def main(n_cases=4000, seed=1):
    rng = random.Random(seed)
    stats, bad, declined = {}, [], {}

    def check(name, mo, ro, cmp, ctx):
        r = agree(mo, ro, cmp)
        if r is None:
            declined[name] = declined.get(name, 0) + 1
            return
        stats[name] = stats.get(name, 0) + 1
        if not r:
            bad.append((name, ctx, mo, ro))

    for _ in range(n_cases):
        a, b = rnd_array(rng), rnd_array(rng)
        ma, mb = to_model(a), to_model(b)
        i = rng.randint(0, 3)
        check("shape", outcome(lambda: np_shape(ma)), outcome(lambda: list(a.shape)), lambda x, y: x == y, (a.shape,))
        check("len", outcome(lambda: np_shape(ma)[0]), outcome(lambda: len(a)), lambda x, y: x == y, (a.shape,))
        check("unpack2", outcome(lambda: py_unpack2(np_shape(ma))), outcome(lambda: _unpack(a)),
              lambda x, y: tuple(x) == tuple(y), (a.shape,))
        check("a[i, :]", outcome(lambda: np_row(ma, i)), outcome(lambda: a[i, :]), same, (a.shape, i))
        check("a[i] as float", outcome(lambda: np_item(ma, i)), outcome(lambda: float(a[i]) if a.ndim == 1 else a[i]),
              lambda x, y: x == y, (a.shape, i))
        check("list(a[i])", outcome(lambda: np_row_list(ma, i)), outcome(lambda: list(map(float, list(a[i])))),
              lambda x, y: x == y, (a.shape, i))
        check("a[[i], :]", outcome(lambda: np_rows(ma, [i])), outcome(lambda: a[[i], :]), same, (a.shape, i))
        check("a[i] = x", outcome(lambda: np_setitem(ma, i, 7.0)), outcome(lambda: _set(a, i, 7.0)), same, (a.shape, i))
        check("delete(a, i, 0)", outcome(lambda: np_delete_axis0(ma, i)), outcome(lambda: np.delete(a, i, 0)), same, (a.shape, i))
        check("delete(a, i)", outcome(lambda: np_delete_flat(ma, i)), outcome(lambda: np.delete(a, i)), same, (a.shape, i))
        check("concatenate", outcome(lambda: np_concatenate(ma, mb)), outcome(lambda: np.concatenate((a, b), axis=0)), same,
              (a.shape, b.shape))
        rows = [[float(rng.randint(-2, 2)) for _ in range(rng.randint(0, 2))] for _ in range(rng.randint(0, 3))]
        check("np.array(rows)", outcome(lambda: np_array_2d(rows)), outcome(lambda: np.array(rows)), same, (rows,))
        c = rnd_array(rng)
        mc = to_model(c)
        check("linprog validation", outcome(lambda: linprog_validates(mc, ma, mb)),
              outcome(lambda: _lp_ok(c, a, b)), lambda x, y: x == y, (c.shape, a.shape, b.shape))
    print("compared:", dict(sorted(stats.items())))
    print("model declined (Escape NumpyShape):", dict(sorted(declined.items())))
    for name, ctx, mo, ro in bad[:20]:
        print("DISAGREE", name, ctx, "model:", mo, "library:", ro)
    print("disagreements:", len(bad))
    return 1 if bad else 0


def _unpack(a):
    n, m = a.shape
    return n, m


def _set(a, i, x):
    a2 = np.copy(a)
    a2[i] = x
    return a2


def _lp_ok(c, a, b):
    try:
        linprog(c=c, A_ub=a, b_ub=b, bounds=(None, None))
        return True
    except ValueError:
        return False


if __name__ == "__main__":
    sys.exit(main(*[int(x) for x in sys.argv[1:3]]))
