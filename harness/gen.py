"""Generators for polyhedral terms, term lists and contracts (every choice from one PRNG)."""
from __future__ import annotations

from fractions import Fraction as F

from pacti.iocontract import Var
from pacti.terms.polyhedra import PolyhedralTerm, PolyhedralTermList
from pacti.contracts import PolyhedralIoContract

VARS = ["x", "y", "z", "u", "v", "w"]
DYADIC = [F(1), F(-1), F(2), F(-2), F(1, 2), F(-1, 2), F(4), F(-4), F(3), F(-3), F(1, 4), F(3, 2), F(-3, 2)]
POW2 = [F(1), F(-1), F(2), F(-2), F(1, 2), F(-1, 2), F(4), F(-4)]
SMALLINT = [F(k) for k in (-3, -2, -1, 1, 2, 3)]


def mkterm(t):
    return PolyhedralTerm({Var(k): float(v) for k, v in t[0].items()}, float(t[1]))


def mktl(ts):
    return PolyhedralTermList([mkterm(t) for t in ts])


def mkcontract(c, simplify=False):
    return PolyhedralIoContract(assumptions=mktl(c["a"]), guarantees=mktl(c["g"]),
                                input_vars=[Var(v) for v in c["i"]], output_vars=[Var(v) for v in c["o"]],
                                simplify=simplify)


def rand_coef(rng, kind="dyadic"):
    if kind == "pow2":
        return rng.choice(POW2)
    if kind == "int":
        return rng.choice(SMALLINT)
    if kind == "float":
        return F(round(rng.uniform(-5, 5), rng.choice([1, 2, 3])))
    return rng.choice(DYADIC)


def rand_const(rng, kind="dyadic"):
    if kind == "float":
        return F(round(rng.uniform(-10, 10), rng.choice([1, 2, 3])))
    return F(rng.randint(-8, 8), rng.choice([1, 1, 1, 2, 4]))


def rand_lin(rng, vs, kind="dyadic", pmin=1, pmax=3, special=None, special_kind="pow2"):
    k = rng.randint(pmin, max(pmin, min(pmax, len(vs))))
    chosen = rng.sample(list(vs), k)
    out = {}
    for v in sorted(chosen, key=lambda _: rng.random()):
        out[v] = rand_coef(rng, special_kind if special and v in special else kind)
    return out


def rand_term(rng, vs, kind="dyadic", point=None, slack_max=4, **kw):
    lin = rand_lin(rng, vs, kind, **kw)
    if point is not None:
        val = sum(a * point.get(v, F(0)) for v, a in lin.items())
        c = val + F(rng.randint(0, 2 * slack_max), 2)
    else:
        c = rand_const(rng, kind)
    return (lin, c)


def rand_point(rng, vs):
    return {v: F(rng.randint(-6, 6), rng.choice([1, 1, 2])) for v in vs}


def rand_termlist(rng, vs, nmin=1, nmax=4, kind="dyadic", feasible=True, **kw):
    p = rand_point(rng, vs) if feasible else None
    return [rand_term(rng, vs, kind, point=p, **kw) for _ in range(rng.randint(nmin, nmax))]


def scaled(rng, t):
    k = rng.choice([F(2), F(1, 2), F(4), F(3)])
    return ({v: a * k for v, a in t[0].items()}, t[1] * k)


def combo(rng, ts, slack=F(0)):
    """a positive combination of terms of ts (a Farkas consequence), optionally weakened"""
    pick = rng.sample(ts, min(len(ts), rng.randint(1, 2)))
    lin, c = {}, F(0)
    for t in pick:
        k = rng.choice([F(1), F(2), F(1, 2)])
        for v, a in t[0].items():
            lin[v] = lin.get(v, F(0)) + k * a
        c += k * t[1]
    lin = {v: a for v, a in lin.items() if a != 0}
    return (lin, c + slack)


def with_redundancy(rng, ts, ctx):
    """plant duplicates, scalings, positive combinations, context-only consequences, nearly tight ones"""
    out = list(ts)
    for _ in range(rng.randint(0, 3)):
        r = rng.random()
        src = out if r < 0.7 or not ctx else out + ctx
        if not src:
            break
        if r < 0.2:
            t = rng.choice(out) if out else None
            if t:
                out.insert(rng.randint(0, len(out)), t)
        elif r < 0.4:
            out.insert(rng.randint(0, len(out)), scaled(rng, rng.choice(src)))
        elif r < 0.8:
            eps = rng.choice([F(0), F(0), F(1), F(1, 2 ** 10), F(1, 2 ** 20), F(1, 2 ** 30)])
            t = combo(rng, src, eps)
            if t[0]:
                out.insert(rng.randint(0, len(out)), t)
        else:
            t = combo(rng, ctx, F(0)) if ctx else None
            if t and t[0]:
                out.insert(rng.randint(0, len(out)), t)
    if ctx and rng.random() < 0.2:
        # the exact mirror (a negative multiple, constant included) of a context term: NOT redundant -- together they pin an
        # equality; sometimes shifted so that it is a plain opposite bound
        t = rng.choice(ctx)
        k = rng.choice([F(1), F(2), F(1, 2), F(3)])
        shift = rng.choice([F(0), F(0), F(0), F(1), F(2)])
        out.insert(rng.randint(0, len(out)), ({v: -k * a for v, a in t[0].items()}, -k * t[1] + k * shift))
    if out and rng.random() < 0.1:
        # two terms of very different scales over a variable of their own: a coefficient of 7.6e-6 that still matters at the edge
        # of the box next to one of 1024
        t = rng.choice(out)
        v0 = next(iter(t[0]))
        out.insert(rng.randint(0, len(out)), ({v0: t[0][v0], "s": F(rng.choice([1, -1]), rng.choice([2 ** 17, 2 ** 20]))}, t[1] + F(rng.randint(0, 2))))
        out.insert(rng.randint(0, len(out)), ({"t": F(1), "s": F(rng.choice([1024, -2048]))}, F(rng.randint(0, 3))))
    multi = [t for t in (ctx or []) if len(t[0]) >= 2]
    if multi and rng.random() < 0.2:
        # a near-copy of a context term (one coefficient larger by 8e-6 relative): NOT implied by the context -- the two differ
        # by about 8e-3 times the coefficient at the edge of the box
        t = rng.choice(multi)
        v = rng.choice(list(t[0]))
        out.insert(rng.randint(0, len(out)), ({**t[0], v: t[0][v] * (1 + F(1, 2 ** 17))}, t[1]))
    return out


def key_of(ts):
    return tuple((tuple(sorted(t[0].items())), t[1]) for t in ts)


def kaykobad_case(rng, refine, names=None):
    """A term over three (sometimes four) eliminated variables plus a kept one, and context rows forming a matrix with one
    dominant ("diagonal") eliminated variable per row and smaller couplings to the others: the territory of the Kaykobad
    test behind tactics 1 and 3, where the accumulated couplings of a column (not each row's alone) decide whether solving
    the rows as equalities bounds the term.  Returns (terms, context, eliminated, kept)."""
    names = list(names or VARS)
    n = 3 if (len(names) < 6 or rng.random() < 0.75) else 4
    elim, kept = names[:n], names[n:]
    tc = 1 if refine else -1
    dense = rng.random() < 0.6
    sg = [rng.choice([1, 1, -1]) for _ in range(n)]
    q = [F(rng.choice([1, 1, 2])) for _ in range(n)]
    term = {elim[j]: sg[j] * q[j] for j in range(n)}
    if kept and rng.random() < 0.8:
        term[kept[0]] = F(rng.choice([1, -1, 2]))
    if rng.random() < 0.4:
        # "sandwich": the rows chosen for the first and the last variable both lean on a middle one; each coupling alone is
        # below the term's coefficient, their sum is not -- only the ACCUMULATED column sum shows that the rows do not bound it
        mid = rng.randrange(n)
        a, b = rng.choice([(F(1, 2), F(1, 2)), (F(3, 4), F(1, 2)), (F(1, 2), F(3, 4)), (F(3, 4), F(3, 4)), (F(1, 4), F(1, 2)), (F(1, 4), F(3, 4))])
        outer = [j for j in range(n) if j != mid]
        lean = {outer[0]: a, outer[-1]: b}
        order_rows = [outer[0]] + [j for j in range(n) if j not in (outer[0], outer[-1])] + [outer[-1]]
        ctx = []
        for i in order_rows:
            d = rng.choice([F(1), F(1), F(2)])
            row = {elim[i]: F(tc * sg[i]) * d}
            if i in lean:
                row[elim[mid]] = F(tc * sg[mid]) * lean[i] * d * q[mid] / q[i]
            if kept:
                row[rng.choice(kept)] = F(rng.choice([1, -1]))
            ctx.append((row, F(rng.randint(0, 6))))
        return [(term, F(rng.randint(0, 8)))], ctx, elim, kept
    ctx = []
    for i in range(n):
        row = {elim[i]: F(tc * sg[i]) * rng.choice([F(1), F(1), F(2)])}
        for j in range(n):
            if j != i:
                c = rng.choice([F(0), F(1, 4), F(1, 2), F(1, 2), F(3, 4), F(3, 4), F(1)] if dense else [F(0), F(0), F(0), F(1, 4), F(1, 2), F(3, 4)])
                if c:
                    row[elim[j]] = F(tc * sg[j]) * c
        if kept and rng.random() < 0.85:
            row[rng.choice(kept)] = F(rng.choice([1, -1]))
        ctx.append((row, F(rng.randint(0, 6))))
    if rng.random() < 0.3:
        ctx.append(({elim[rng.randrange(n)]: F(tc * rng.choice([1, -1]))}, F(rng.randint(0, 6))))
    rng.shuffle(ctx)
    return [(term, F(rng.randint(0, 8)))], ctx, elim, kept
