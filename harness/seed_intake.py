#!/usr/bin/env python3
"""Confirm a seeded change delivered by a sub-agent and file it under /verif/seeded/<name>/.
   usage: seed_intake.py <name> <worktree> <outdir> <checks...>"""
import json
import os
import shutil
import subprocess
import sys

VERIF = os.path.dirname(os.path.dirname(os.path.abspath(__file__)))


def sh(cmd, env=None, cwd=None, timeout=1800):
    p = subprocess.run(cmd, shell=True, capture_output=True, text=True, env=env, cwd=cwd, timeout=timeout)
    return p.returncode, (p.stdout + p.stderr)


def main():
    name, wt, out = sys.argv[1:4]
    checks = sys.argv[4:]
    env = dict(os.environ)
    env.pop("PYTHONPATH", None)
    rec = {"name": name}
    rc, o = sh(f"cd {wt} && PYTHONPATH={wt}/src /venv/bin/python -m pytest -q -p no:cacheprovider --timeout=900 2>&1 | tail -1", env)
    rec["pytest_with_change"] = o.strip().splitlines()[-1] if o.strip() else ""
    rc0, o0 = sh(f"cd {out} && PACTI_SRC=/repo/src /venv/bin/python demo.py", env)
    rc1, o1 = sh(f"cd {out} && PACTI_SRC={wt}/src /venv/bin/python demo.py", env)
    rec["demo_on_repo_exit"] = rc0
    rec["demo_on_change_exit"] = rc1
    rec["demo_on_change_tail"] = o1.strip()[-400:]
    ok = ("144 passed" in rec["pytest_with_change"]) and rc0 == 0 and rc1 != 0
    rec["confirmed"] = ok
    print(json.dumps({k: rec[k] for k in ("pytest_with_change", "demo_on_repo_exit", "demo_on_change_exit", "confirmed")}))
    if not ok:
        return 1
    rc, o = sh(f"{sys.executable} {VERIF}/harness/seedtest.py {wt} {' '.join(checks)}", env, cwd=VERIF, timeout=3600)
    last = o.strip().splitlines()[-1]
    try:
        rec["checks"] = json.loads(last)
    except Exception:
        rec["checks"] = {"error": o[-800:]}
    print("checks:", {p: (v["exit"], v["keys"][:2]) for p, v in rec["checks"].items() if isinstance(v, dict)})
    dst = os.path.join(VERIF, "seeded", name)
    os.makedirs(dst, exist_ok=True)
    sh(f"git -C {wt} diff > {dst}/patch.diff")
    shutil.copy(os.path.join(out, "demo.py"), os.path.join(dst, "demo.py"))
    meta = {}
    try:
        meta = json.load(open(os.path.join(out, "meta.json")))
    except Exception:
        pass
    meta["confirmation"] = rec
    json.dump(meta, open(os.path.join(dst, "meta.json"), "w"), indent=1)
    return 0


if __name__ == "__main__":
    sys.exit(main())
