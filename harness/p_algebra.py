"""C05/C06 machinery on the algebra layer (iocontract.py):

* scripted cross-check of the T1 translation: real IoContract on SymTermList vs gen/AlgebraGen.v
  instantiated with model/Script.v, same script, outcomes compared exactly inside Coq;
* semantic search: real IoContract on a brute-force *sound* finite constraint domain; the
  obligations of C01/C02/C08 and the interface prescriptions of C06 are decided by enumeration
  of all behaviours.  This is the failing-input search for C05/C06 (and a validation of the
  theorem's reading of the code)."""
from __future__ import annotations

import itertools
import random

import coqfmt as cf
import common
import symdomain as sd
from pacti.iocontract import IoContract, Term, TermList, Var
from pacti.utils.errors import IncompatibleArgsError
from pacti.utils.lists import list_diff, list_intersection, list_union

POOL = ["u", "v", "w", "x", "y"]


def err_code(e):
    from pacti.utils import errors
    if isinstance(e, IncompatibleArgsError):
        return 1
    if isinstance(e, ValueError):
        return 2
    if isinstance(e, errors.PolyhedralSyntaxConvexException):
        return 4
    if isinstance(e, errors.PolyhedralSyntaxException):
        return 3
    if isinstance(e, errors.ContractFormatError):
        return 5
    return 6


# ------------------------------------------------------------------ scripted cross-check
def rand_subset(rng, xs, p=0.5):
    return [x for x in xs if rng.random() < p]


def gen_contract(rng, roles, next_id, shared_atoms):
    ins = [v for v, r in roles.items() if r == "i"]
    outs = [v for v, r in roles.items() if r == "o"]
    rng.shuffle(ins)
    rng.shuffle(outs)
    a, g = [], []
    for _ in range(rng.randint(0, 2)):
        vs = rand_subset(rng, ins, 0.6)
        a.append((next_id[0], vs))
        next_id[0] += 1
    for _ in range(rng.randint(0, 2)):
        vs = rand_subset(rng, ins + outs, 0.6)
        g.append((next_id[0], vs))
        next_id[0] += 1
    # occasionally share an atom with the other contract (same id, same vars) when admissible
    for (i, vs) in shared_atoms:
        if rng.random() < 0.5 and all(v in ins for v in vs):
            a.append((i, vs))
        elif rng.random() < 0.5 and all(v in ins + outs for v in vs):
            g.append((i, vs))
    return {"a": a, "g": g, "i": ins, "o": outs}


def role_assignments(nvars, rng, exhaustive):
    vs = POOL[:nvars]
    if exhaustive:
        for combo in itertools.product(["-", "i", "o"], repeat=2 * nvars):
            yield dict(zip(vs, combo[:nvars])), dict(zip(vs, combo[nvars:]))
    else:
        while True:
            yield ({v: rng.choice("-io") for v in vs}, {v: rng.choice("-io") for v in vs})


def gen_script_cases(rng, n, exhaustive_nvars=None):
    cases = []
    ra = role_assignments(exhaustive_nvars or 0, rng, True) if exhaustive_nvars else None
    while len(cases) < n:
        if ra is not None:
            try:
                r1, r2 = next(ra)
            except StopIteration:
                break
            nv = exhaustive_nvars
        else:
            nv = rng.choice([1, 2, 3, 3, 4, 5])
            vs = POOL[:nv]
            r1 = {v: rng.choice("-io") for v in vs}
            r2 = {v: rng.choice("-io") for v in vs}
        next_id = [1]
        c1 = gen_contract(rng, r1, next_id, [])
        c2 = gen_contract(rng, r2, next_id, c1["a"] + c1["g"])
        allv = POOL[:nv]
        ops = ["compose", "compose", "quotient", "quotient", "merge", "refines", "rename", "copy", "init", "simplify",
               "env", "impl"]
        for op in (ops if ra is not None and nv <= 2 else [rng.choice(ops)]):
            case = {"seed": rng.randint(0, 60), "c1": c1, "c2": c2, "op": op}
            if op == "compose":
                cand = c1["o"] + c2["o"]
                keep = rand_subset(rng, cand, 0.4)
                if rng.random() < 0.1:
                    keep = keep + [rng.choice(allv)]
                case["keep"] = rng.choice([None, keep, keep])
                case["simplify"] = rng.random() < 0.5
            elif op == "quotient":
                cand = c2["o"] + c1["i"]
                add = rand_subset(rng, cand, 0.3)
                if rng.random() < 0.1:
                    add = add + [rng.choice(allv)]
                case["add"] = rng.choice([None, add, add])
                case["simplify"] = rng.random() < 0.5
            elif op == "rename":
                case["s"] = rng.choice(allv + ["z"])
                case["u"] = rng.choice(allv + ["z", "fresh"])
            elif op == "init":
                case["i"] = rng.choice([c1["i"], c1["i"] + c1["i"][:1], c1["i"] + c1["o"][:1], rand_subset(rng, allv)])
                case["o"] = rng.choice([c1["o"], c1["o"] + c1["o"][:1], rand_subset(rng, allv)])
                case["simplify"] = rng.random() < 0.5
            cases.append(case)
    return cases


def run_script_case(case):
    sd.SEED[0] = case["seed"]
    c1 = sd.mk_contract(case["c1"])
    op = case["op"]
    try:
        if op == "init":
            r = IoContract(
                assumptions=sd.SymTermList([sd.SymTerm(i, vs) for i, vs in case["c1"]["a"]]),
                guarantees=sd.SymTermList([sd.SymTerm(i, vs) for i, vs in case["c1"]["g"]]),
                input_vars=[Var(v) for v in case["i"]], output_vars=[Var(v) for v in case["o"]],
                simplify=case["simplify"])
            return ("c", sd.dump_contract(r))
        if op == "copy":
            return ("c", sd.dump_contract(c1.copy()))
        if op == "simplify":
            c1.simplify()
            return ("c", sd.dump_contract(c1))
        if op == "rename":
            return ("c", sd.dump_contract(c1.rename_variable(Var(case["s"]), Var(case["u"]))))
        if op == "env":
            return ("b", bool(c1.contains_environment(sd.SymTermList([sd.SymTerm(i, vs) for i, vs in case["c2"]["a"]]))))
        if op == "impl":
            return ("b", bool(c1.contains_implementation(sd.SymTermList([sd.SymTerm(i, vs) for i, vs in case["c2"]["g"]]))))
        c2 = sd.mk_contract(case["c2"])
        if op == "compose":
            keep = None if case["keep"] is None else [Var(v) for v in case["keep"]]
            r, _ = c1.compose_tactics(c2, keep, case["simplify"], None)
            return ("c", sd.dump_contract(r))
        if op == "quotient":
            add = None if case["add"] is None else [Var(v) for v in case["add"]]
            r, _ = c1.quotient_tactics(c2, add, case["simplify"], None)
            return ("c", sd.dump_contract(r))
        if op == "merge":
            return ("c", sd.dump_contract(c1.merge(c2)))
        if op == "refines":
            return ("b", bool(c1.refines(c2)))
    except Exception as e:  # noqa: BLE001 classified below
        return ("e", err_code(e), type(e).__name__)
    raise AssertionError(op)


def coq_atoms(l):
    return cf.lst(f"(mkA {cf.nat(i)} {cf.svars(vs)})" for i, vs in l)


def coq_contract(seed, c):
    return (f"(@Build_contract (script_domain {cf.nat(seed)}) {coq_atoms(c['a'])} {coq_atoms(c['g'])} "
            f"{cf.svars(c['i'])} {cf.svars(c['o'])})")


def coq_expected(exp):
    if exp[0] == "c":
        c = exp[1]
        return f"(ExpC {coq_atoms(c['a'])} {coq_atoms(c['g'])} {cf.svars(c['i'])} {cf.svars(c['o'])})"
    if exp[0] == "b":
        return f"(ExpB {cf.boolean(exp[1])})"
    return f"(ExpE {cf.nat(exp[1])})"


SCRIPT_PRELUDE = """From Coq Require Import List String Bool Arith ZArith.
Import ListNotations.
Require Import Py ListsGen AlgebraGen Script.
Open Scope string_scope.
Inductive expected := ExpC (a g : list atom) (i o : list var) | ExpB (b : bool) | ExpE (code : nat).
Definition okc (seed : nat) (r : M (@contract (script_domain seed))) (e : expected) : bool :=
  match r, e with
  | inl c, ExpC a g i o => atoms_same (@c_a (script_domain seed) c) a && atoms_same (@c_g (script_domain seed) c) g
                           && list_eqb (A:=var) (@c_inputvars (script_domain seed) c) i
                           && list_eqb (A:=var) (@c_outputvars (script_domain seed) c) o
  | inr x, ExpE code => Nat.eqb (err_code x) code
  | _, _ => false
  end.
Definition okp (seed : nat) (r : M (@contract (script_domain seed) * list stats)) (e : expected) : bool :=
  okc seed (match r with inl (c, _) => inl c | inr x => inr x end) e.
Definition okb (r : M bool) (e : expected) : bool :=
  match r, e with
  | inl b, ExpB b' => Bool.eqb b b'
  | inr x, ExpE code => Nat.eqb (err_code x) code
  | _, _ => false
  end.
Fixpoint falses (n : nat) (l : list bool) : list nat :=
  match l with [] => [] | b :: r => (if b then [] else [n]) ++ falses (S n) r end.
"""


def coq_case(case, exp):
    sdn = f"(script_domain {cf.nat(case['seed'])})"
    seed = cf.nat(case["seed"])
    c1 = coq_contract(case["seed"], case["c1"])
    c2 = coq_contract(case["seed"], case["c2"])
    e = coq_expected(exp)
    op = case["op"]
    if op == "init":
        return (f"okc {seed} (@IoContract_init {sdn} {coq_atoms(case['c1']['a'])} {coq_atoms(case['c1']['g'])} "
                f"{cf.svars(case['i'])} {cf.svars(case['o'])} {cf.boolean(case['simplify'])}) {e}")
    if op == "copy":
        return f"okc {seed} (@IoContract_copy {sdn} {c1}) {e}"
    if op == "simplify":
        return f"okc {seed} (@IoContract_simplify {sdn} {c1}) {e}"
    if op == "rename":
        return f"okc {seed} (@IoContract_rename_variable {sdn} {c1} {cf.s(case['s'])} {cf.s(case['u'])}) {e}"
    if op == "env":
        return f"okb (@IoContract_contains_environment {sdn} {c1} {coq_atoms(case['c2']['a'])}) {e}"
    if op == "impl":
        return f"okb (@IoContract_contains_implementation {sdn} {c1} {coq_atoms(case['c2']['g'])}) {e}"
    if op == "compose":
        return (f"okp {seed} (@IoContract_compose_tactics {sdn} {c1} {c2} {cf.opt(case['keep'], cf.svars)} "
                f"{cf.boolean(case['simplify'])} None) {e}")
    if op == "quotient":
        return (f"okp {seed} (@IoContract_quotient_tactics {sdn} {c1} {c2} {cf.opt(case['add'], cf.svars)} "
                f"{cf.boolean(case['simplify'])} None) {e}")
    if op == "merge":
        return f"okc {seed} (@IoContract_merge {sdn} {c1} {c2}) {e}"
    if op == "refines":
        return f"okb (@IoContract_refines {sdn} {c1} {c2}) {e}"
    raise AssertionError(op)


def script_crosscheck(rng, n_random, exhaustive_nvars, tag):
    cases = []
    if exhaustive_nvars:
        cases += gen_script_cases(rng, 10 ** 9, exhaustive_nvars)
    cases += gen_script_cases(rng, n_random)
    exps = [run_script_case(c) for c in cases]
    jobs = []
    CH = 400
    for k in range(0, len(cases), CH):
        body = SCRIPT_PRELUDE + "Definition results : list bool := [\n  " + ";\n  ".join(
            coq_case(c, e) for c, e in zip(cases[k:k + CH], exps[k:k + CH])) + "].\n"
        body += 'Eval vm_compute in ("mismatch", falses 0 results).\n'
        jobs.append((f"{tag}_script_{k // CH}", body))
    res = common.run_cases_parallel(jobs)
    mism = []
    errors = []
    for k in range(0, len(cases), CH):
        rc, out = res[f"{tag}_script_{k // CH}"]
        idx = common.parse_nat_list(out, "mismatch") if rc == 0 else None
        if idx is None:
            errors.append(common.first_error(out))
            continue
        for i in idx:
            mism.append((cases[k + i], exps[k + i]))
    hist = {}
    for c, e in zip(cases, exps):
        key = c["op"] + ":" + ("ok" if e[0] in "cb" else e[2])
        hist[key] = hist.get(key, 0) + 1
    distinct = len({repr((c["c1"], c["c2"], c["op"], c.get("keep"), c.get("add"), c["seed"] % 5)) for c, e in
                    zip(cases, exps) if e[0] != "e" or e[1] == 1})
    return {"cases": cases, "exps": exps, "mismatches": mism, "errors": errors, "hist": hist, "distinct": distinct}


# ------------------------------------------------------------------ semantic brute-force domain
class SemTerm(Term):
    """A predicate over boolean valuations that depends only on its declared variables."""
    counter = [0]

    def __init__(self, varnames, table):
        self.varnames = list(varnames)          # sorted tuple of names
        self.table = dict(table)                # tuple of bits (in varnames order) -> bool

    @property
    def vars(self):  # noqa: A003
        return [Var(v) for v in self.varnames]

    def contains_var(self, v):
        return v in self.vars

    def holds(self, beh):
        return self.table[tuple(beh[v] for v in self.varnames)]

    def __eq__(self, other):
        return self.varnames == other.varnames and self.table == other.table

    def __hash__(self):
        return hash((tuple(self.varnames), tuple(sorted(self.table.items()))))

    def __str__(self):
        return f"P{self.varnames}{[int(self.table[k]) for k in sorted(self.table)]}"

    __repr__ = __str__

    def copy(self):
        return SemTerm(self.varnames, self.table)

    def rename_variable(self, s, u):
        if s.name not in self.varnames:
            return self.copy()
        if u.name in self.varnames and u.name != s.name:
            # substitute u for s: new predicate over varnames minus s
            newv = [v for v in self.varnames if v != s.name]
            tab = {}
            for bits in itertools.product([0, 1], repeat=len(newv)):
                beh = dict(zip(newv, bits))
                beh[s.name] = beh[u.name]
                tab[bits] = self.holds(beh)
            return SemTerm(newv, tab)
        newv = [u.name if v == s.name else v for v in self.varnames]
        return SemTerm(newv, self.table)


def all_behs(vs):
    for bits in itertools.product([0, 1], repeat=len(vs)):
        yield dict(zip(vs, bits))


def tl_holds(terms, beh):
    return all(t.holds(beh) for t in terms)


class SemTermList(TermList):
    rng = random.Random(0)
    universe = POOL

    def __hash__(self):
        return hash(tuple(self.terms))

    def contains_behavior(self, behavior):
        return tl_holds(self.terms, behavior)

    def _quant(self, t, ctx, vs, universal):
        names = [v.name for v in vs]
        keep = [v for v in sorted(set(t.varnames) | {x for c in ctx for x in c.varnames}) if v not in names]
        elim = [v for v in sorted(set(t.varnames) | {x for c in ctx for x in c.varnames}) if v in names]
        tab = {}
        for bits in itertools.product([0, 1], repeat=len(keep)):
            beh = dict(zip(keep, bits))
            vals = []
            for eb in itertools.product([0, 1], repeat=len(elim)):
                b2 = dict(beh)
                b2.update(zip(elim, eb))
                c_ok = tl_holds(ctx, b2)
                vals.append(((not c_ok) or t.holds(b2)) if universal else (c_ok and t.holds(b2)))
            tab[bits] = all(vals) if universal else any(vals)
        return SemTerm(keep, tab)

    def _elim(self, context, vars_to_elim, universal):
        r = self.rng.random()
        if r < 0.08:
            raise ValueError("declined")
        out = []
        for t in self.terms:
            if list_intersection(t.vars, vars_to_elim):
                r = self.rng.random()
                if r < 0.12:
                    out.append(t.copy())                 # leftover
                elif r < 0.2 and not universal:
                    pass                                 # relax may drop the term altogether
                else:
                    out.append(self._quant(t, context.terms, vars_to_elim, universal))
            else:
                out.append(t.copy())
        return SemTermList(out), []

    def elim_vars_by_refining(self, context, vars_to_elim, simplify=True, tactics_order=None):
        return self._elim(context, vars_to_elim, True)

    def elim_vars_by_relaxing(self, context, vars_to_elim, simplify=True, tactics_order=None):
        res, st = self._elim(context, vars_to_elim, False)
        if self.rng.random() < 0.7:
            res = SemTermList([t for t in res.terms if not list_intersection(t.vars, vars_to_elim)])
        return res, st

    def simplify(self, context=None):
        if self.rng.random() < 0.05:
            raise ValueError("declined")
        ctx = context.terms if context is not None else []
        kept = list(self.terms)
        i = 0
        while i < len(kept):
            others = kept[:i] + kept[i + 1:]
            vs = sorted({x for t in kept + ctx for x in t.varnames})
            if self.rng.random() < 0.7 and all(kept[i].holds(b) for b in all_behs(vs) if tl_holds(others + ctx, b)):
                kept.pop(i)
            else:
                i += 1
        return SemTermList([t.copy() for t in kept])

    def refines(self, other):
        vs = sorted({x for t in self.terms + other.terms for x in t.varnames})
        ok = all(tl_holds(other.terms, b) for b in all_behs(vs) if tl_holds(self.terms, b))
        if ok and self.rng.random() < 0.15:
            return False                                  # incomplete but sound
        return ok

    def is_empty(self):
        vs = sorted({x for t in self.terms for x in t.varnames})
        return not any(tl_holds(self.terms, b) for b in all_behs(vs))


def rand_semterm(rng, vs):
    vs = sorted(vs)
    tab = {bits: rng.random() < 0.7 for bits in itertools.product([0, 1], repeat=len(vs))}
    return SemTerm(vs, tab)


def gen_sem_contract(rng, roles):
    ins = [v for v, r in roles.items() if r == "i"]
    outs = [v for v, r in roles.items() if r == "o"]
    rng.shuffle(ins)
    rng.shuffle(outs)
    a = [rand_semterm(rng, rand_subset(rng, ins, 0.6)) for _ in range(rng.randint(0, 2))]
    g = [rand_semterm(rng, rand_subset(rng, ins + outs, 0.6)) for _ in range(rng.randint(0, 3))]
    return IoContract(SemTermList(a), SemTermList(g), [Var(v) for v in ins], [Var(v) for v in outs], simplify=False)


def honours(c, b):
    return (not tl_holds(c.a.terms, b)) or tl_holds(c.g.terms, b)


def names(vs):
    return [v.name for v in vs]


def wf_contract(c):
    i, o = names(c.inputvars), names(c.outputvars)
    return (len(set(i)) == len(i) and len(set(o)) == len(o) and not set(i) & set(o)
            and set(names(c.a.vars)) <= set(i) and set(names(c.g.vars)) <= set(i) | set(o))


def semantic_search(rng, n):
    """Returns (stats, violations) — violations are dicts describing a failed obligation on the REAL code."""
    SemTermList.rng = random.Random(rng.randint(0, 10 ** 9))
    viol = []
    stats = {"compose_ok": 0, "quotient_ok": 0, "merge_ok": 0, "refines_true": 0, "rejected": 0, "valueerror": 0,
             "rename_ok": 0, "other_exc": 0}
    seen = set()
    for k in range(n):
        nv = rng.choice([2, 3, 3, 4, 5])
        vs = POOL[:nv]
        r1 = {v: rng.choice("-io") for v in vs}
        r2 = {v: rng.choice("-io") for v in vs}
        c1, c2 = gen_sem_contract(rng, r1), gen_sem_contract(rng, r2)
        op = rng.choice(["compose", "compose", "quotient", "quotient", "merge", "refines", "rename"])
        desc = {"op": op, "c1": str(c1), "c2": str(c2)}
        i1, o1, i2, o2 = names(c1.inputvars), names(c1.outputvars), names(c2.inputvars), names(c2.outputvars)
        try:
            if op == "compose":
                keep = rand_subset(rng, o1 + o2, 0.3)
                desc["keep"] = keep
                sp = rng.random() < 0.5
                c, _ = c1.compose_tactics(c2, [Var(v) for v in keep], sp, None)
                stats["compose_ok"] += 1
                seen.add(("compose", tuple(sorted(r1.items())), tuple(sorted(r2.items())), tuple(keep)))
                bad = None
                for b in all_behs(POOL):
                    if tl_holds(c.a.terms, b) and honours(c1, b) and honours(c2, b):
                        if not (tl_holds(c1.a.terms, b) and tl_holds(c2.a.terms, b) and tl_holds(c.g.terms, b)):
                            bad = b
                            break
                if bad is not None:
                    viol.append({"prop": "C05", "kind": "compose_obligation", "behaviour": bad, "result": str(c), **desc})
                exp_in = {v for v in i1 if v not in o2} | {v for v in i2 if v not in o1}
                exp_out = {v for v in o1 if v not in i2} | {v for v in o2 if v not in i1} | set(keep)
                if not wf_contract(c) or set(names(c.inputvars)) != exp_in or set(names(c.outputvars)) != exp_out:
                    viol.append({"prop": "C06", "kind": "compose_iface", "result": str(c), **desc})
            elif op == "quotient":
                add = rand_subset(rng, i1 + o2, 0.25)
                desc["add"] = add
                q, _ = c1.quotient_tactics(c2, [Var(v) for v in add], rng.random() < 0.5, None)
                stats["quotient_ok"] += 1
                seen.add(("quotient", tuple(sorted(r1.items())), tuple(sorted(r2.items())), tuple(add)))
                bad = None
                for b in all_behs(POOL):
                    if tl_holds(c1.a.terms, b) and honours(c2, b) and honours(q, b):
                        if not (tl_holds(c2.a.terms, b) and tl_holds(q.a.terms, b) and tl_holds(c1.g.terms, b)):
                            bad = b
                            break
                if bad is not None:
                    viol.append({"prop": "C05", "kind": "quotient_obligation", "behaviour": bad, "result": str(q), **desc})
                exp_in = {v for v in i1 if v not in i2} | {v for v in o2 if v not in o1} | set(add)
                exp_out = {v for v in o1 if v not in o2} | {v for v in i2 if v not in i1}
                if not wf_contract(q) or set(names(q.inputvars)) != exp_in or set(names(q.outputvars)) != exp_out:
                    viol.append({"prop": "C06", "kind": "quotient_iface", "result": str(q), **desc})
            elif op == "merge":
                m = c1.merge(c2)
                stats["merge_ok"] += 1
                seen.add(("merge", tuple(sorted(r1.items())), tuple(sorted(r2.items()))))
                for b in all_behs(POOL):
                    am = tl_holds(m.a.terms, b)
                    if am != (tl_holds(c1.a.terms, b) and tl_holds(c2.a.terms, b)) or (
                            am and tl_holds(m.g.terms, b) != (tl_holds(c1.g.terms, b) and tl_holds(c2.g.terms, b))):
                        viol.append({"prop": "C05", "kind": "merge_obligation", "behaviour": b, "result": str(m), **desc})
                        break
                if (not wf_contract(m) or names(m.inputvars) != list_union(i1, i2)
                        or names(m.outputvars) != list_union(o1, o2)):
                    viol.append({"prop": "C06", "kind": "merge_iface", "result": str(m), **desc})
            elif op == "refines":
                c2b = IoContract(c2.a, c2.g, c1.inputvars, c1.outputvars, simplify=False) if rng.random() < 0.6 else c2
                if c1.refines(c2b):
                    stats["refines_true"] += 1
                    for b in all_behs(POOL):
                        if tl_holds(c2b.a.terms, b) and not (tl_holds(c1.a.terms, b) and (
                                not tl_holds(c1.g.terms, b) or tl_holds(c2b.g.terms, b))):
                            viol.append({"prop": "C05", "kind": "refines_sound", "behaviour": b, **desc})
                            break
                if set(i1) != set(names(c2b.inputvars)) or set(o1) != set(names(c2b.outputvars)):
                    viol.append({"prop": "C06", "kind": "refines_not_rejected", **desc})
            elif op == "rename":
                s, u = rng.choice(vs), rng.choice(vs + ["fresh"])
                desc.update(s=s, u=u)
                c = c1.rename_variable(Var(s), Var(u))
                stats["rename_ok"] += 1
                if not wf_contract(c):
                    viol.append({"prop": "C06", "kind": "rename_wf", "result": str(c), **desc})
                exp_i = [u if v == s else v for v in i1] if u not in i1 or s == u else [v for v in i1 if v != s]
                exp_o = [u if v == s else v for v in o1] if u not in o1 or s == u else [v for v in o1 if v != s]
                if s in i1 + o1 and (names(c.inputvars) != exp_i or names(c.outputvars) != exp_o):
                    viol.append({"prop": "C06", "kind": "rename_iface", "result": str(c), **desc})
        except IncompatibleArgsError:
            stats["rejected"] += 1
            # C06: a meaningful request must not be rejected for interface reasons -- not claimed; but a
            # meaningless one must be rejected: checked below on the success path by construction.
        except ValueError:
            stats["valueerror"] += 1
        except Exception as e:  # noqa: BLE001
            stats["other_exc"] += 1
            viol.append({"prop": "C05", "kind": "escape", "exception": type(e).__name__ + ": " + str(e)[:200], **desc})
            continue
        # meaningless requests that were NOT rejected
    stats["distinct_topologies"] = len(seen)
    return stats, viol


def meaningless_not_rejected(rng, n):
    """C06: meaningless requests must raise IncompatibleArgsError whatever the primitives do."""
    SemTermList.rng = random.Random(rng.randint(0, 10 ** 9))
    viol = []
    tried = {"shared_outputs": 0, "keep_non_output": 0, "feedback": 0, "quotient_output_read": 0, "bad_additional": 0,
             "refines_iface": 0, "rename_clash": 0, "init_illformed": 0}
    for k in range(n):
        nv = rng.choice([2, 3, 4])
        vs = POOL[:nv]
        r1 = {v: rng.choice("-io") for v in vs}
        r2 = {v: rng.choice("-io") for v in vs}
        c1, c2 = gen_sem_contract(rng, r1), gen_sem_contract(rng, r2)
        i1, o1, i2, o2 = names(c1.inputvars), names(c1.outputvars), names(c2.inputvars), names(c2.outputvars)
        checks = []
        if set(o1) & set(o2):
            checks.append(("shared_outputs", lambda: c1.compose(c2)))
        non_out = [v for v in POOL if v not in o1 + o2]
        if non_out:
            kv = rng.choice(non_out)
            checks.append(("keep_non_output", lambda: c1.compose(c2, [Var(kv)])))
        if (set(i1) & set(o2)) and (set(i2) & set(o1)) and (
                set(o2) & set(names(c1.a.vars)) or set(o1) & set(names(c2.a.vars))):
            checks.append(("feedback", lambda: c1.compose(c2)))
        if [v for v in o1 if v not in o2 and v in i2]:
            checks.append(("quotient_output_read", lambda: c1.quotient(c2)))
        bad_add = [v for v in POOL if v not in i1 and v not in o2]
        if bad_add:
            av = rng.choice(bad_add)
            checks.append(("bad_additional", lambda: c1.quotient(c2, [Var(av)])))
        if set(i1) != set(i2) or set(o1) != set(o2):
            checks.append(("refines_iface", lambda: c1.refines(c2)))
        if i1 and o1:
            s1, u1 = rng.choice(i1), rng.choice(o1)
            checks.append(("rename_clash", lambda: c1.rename_variable(Var(s1), Var(u1))))
            checks.append(("rename_clash", lambda: c1.rename_variable(Var(u1), Var(s1))))
        if i1:
            checks.append(("init_illformed", lambda: IoContract(c1.a, c1.g, c1.inputvars + c1.inputvars[:1], c1.outputvars)))
        if i1 and names(c1.a.vars):
            checks.append(("init_illformed", lambda: IoContract(c1.a, c1.g, [], c1.outputvars)))
        for kind, f in checks:
            tried[kind] += 1
            try:
                f()
                viol.append({"prop": "C06", "kind": kind + "_not_rejected", "c1": str(c1), "c2": str(c2)})
            except IncompatibleArgsError:
                pass
            except Exception as e:  # noqa: BLE001
                viol.append({"prop": "C06", "kind": kind + "_wrong_exception", "exception": type(e).__name__,
                             "c1": str(c1), "c2": str(c2)})
    return tried, viol
