#!/usr/bin/env python3
"""Check, on the real pacti, the assumption the T1 translation of PolyhedralSyntaxAbsoluteTerm.same_term_list
relies on (translator/py2coq_syntax.py, coq/base/PySyntax.v:stl_repr_key):

    repr(tl1) == repr(tl2)   <=>   tl1 and tl2 have the same constant and the same (variable, factor) items
                                   after sorting by variable name, numbers compared as numbers

for finite FLOAT constants and factors (and the int constant 0, which the parse actions use and which prints as
nothing, like 0.0) and grammar-valid variable names, up to the sign of a zero factor at the head of the string.
Random term lists (pairs that collide by construction included) plus targeted probes of the known exceptions
(signed zero, inf / nan against variables named inf / nan).

usage: PYTHONPATH=/repo/src /venv/bin/python harness/syngen_repr_check.py [n] [seed]
exit status 1 if a counterexample is found INSIDE the stated domain.
"""
import itertools
import math
import random
import sys
from fractions import Fraction

import pacti
from pacti.terms.polyhedra.syntax.data import PolyhedralSyntaxTermList as TL

assert pacti.__file__.startswith("/repo/src") or "VERIF_REPO" in __import__("os").environ, pacti.__file__

NAMES = ["x", "y", "z", "x1", "x_1", "e", "e5", "e16", "E3", "a", "ab", "b", "inf_", "nan_", "i", "in", "n", "x10", "x2",
         "X", "Y", "v_0", "e_", "ee"]
VALUES = [0.0, 1.0, -1.0, 2.0, -2.0, 0.5, -0.5, 1.5, 10.0, 100.0, 1e16, 1e-5, 1.5e22, -1e16, 123456789.0, 0.1, 0.2,
          0.30000000000000004, 0.3, 1e-7, 2.5, 2500.0, 1e5, 150000.0, 3.0, -3.0, 1e100, 5e-324, 1.7976931348623157e308]


def key(tl, signed_zero_head=False):
    items = sorted((k, Fraction(v)) for k, v in tl.factors.items())
    k = (tuple(items), Fraction(tl.constant))
    if signed_zero_head and items and tl.constant == 0:
        k0 = sorted(tl.factors)[0]
        v0 = tl.factors[k0]
        if v0 == 0:
            k = k + (math.copysign(1.0, v0),)
    return k


def rand_tl(rng):
    n = rng.choice([0, 1, 1, 2, 2, 3, 4])
    names = rng.sample(NAMES, n)
    rng.shuffle(names)
    vals = [rng.choice(VALUES) if rng.random() < 0.8 else rng.uniform(-5, 5) for _ in names]
    c = rng.choice(VALUES) if rng.random() < 0.7 else rng.uniform(-5, 5)
    if rng.random() < 0.3:
        c = 0.0
    return TL(constant=c, factors=dict(zip(names, vals)))


def variants(rng, tl):
    """term lists that must have the same repr (dict order) or are near misses"""
    out = []
    items = list(tl.factors.items())
    rng.shuffle(items)
    out.append(TL(constant=tl.constant, factors=dict(items)))                     # other insertion order
    if items:
        k, v = rng.choice(items)
        d = dict(tl.factors)
        d[k] = v + rng.choice([1.0, -1.0, 0.5])
        out.append(TL(constant=tl.constant, factors=d))                           # one factor differs
        d = dict(tl.factors)
        del d[k]
        out.append(TL(constant=tl.constant, factors=d))                           # one variable missing
        d = dict(tl.factors)
        d[k + "0"] = d.pop(k)
        out.append(TL(constant=tl.constant, factors=d))                           # renamed variable
    out.append(TL(constant=tl.constant + rng.choice([1.0, -1.0, 0.5]), factors=dict(tl.factors)))   # constant differs
    out.append(TL(constant=0.0, factors=dict(tl.factors)))
    out.append(TL(constant=0, factors=dict(tl.factors)))                          # the int 0 the parse actions use
    return out


def main(n=600, seed=1):
    rng = random.Random(seed)
    pool = []
    for _ in range(n):
        tl = rand_tl(rng)
        pool.append(tl)
        pool.extend(variants(rng, tl))
    by_repr, by_key = {}, {}
    bad = []
    for tl in pool:
        by_repr.setdefault(repr(tl), []).append(tl)
    # (=>) same repr -> same key (strict: the head zero's sign is part of the key)
    for r, tls in by_repr.items():
        ks = {key(t, True) for t in tls}
        if len(ks) > 1:
            bad.append(("same repr, different term lists", r, [(t.constant, t.factors) for t in tls[:3]]))
    # (<=) same key -> same repr
    for tl in pool:
        by_key.setdefault(key(tl, True), []).append(tl)
    for k, tls in by_key.items():
        rs = {repr(t) for t in tls}
        if len(rs) > 1:
            bad.append(("same term list, different repr", sorted(rs), k))
    pairs = sum(len(v) * (len(v) - 1) // 2 for v in by_repr.values())
    print(f"term lists: {len(pool)}  distinct reprs: {len(by_repr)}  colliding pairs examined: {pairs}")
    print(f"counterexamples inside the stated domain (finite floats, grammar-valid names, head zero sign kept): {len(bad)}")
    for b in bad[:10]:
        print("  COUNTEREXAMPLE:", b)
    # --- the known exceptions, outside the domain (reported, not failures)
    print("known exceptions (outside the model: exact rationals have no signed zero, no inf, no nan, no int/float distinction):")
    a, b = TL(2, {"x": 1.0}), TL(2.0, {"x": 1.0})
    print(f"  a non-zero INT constant: repr {repr(a)!r} vs {repr(b)!r} (same numbers) -> "
          f"{'DIFFERENT strings (not reachable: the only int the parse actions ever store is the constant 0)' if repr(a) != repr(b) else 'same string'}")
    a, b = TL(0.0, {"x": 0.0}), TL(0.0, {"x": -0.0})
    print(f"  signed zero at the head: repr {repr(a)!r} vs {repr(b)!r} (same numbers) -> "
          f"{'DIFFERENT strings' if repr(a) != repr(b) else 'same string'}")
    a, b = TL(0.0, {"y": 1.0, "x": 2.0, "z": 0.0}), TL(0.0, {"y": 1.0, "x": 2.0, "z": -0.0})
    print(f"  signed zero elsewhere:   repr {repr(a)!r} vs {repr(b)!r} -> {'different' if repr(a) != repr(b) else 'same string'}")
    probes = [(TL(float("inf"), {}), TL(0.0, {"inf": 1.0})), (TL(float("-inf"), {}), TL(0.0, {"inf": -1.0})),
              (TL(float("nan"), {}), TL(0.0, {"nan": 1.0})),
              (TL(float("inf"), {"x": 1.0}), TL(0.0, {"inf": 1.0, "x": 1.0})),
              (TL(0.0, {"x": float("inf")}), TL(0.0, {"infx": 1.0}))]
    for a, b in probes:
        same = repr(a) == repr(b)
        print(f"  {(a.constant, a.factors)} vs {(b.constant, b.factors)}: repr {repr(a)!r} / {repr(b)!r} -> "
              f"{'SAME string for different term lists (finding: reachable with the literal 1e999 and a variable named inf)' if same else 'different'}")
    return 1 if bad else 0


if __name__ == "__main__":
    args = [int(a) for a in sys.argv[1:]]
    sys.exit(main(*args))
