"""Correspondence between coq/model/Grammar.v and pacti's real pyparsing grammar.

What the REAL grammar does on a string is observed from the outside (nothing under /repo is edited):
`_instrumented()` deep-copies `grammar.expression` (so every And / MatchFirst / Or / Optional / ZeroOrMore /
Combine / infixNotation element, its order and its whitespace handling are the real ones) and replaces, in
the copy only, each parse action by one that records WHICH alternative fired instead of folding the result
into a PolyhedralSyntax* object.  `validate_copy()` (run at import) checks on random strings that the copy
and the untouched grammar accept/reject identically and that folding the recorded tree with pacti's own
parse-action functions reproduces the object built by the untouched grammar.

API
  py_parse(s)            -> 'reject' | 'divzero' | tree   (tree: nested tuples, see `canon`; 'divzero' = a
                            ZeroDivisionError escaped from a parse action; py_parse(s, evaluate=False) shows what
                            the grammar does "otherwise", without evaluating constants)
  ast_to_coq(tree)       -> Gallina text of an Ast.expr (literals become their exact decimal value)
  fold_real(tree)        -> the PolyhedralSyntax* object, rebuilt with grammar.py's own parse-action functions
  presult_to_coq(r)      -> Gallina text of a Grammar.presult
  enumerate_strings(n)   -> all strings made of <= n tokens of ALPHABET, joined with "" and with " "
  random_strings(k,seed) -> k random well-formed / mutated strings with random spellings and whitespace
  random_char_strings(k,seed) -> k strings with a run of random characters (lexical stress)
  selftest(maxlen,nrandom,seed,nchar=..) -> dict with counts; compares py_parse with Grammar.parse_expr inside Coq
  coq_examples()         -> the Example block of proofs/GrammarFacts.v (expected values computed by pyparsing)
  check_against_real(s)  -> None iff the instrumented copy and the untouched grammar agree on s
"""
from __future__ import annotations

import copy
import itertools
import os
import random
import sys
import time
from concurrent.futures import ThreadPoolExecutor
from fractions import Fraction as F

sys.path.insert(0, os.path.dirname(os.path.abspath(__file__)))
import common  # noqa: E402
import coqfmt  # noqa: E402

common.assert_pacti_from_repo()

import pyparsing as pp  # noqa: E402
from pacti.terms.polyhedra.syntax import grammar as G  # noqa: E402


# ------------------------------------------------------------------ recording parse actions
class Node:
    """A recorded grammar alternative.  Deliberately not list-like: pyparsing keeps it as one token."""

    __slots__ = ("tag", "args")

    def __init__(self, tag, *args):
        self.tag = tag
        self.args = args

    def __repr__(self):
        return f"Node({self.tag!r}, {', '.join(map(repr, self.args))})"


EVALUATE = True  # evaluate constants inside the recording actions, like the real ones do (ZeroDivisionError)


def _a_fpn(t):
    return Node("lit", t[0], float(t[0]))


def _chain_value(vals_ops):
    """grammar._parse_arithmetic_chain on floats: left fold; raises ZeroDivisionError like the real action."""
    result = vals_ops[0]
    for op, operand in zip(vals_ops[1::2], vals_ops[2::2]):
        if op == "*":
            result = result * operand
        elif op == "/":
            result = result / operand
        elif op == "+":
            result = result + operand
        else:
            result = result - operand
    return result


def _a_infix(t):
    # t[0] is the group [a, op, b, op, c, ...] of ONE precedence level
    seq = list(t[0])
    val = _chain_value([x if isinstance(x, str) else x.args[-1] for x in seq]) if EVALUATE else None
    return Node("chain", seq, val)


def _a_paren_arith(t):
    return t[0][0]


def _a_only_variable(t):
    assert len(t) == 1 and isinstance(t[0], str)
    return Node("var", t[0])


def _a_number_and_variable(t):
    v = t[len(t) - 1]
    assert isinstance(v, Node) and v.tag == "var" and t[0].tag in ("lit", "chain")
    return Node("numvar", t[0], v.args[0])


def _a_factor_paren_terms(t):
    g = t[0]
    p = g[len(g) - 1]
    assert p.tag == "paren" and g[0].tag in ("lit", "chain")
    return Node("numparen", g[0], p.args[0])


def _a_paren_terms(t):
    g = t[0]
    assert len(g) == 3 and g[1].tag == "terms"
    return Node("paren", g[1])


def _a_term(t):
    tl = t[0][0]
    if tl.tag in ("lit", "chain"):
        return Node("num", tl)
    assert tl.tag in ("var", "numvar", "paren", "numparen")
    return tl


def _a_first_term(t):
    g = t[0]
    assert len(g) == 2  # Optional(symbol, default="+") always yields a sign
    return Node("sterm", g[0], g[1])


def _a_signed_term(t):
    g = t[0]
    return Node("sterm", g[0], g[1])


def _a_term_list(t):
    return Node("terms", list(t[0]))


def _a_absolute_term(t):
    g = t[0]
    if len(g) == 3:
        return Node("abs", None, g[1])
    return Node("abs", g[0], g[len(g) - 2])


def _a_signed_abs_term(t):
    g = t[0]
    return Node("sabs", g[0], g[1])


def _a_first_abs_term(t):
    g = t[0]
    assert len(g) == 2
    return Node("sabs", g[0], g[1])


def _a_abs_or_term(t):
    g = t[0]
    assert len(g) == 1 and g[0].tag in ("sterm", "sabs")
    return g[0]


def _a_abs_or_terms(t):
    return Node("aot", list(t[0]))


def _a_paren_abs_or_terms(t):
    g = t[0]
    if len(g) == 3:
        return Node("pgroup", None, g[1])
    return Node("pgroup", g[0], g[len(g) - 2])


def _a_first_or_addl_paren(t):
    g = t[0]
    if len(g) == 2:
        assert g[1].tag == "pgroup"
        return Node("item_group", g[0], g[1])
    assert len(g) == 1 and g[0].tag in ("sterm", "sabs")
    return Node("item_plain", g[0])


def _a_multi(t):
    return Node("side", list(t[0]))


def _a_equality(t):
    g = t[0]
    assert g[1] in ("==", "=")
    return Node("eq", g[0], g[2])


def _a_leq(t):
    g = t[0]
    assert g[1] == "<="
    return Node("leq", [x for x in g if isinstance(x, Node)])


def _a_geq(t):
    g = t[0]
    assert g[1] == ">="
    return Node("geq", [x for x in g if isinstance(x, Node)])


def _a_expression(t):
    return t[0][0]


_ACTIONS = {
    "_parse_only_variable": _a_only_variable,
    "_parse_number_and_variable": _a_number_and_variable,
    "_parse_factor_paren_terms": _a_factor_paren_terms,
    "_parse_paren_terms": _a_paren_terms,
    "_parse_term": _a_term,
    "_parse_first_term": _a_first_term,
    "_parse_signed_term": _a_signed_term,
    "_parse_term_list": _a_term_list,
    "_parse_absolute_term": _a_absolute_term,
    "_parse_signed_abs_term": _a_signed_abs_term,
    "_parse_first_abs_term": _a_first_abs_term,
    "_parse_abs_or_term": _a_abs_or_term,
    "_parse_abs_or_terms": _a_abs_or_terms,
    "_parse_paren_abs_or_terms": _a_paren_abs_or_terms,
    "_parse_first_or_addl_paren_abs_or_terms": _a_first_or_addl_paren,
    "_parse_multi_paren_abs_or_terms": _a_multi,
    "_parse_equality_expression": _a_equality,
    "_parse_leq_expression": _a_leq,
    "_parse_geq_expression": _a_geq,
    "_parse_expression": _a_expression,
    "lambda:Combine": _a_fpn,
    "lambda:Group": _a_paren_arith,
    "_parse_arithmetic_chain": _a_infix,
}


def _instrumented():
    """A deep copy of the real `expression` whose parse actions record structure."""
    expr = copy.deepcopy(G.expression)
    seen, stack, used = set(), [expr], set()
    while stack:
        e = stack.pop()
        if id(e) in seen:
            continue
        seen.add(id(e))
        if isinstance(e, pp.Opt) and isinstance(e.defaultValue, pp.core._NullToken):
            # deepcopy duplicated Opt's "no default" sentinel, which Opt recognises by identity: restore it,
            # otherwise the copy would insert the sentinel into the results of every unmatched Optional
            e.defaultValue = pp.Opt._Opt__optionalNotMatched
        if e.parseAction:
            assert len(e.parseAction) == 1, e
            key = e.parseAction[0].__name__
            if key == "<lambda>":
                key = "lambda:" + type(e).__name__
            if key not in _ACTIONS:
                raise SystemExit(f"grammar_cases: unknown parse action {key} on {e}: grammar.py changed shape")
            e.set_parse_action(_ACTIONS[key])
            used.add(key)
        if hasattr(e, "exprs"):
            stack.extend(e.exprs)
        elif getattr(e, "expr", None) is not None:
            stack.append(e.expr)
    missing = set(_ACTIONS) - used
    if missing:
        raise SystemExit(f"grammar_cases: parse actions not found in grammar.py: {sorted(missing)}")
    return expr


# problems found while preparing the instrumented copy (the source no longer has the shape / the behaviour this harness mirrors):
# reported by the C09 check as a broken correspondence -- never a reason to stop before the failing-input search has run
IMPORT_PROBLEMS = []
try:
    _COPY = _instrumented()
except (SystemExit, Exception) as _e:  # noqa: BLE001
    IMPORT_PROBLEMS.append(("shape", str(_e)[:1500]))
    _COPY = None


# ------------------------------------------------------------------ canonical trees
def canon(n):
    """Node tree -> nested tuples, one shape per constructor of Ast.v:
    cexpr : ('lit', text) | ('chain', (a, op, b, op, c, ...))       (one infixNotation level, unfolded)
    lterm : ('var', v) | ('numvar', k, v) | ('num', k) | ('paren', terms) | ('numparen', k, terms)
    terms : ('terms', ((sign, lterm), ...))
    aterm : ('aterm', sign, lterm) | ('aabs', sign, k | None, terms)
    pitem : ('pgroup', sign, k | None, (aterm, ...)) | ('pplain', aterm)
    expr  : ('eq', terms, terms) | ('leq', (side, ...)) | ('geq', (side, ...)),  side = (pitem, ...)"""
    t, a = n.tag, n.args
    if t == "lit":
        return ("lit", a[0])  # a[1] is float(text)
    if t == "chain":
        return ("chain", tuple(x if isinstance(x, str) else canon(x) for x in a[0]))
    if t == "var":
        return ("var", a[0])
    if t == "numvar":
        return ("numvar", canon(a[0]), a[1])
    if t == "num":
        return ("num", canon(a[0]))
    if t == "paren":
        return ("paren", canon(a[0]))
    if t == "numparen":
        return ("numparen", canon(a[0]), canon(a[1]))
    if t == "terms":
        return ("terms", tuple((st.args[0], canon(st.args[1])) for st in a[0]))
    if t == "sterm":
        return ("aterm", a[0], canon(a[1]))
    if t == "sabs":
        k, ts = a[1].args
        return ("aabs", a[0], None if k is None else canon(k), canon(ts))
    if t == "item_group":
        k, aot = a[1].args
        return ("pgroup", a[0], None if k is None else canon(k), tuple(canon(x) for x in aot.args[0]))
    if t == "item_plain":
        return ("pplain", canon(a[0]))
    if t == "side":
        return tuple(canon(x) for x in a[0])
    if t == "eq":
        return ("eq", canon(a[0]), canon(a[1]))
    if t in ("leq", "geq"):
        return (t, tuple(canon(x) for x in a[0]))
    raise ValueError(t)


def py_parse(s: str, evaluate: bool = True):
    """What grammar.expression.parse_string(s, parse_all=True) does: 'reject' (ParseException), 'divzero'
    (ZeroDivisionError escaping from a parse action) or the tree.  evaluate=False: constants are not
    evaluated, which shows what the grammar does "otherwise" on a string that raises."""
    global EVALUATE
    EVALUATE = evaluate
    try:
        r = _COPY.parse_string(s, parse_all=True)
    except pp.ParseException:
        return "reject"
    except ZeroDivisionError:
        return "divzero"
    finally:
        EVALUATE = True
    assert len(r) == 1
    return canon(r[0])


# ------------------------------------------------------------------ folding a tree with pacti's own actions
def _grp(*items):
    return pp.ParseResults([pp.ParseResults(list(items))])


def _cval(c):
    """float computed by grammar.py for a constant (left fold of each chain)."""
    if c[0] == "lit":
        return float(c[1])
    return _chain_value([x if isinstance(x, str) else _cval(x) for x in c[1]])


def _fold_lterm(t):
    k = t[0]
    if k == "var":
        return G._parse_term(_grp(G._parse_only_variable(pp.ParseResults([t[1]]))))
    if k == "numvar":
        v = G._parse_only_variable(pp.ParseResults([t[2]]))
        return G._parse_term(_grp(G._parse_number_and_variable(pp.ParseResults([_cval(t[1]), v]))))
    if k == "num":
        return G._parse_term(_grp(_cval(t[1])))
    if k == "paren":
        return G._parse_term(_grp(G._parse_paren_terms(_grp("(", _fold_terms(t[1]), ")"))))
    if k == "numparen":
        p = G._parse_paren_terms(_grp("(", _fold_terms(t[2]), ")"))
        return G._parse_term(_grp(G._parse_factor_paren_terms(_grp(_cval(t[1]), p))))
    raise ValueError(k)


def _fold_terms(ts):
    items = [G._parse_signed_term(_grp(sg, _fold_lterm(t))) for sg, t in ts[1]]
    return G._parse_term_list(_grp(*items))


def _fold_aterm(a):
    if a[0] == "aterm":
        return G._parse_abs_or_term(_grp(G._parse_signed_term(_grp(a[1], _fold_lterm(a[2])))))
    _, sg, k, ts = a
    body = _fold_terms(ts)
    at = G._parse_absolute_term(_grp("|", body, "|") if k is None else _grp(_cval(k), "|", body, "|"))
    return G._parse_abs_or_term(_grp(G._parse_signed_abs_term(_grp(sg, at))))


def _fold_pitem(p):
    if p[0] == "pplain":
        return G._parse_first_or_addl_paren_abs_or_terms(_grp(_fold_aterm(p[1])))
    _, sg, k, items = p
    aot = G._parse_abs_or_terms(_grp(*[_fold_aterm(a) for a in items]))
    pg = G._parse_paren_abs_or_terms(_grp("(", aot, ")") if k is None else _grp(_cval(k), "(", aot, ")"))
    return G._parse_first_or_addl_paren_abs_or_terms(_grp(sg, pg))


def _fold_side(sd):
    return G._parse_multi_paren_abs_or_terms(_grp(*[_fold_pitem(p) for p in sd]))


def fold_real(tree):
    """Rebuild the PolyhedralSyntax* object from a tree using grammar.py's own parse-action functions."""
    if tree[0] == "eq":
        return G._parse_equality_expression(_grp(_fold_terms(tree[1]), "=", _fold_terms(tree[2])))
    op = "<=" if tree[0] == "leq" else ">="
    toks = []
    for i, sd in enumerate(tree[1]):
        if i:
            toks.append(op)
        toks.append(_fold_side(sd))
    f = G._parse_leq_expression if tree[0] == "leq" else G._parse_geq_expression
    return f(_grp(*toks))


RAISED = []  # strings on which the real grammar raised something other than ParseException / ZeroDivisionError


def check_against_real(s: str, tree=None):
    """The instrumented copy against the untouched grammar on one string.  Returns None if they agree,
    else a description of the disagreement."""
    if tree is None:
        tree = py_parse(s)
    try:
        real = G.expression.parse_string(s, parse_all=True)[0]
        out = ("ok", repr(real))
    except pp.ParseException:
        out = ("reject", None)
    except ZeroDivisionError:
        out = ("divzero", None)
    except Exception as e:  # any other exception escaping from a parse action: not modelled
        RAISED.append((s, type(e).__name__))
        return f"real raises {type(e).__name__}"
    if tree in ("reject", "divzero"):
        return None if out[0] == tree else f"copy {tree}, real {out}"
    try:
        mine = ("ok", repr(fold_real(tree)))
    except Exception as e:
        mine = ("raise", type(e).__name__)
    return None if mine == out else f"real {out} / folded copy {mine}"


# ------------------------------------------------------------------ rendering as Gallina
_OPS = {"*": "CMul", "/": "CDiv", "+": "CAdd", "-": "CSub"}
_SIGN = {"+": "Plus", "-": "Minus"}


def cexpr_to_coq(c, assoc="left"):
    """assoc='left': what pacti computes (left fold of a chain); 'first': first operation only (pacti before 7bdf62f)."""
    if c[0] == "lit":
        return f"(CNum {coqfmt.q(F(c[1]))})"
    seq = c[1]
    acc = cexpr_to_coq(seq[0], assoc)
    n = 3 if assoc == "first" else len(seq)
    for i in range(1, n, 2):
        acc = f"({_OPS[seq[i]]} {acc} {cexpr_to_coq(seq[i + 1], assoc)})"
    return acc


def _lterm(t, assoc):
    k = t[0]
    if k == "var":
        return f"(TVar {coqfmt.s(t[1])})"
    if k == "numvar":
        return f"(TNumVar {cexpr_to_coq(t[1], assoc)} {coqfmt.s(t[2])})"
    if k == "num":
        return f"(TNum {cexpr_to_coq(t[1], assoc)})"
    if k == "paren":
        return f"(TParen {_terms(t[1], assoc)})"
    if k == "numparen":
        return f"(TNumParen {cexpr_to_coq(t[1], assoc)} {_terms(t[2], assoc)})"
    raise ValueError(k)


def _terms(ts, assoc):
    (s0, t0), rest = ts[1][0], ts[1][1:]
    return (f"(Terms {_SIGN[s0]} {_lterm(t0, assoc)} "
            f"{coqfmt.lst(f'({_SIGN[sg]}, {_lterm(t, assoc)})' for sg, t in rest)})")


def _optk(k, assoc):
    return "None" if k is None else f"(Some {cexpr_to_coq(k, assoc)})"


def _aterm(a, assoc):
    if a[0] == "aterm":
        return f"(ATerm {_SIGN[a[1]]} {_lterm(a[2], assoc)})"
    return f"(AAbs {_SIGN[a[1]]} {_optk(a[2], assoc)} {_terms(a[3], assoc)})"


def _pitem(p, assoc):
    if p[0] == "pplain":
        return f"(PPlain {_aterm(p[1], assoc)})"
    return f"(PGroup {_SIGN[p[1]]} {_optk(p[2], assoc)} {coqfmt.lst(_aterm(a, assoc) for a in p[3])})"


def ast_to_coq(tree, assoc="left") -> str:
    if tree[0] == "eq":
        return f"(EEq {_terms(tree[1], assoc)} {_terms(tree[2], assoc)})"
    ctor = "ELeq" if tree[0] == "leq" else "EGeq"
    return f"({ctor} {coqfmt.lst(coqfmt.lst(_pitem(p, assoc) for p in sd) for sd in tree[1])})"


def presult_to_coq(r, assoc="left") -> str:
    if r == "reject":
        return "Reject"
    if r == "divzero":
        return "DivZero"
    return f"(Ok {ast_to_coq(r, assoc)})"


def coq_string(s: str) -> str:
    if all(32 <= ord(c) <= 126 and c != '"' for c in s):
        return '"' + s + '"'
    return "(str_of " + coqfmt.lst(str(ord(c)) for c in s) + "%nat)"


# ------------------------------------------------------------------ inputs
ALPHABET = ["x", "y", "2", "0.5", "+", "-", "*", "/", "(", ")", "|", "<=", ">=", "=", "=="]


def enumerate_strings(maxlen: int, alphabet=None):
    """All token sequences of length 1..maxlen, each joined with '' and with ' ' (deduplicated, ordered)."""
    alphabet = ALPHABET if alphabet is None else alphabet
    seen, out = set(), []
    for n in range(1, maxlen + 1):
        for toks in itertools.product(alphabet, repeat=n):
            for sep in ("", " "):
                s = sep.join(toks)
                if s not in seen:
                    seen.add(s)
                    out.append(s)
    return out


_LITS = ["2", "3", "0.5", "1.25", "3e2", ".75", "2.", "2.0", "2e0", "1E1", "2.5e-1", "10", "0", "1e+1", "4.e0"]
_VARS = ["x", "y", "z", "x1", "a_b", "e", "E3", "ex", "X"]
_WS = ["", "", "", " ", " ", "  ", "\t", "\n", " \r\n"]


class _Gen:
    """Random derivations of the grammar, as token lists."""

    def __init__(self, rng):
        self.r = rng

    def arith(self, d):
        r = self.r
        if d <= 0 or r.random() < 0.35:
            return [r.choice(_LITS)]
        k = r.random()
        if k < 0.3:
            return ["("] + self.arith(d - 1) + [")"]
        out = self.arith(d - 1)
        for _ in range(r.choice([1, 1, 2])):
            out += [r.choice("*/+-")] + self.arith(d - 1)
        return out

    def muldiv(self, d):
        # an arithmetic expression that is NOT also a `terms`: it contains * or / at the top level
        out = self.arith(d - 1)
        for _ in range(self.r.choice([1, 1, 2])):
            out += [self.r.choice("*/")] + self.arith(d - 1)
        if self.r.random() < 0.3:
            out += [self.r.choice("+-")] + self.arith(d - 1)
        return out

    def number(self, d):
        k = self.r.random()
        if k < 0.65:
            return [self.r.choice(_LITS)]
        if k < 0.9:
            return ["("] + self.muldiv(d) + [")"]
        return ["("] + self.arith(d) + [")"]

    def star(self):
        return ["*"] if self.r.random() < 0.4 else []

    def term(self, d):
        r, k = self.r, self.r.random()
        if d <= 0:
            k *= 0.6
        if k < 0.25:
            return [r.choice(_VARS)]
        if k < 0.45:
            return self.number(d) + self.star() + [r.choice(_VARS)]
        if k < 0.6:
            return self.number(d)
        if k < 0.8:
            return ["("] + self.terms(d - 1) + [")"]
        return self.number(d) + self.star() + ["("] + self.terms(d - 1) + [")"]

    def sign(self, first):
        k = self.r.random()
        if first and k < 0.6:
            return []
        return ["+"] if k < 0.8 else ["-"]

    def terms(self, d):
        out = self.sign(True) + self.term(d)
        for _ in range(self.r.choice([0, 0, 0, 1, 1, 2])):
            out += self.sign(False) + self.term(d)
        return out

    def aterm(self, d, first):
        if self.r.random() < 0.35:
            k = self.number(d) + self.star() if self.r.random() < 0.5 else []
            return self.sign(first) + k + ["|"] + self.terms(d) + ["|"]
        return self.sign(first) + self.term(d)

    def pitem(self, d, first):
        if self.r.random() < 0.3:
            k = self.number(d) + self.star() if self.r.random() < 0.5 else []
            out = self.sign(first) + k + ["("] + self.aterm(d, True)
            for _ in range(self.r.choice([0, 1, 2])):
                out += self.aterm(d, False)
            return out + [")"]
        return self.aterm(d, first)

    def side(self, d):
        out = self.pitem(d, True)
        for _ in range(self.r.choice([0, 0, 0, 1, 2])):
            out += self.pitem(d, False)
        return out

    def expr(self, d):
        k = self.r.random()
        if k < 0.3:
            return self.terms(d) + [self.r.choice(["=", "=="])] + self.terms(d)
        op = "<=" if k < 0.7 else ">="
        out = self.side(d)
        for _ in range(self.r.choice([1, 1, 1, 1, 2])):
            out += [op] + self.side(d)
        return out


_MUT_TOKENS = ALPHABET + ["<", ">", ".", "e", "1e", "_", "2x", "||", ")(", " "]


def random_strings(k: int, seed: int = 0, mutate: float = 0.45, depth: int = 2):
    """k strings: random derivations spelled with random whitespace; a fraction `mutate` of them damaged by
    one or two token-level edits (delete / insert / replace / swap) or a character deletion."""
    rng = random.Random(seed)
    g = _Gen(rng)
    out = []
    while len(out) < k:
        toks = g.expr(rng.choice([0, 0, 1, 1, depth]))
        if rng.random() < mutate:
            for _ in range(rng.choice([1, 1, 2])):
                i = rng.randrange(len(toks))
                m = rng.random()
                if m < 0.3 and len(toks) > 1:
                    del toks[i]
                elif m < 0.55:
                    toks.insert(i, rng.choice(_MUT_TOKENS))
                elif m < 0.8:
                    toks[i] = rng.choice(_MUT_TOKENS)
                elif len(toks) > 1:
                    j = rng.randrange(len(toks))
                    toks[i], toks[j] = toks[j], toks[i]
        style = rng.random()
        if style < 0.3:
            s = "".join(toks)
        elif style < 0.5:
            s = " ".join(toks)
        else:
            s = rng.choice(_WS) + "".join(t + rng.choice(_WS) for t in toks)
        if rng.random() < 0.05 and len(s) > 1:
            i = rng.randrange(len(s))
            s = s[:i] + s[i + 1:]
        if len(s) <= 120:
            out.append(s)
    return out


_CHARS = "xyeE_019..+-*/()|<>== \t"


def random_char_strings(k: int, seed: int = 0):
    """k strings stressing the lexical level: a short run of random characters (digits, dots, e/E, signs,
    letters, underscores, operators, blanks) alone or spliced into a small valid frame."""
    rng = random.Random(seed)
    frames = ["{} <= 1", "x = {}", "{}x <= 1", "2{} <= y", "|{}| >= 0", "({})z == 1", "x + {} <= 3", "{}", "({})(x) <= 1",
              "1 <= {} <= 3", "x {} 1"]
    out = []
    for _ in range(k):
        run = "".join(rng.choice(_CHARS) for _ in range(rng.choice([1, 2, 2, 3, 3, 4, 5, 6, 8])))
        out.append(rng.choice(frames).format(run))
    return out


# ------------------------------------------------------------------ validation of the instrumented copy
def validate_copy(n: int = 400, seed: int = 12345):
    """The instrumented copy against the untouched grammar on n random strings + a fixed list."""
    fixed = ["2x + 3(y - 1) <= |x - y|", "1 <= x <= 3", "x + y = 2", "(2/3/4)x <= 1", "(1+2)(x+y)<=1",
             "-3 |x| + 2(|y| - z) >= (1*2)", "x - -y <= 1", "(1+2)x <= 1", "2e3x == 1e+x", "((x)) <= ((1))"]
    bad = []
    for s in fixed + random_strings(n, seed):
        d = check_against_real(s)
        if d is not None:
            bad.append((s, d))
    if bad:
        raise SystemExit(f"grammar_cases: instrumented copy disagrees with grammar.expression: {bad[:5]}")
    return len(fixed) + n


if os.environ.get("GRAMMAR_CASES_SKIP_VALIDATE") != "1" and _COPY is not None:
    try:
        _VALIDATED = validate_copy(int(os.environ.get("GRAMMAR_CASES_VALIDATE_N", "400")))
    except (SystemExit, Exception) as _e:  # noqa: BLE001
        IMPORT_PROBLEMS.append(("behaviour", str(_e)[:1500]))


# ------------------------------------------------------------------ the selftest
_HEADER = """From Coq Require Import List String Ascii QArith.
Import ListNotations.
Require Import Py Ast Grammar.
Local Open Scope string_scope.
Fixpoint str_of (l : list nat) : string :=
  match l with [] => EmptyString | n :: r => String (ascii_of_nat n) (str_of r) end.
"""

SHARD = 400
JOBS = 8


def case_file(tag: str, pairs) -> str:
    """pairs: list of (string, py_parse result)."""
    rows = ";\n  ".join(f"({coq_string(s)}, {presult_to_coq(r)})" for s, r in pairs)
    return (_HEADER + f"Definition cases : list (string * presult) := [\n  {rows}].\n"
            f'Eval vm_compute in ("{tag}", mismatches 0 cases).\n')


def coq_compare(pairs, prefix="gram"):
    """Evaluate Grammar.parse_expr on every string inside Coq and compare with the expected results.
    Returns (list of indices into `pairs` that disagree, list of shard errors)."""
    jobs = []
    for k in range(0, len(pairs), SHARD):
        name = f"{prefix}_{k // SHARD}"
        jobs.append((name, k, case_file(name, pairs[k:k + SHARD])))
    bad, errors = [], []

    def one(job):
        name, k, body = job
        rc, out = common.run_cases(name, body, timeout=900)
        return name, k, rc, out

    with ThreadPoolExecutor(max_workers=JOBS) as ex:
        for name, k, rc, out in ex.map(one, jobs):
            idx = common.parse_nat_list(out, name) if rc == 0 else None
            if idx is None:
                errors.append((name, common.first_error(out)))
            else:
                bad.extend(k + i for i in idx)
    for name, _, _ in jobs:
        try:
            os.remove(os.path.join(common.CASES, name + ".v"))
        except OSError:
            pass
    return bad, errors


def _py_chunk(args):
    """(strings, flags) -> [(result, disagreement-or-None)]; flags[i]: cross-check string i with the real grammar"""
    strings, flags = args
    out = []
    for s, fl in zip(strings, flags):
        r = py_parse(s)
        out.append((r, check_against_real(s, r) if fl else None))
    return out


def py_parse_many(strings, flags, procs: int = JOBS):
    """py_parse (+ optional cross-check against the untouched grammar) over many strings, in `procs` processes."""
    if procs <= 1 or len(strings) < 2000:
        return _py_chunk((strings, flags))
    import multiprocessing as mp
    step = 2000
    chunks = [(strings[k:k + step], flags[k:k + step]) for k in range(0, len(strings), step)]
    with mp.get_context("fork").Pool(procs) as pool:
        parts = pool.map(_py_chunk, chunks)
    return [x for part in parts for x in part]


def selftest(maxlen: int = 4, nrandom: int = 3000, seed: int = 0, cross_check: bool = True, verbose: bool = True,
             alphabet=None, nchar: int = 0):
    t0 = time.time()
    strings = enumerate_strings(maxlen, alphabet) if maxlen > 0 else []
    n_enum = len(strings)
    seen = set(strings)
    for s in random_strings(nrandom, seed) + random_char_strings(nchar, seed):
        if s not in seen:
            seen.add(s)
            strings.append(s)
    # cross-check against the untouched grammar: every random string, every 7th enumerated string, and (below)
    # every enumerated string that is not rejected
    flags = [cross_check and (i >= n_enum or i % 7 == 0) for i in range(len(strings))]
    results = py_parse_many(strings, flags)
    pairs = [(s, r) for s, (r, _) in zip(strings, results)]
    copy_bad = [(s, d) for s, (_, d) in zip(strings, results) if d is not None]
    if cross_check:
        for i in range(n_enum):
            if not flags[i] and pairs[i][1] != "reject":
                d = check_against_real(*pairs[i])
                if d is not None:
                    copy_bad.append((pairs[i][0], d))
    t1 = time.time()
    bad, errors = coq_compare(pairs)

    def count(lo, hi, what):
        return sum(1 for _, r in pairs[lo:hi] if (r == what if isinstance(what, str) else r not in ("reject", "divzero")))

    divzero = [s for s, r in pairs if r == "divzero"]
    res = {
        "maxlen": maxlen, "enumerated": n_enum, "enumerated_accepted": count(0, n_enum, None),
        "enumerated_divzero": count(0, n_enum, "divzero"),
        "random": len(pairs) - n_enum, "random_accepted": count(n_enum, len(pairs), None),
        "random_divzero": count(n_enum, len(pairs), "divzero"),
        "divzero_otherwise_rejected": sum(1 for s in divzero if py_parse(s, evaluate=False) == "reject"),
        "disagreements": len(bad), "shard_errors": len(errors), "copy_vs_real_disagreements": len(copy_bad),
        "python_s": round(t1 - t0, 1), "coq_s": round(time.time() - t1, 1),
    }
    if verbose:
        print(res)
        for i in bad[:40]:
            print("MISMATCH", repr(pairs[i][0]), "python:", pairs[i][1])
        for e in errors[:5]:
            print("SHARD ERROR", e)
        for c in copy_bad[:10]:
            print("COPY/REAL", c)
    res["bad"] = [pairs[i] for i in bad]
    res["errors"] = errors
    res["divzero"] = divzero
    return res


# ------------------------------------------------------------------ the Example block of proofs/GrammarFacts.v
EXAMPLES = [
    ("term alternatives", [
        "x <= 1", "2x <= 1", "1 <= x", "(x + 1) = 2", "2(x + 1) = 2"]),
    ("spellings of a coefficient: with/without *, with/without spaces, literal shapes", [
        "2 x <= 1", "2*x <= 1", "2 * x <= 1", "2.0x <= 1", "2.x <= 1", "2e0x <= 1", "20E-1 x <= 1", ".5x <= 1",
        "0.5 x <= 1", "1.25E+2*x <= 1", "2 (x + 1) = 2", "2*(x + 1) = 2", "(2*3)x = 1", "(2*3)*x = 1",
        "(2*3)(x) = 1"]),
    ("terms: signs", ["-x + y - 2z = 0", "+x = 1", "x==1", "x = -1"]),
    ("absolute terms", [
        "|x| <= 1", "| x | <= 1", "2|x| <= 1", "2*|x| <= 1", "2 * | x | <= 1", "-|x| >= -1", "-3 |x - y| <= 1",
        "x + |y| - 2|z| <= 1", "(2*3)|x| <= 1", "(1+2)|x| <= 1"]),
    ("parenthesised groups of a side", [
        "(x) <= 1", "-(x) <= 1", "2(x + |y|) <= 1", "-2*(|x| - y) <= 1", "(1+2)(x+y) <= 1", "x - (y + z) <= 1",
        "2x + 3(y - 1) <= |x - y|", "(|x|) <= 1", "((x)) <= 1", "(2)(3) <= x"]),
    ("chains and operators", ["1 <= x <= 3", "3 >= x >= 1", "x + y = 2", "x + y == 2"]),
    ("constant arithmetic: precedence, left associativity, nesting, whitespace", [
        "(2*3)x = 1", "(1+2*3)x = 1", "(2/3/4)x = 1", "(8-2*3-1)x = 1", "((1+2)*3)x = 1", "( 1 + 2 * 3 ) x = 1",
        "(2*3*4)x = 1"]),
    ("whitespace is significant inside numbers and words", [
        "2e3x <= 1", "2 e3 <= 1", "2ex <= 1", "1e+x <= 1", "x <= 1e", "x2 <= 1", "x_1 <= 1", "x y <= 1", "xy <= 1",
        "x = = 1", "x < = 1", "1 .5 <= x", "2 3 x <= 1"]),
    ("PEG surprises: ordered choice commits to paren_terms before a parenthesised number is tried", [
        "(1+2)x <= 1", "(2)x <= 1", "(10)*z <= 1", "(1+2*3)x <= 1", "(1+2)(x) <= 1", "(1+2) <= x", "2*3x <= 1"]),
    ("PEG surprises: no backtracking into a matched alternative / operator mixing", [
        "x <= 1 >= y", "1 <= x = 2", "x = 1 <= 2", "x = |y|", "|x| = 1", "x - -y <= 1", "|x - |y|| <= 1",
        "((|x|)) <= 1", "(x)(y) <= 1", "x <= ", "", "_x <= 1", "x <= 1 <="]),
    ("ZeroDivisionError escapes, also from strings that are otherwise rejected", [
        "(1/0)x <= 1", "x <= (1/(2-2))", "(0/0)x = 1", "(1/0)", "(1/0) <=", "|(2/0)", "(x+(2/0))", "(1/0 <= x",
        "x (2/0)", "(1*2/0.0)x <= 1"]),
]


def coq_examples() -> str:
    """The text of the Example block: every expected value is what pyparsing does (py_parse)."""
    out, n = [], 0
    for title, strings in EXAMPLES:
        out.append(f"(* {title} *)")
        for s in strings:
            n += 1
            want = presult_to_coq(py_parse(s))
            if want.startswith("("):
                want = want[1:-1]
            out.append(f"Example ex{n:03d} : parse_expr {coq_string(s)} =\n  {want}.\nProof. vm_compute. reflexivity. Qed.")
    return "\n".join(out) + "\n"


if __name__ == "__main__":
    ml = int(sys.argv[1]) if len(sys.argv) > 1 else 4
    nr = int(sys.argv[2]) if len(sys.argv) > 2 else 3000
    sd = int(sys.argv[3]) if len(sys.argv) > 3 else 0
    nc = int(sys.argv[4]) if len(sys.argv) > 4 else nr
    r = selftest(ml, nr, sd, nchar=nc)
    sys.exit(0 if r["disagreements"] == 0 and r["shard_errors"] == 0 and r["copy_vs_real_disagreements"] == 0 else 1)
