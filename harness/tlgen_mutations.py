#!/usr/bin/env python3
"""Sensitivity experiment for the translation of the pure-Python part of PolyhedralTermList
(translator/py2coq_termlist.py -> gen/TermListGen.v) and of the equality proofs proofs/TermListGen*.v.

For each small edit of src/pacti/terms/polyhedra/polyhedra.py (applied to a scratch copy of the source tree, one at a
time) the translator is run into a scratch copy of the Coq tree and proofs/TermListGenFacts.vo (which requires every
group file) is rebuilt with `make -k` (every coqc under `timeout`).  Semantic edits must be rejected by the translator
(fail closed: TRANSLATOR-UNSUPPORTED[TermListGen.v], the output file is poisoned) or break an equality proof; harmless
rewrites must pass.  Nothing outside the scratch directory is written (except the report); the scratch SOURCE tree is
always removed at the end.

usage: tlgen_mutations.py <verif dir> <repo dir> <scratch dir> [report.md] [--keep] [--only ID,ID,...]
"""
import os
import re
import shutil
import subprocess
import sys

PY = "/venv/bin/python"
REL = "src/pacti/terms/polyhedra/polyhedra.py"
TARGETS = ["proofs/TermListGenFacts.vo", "proofs/TermListGenContains.vo"]
GROUPS = ["TermListGenBase", "TermListGenEval", "TermListGenContains", "TermListGenElim", "TermListGenKaykobad", "TermListGenTactic4",
          "TermListGenTactic32", "TermListGenFacts"]

DISPATCH_OLD = '''        for tactic_num in tactics_order:  # noqa WPS327
            try:  # noqa: WPS229
                ta = time.time()
                result, count = PolyhedralTermList.TACTICS[tactic_num](term, context, vars_to_elim, refine)
                tb = time.time()
                if result is not None:
                    return result, tactic_num, tb - ta, count
            except ValueError:
                continue

        return term.copy(), -1, 0, 0
'''
DISPATCH_LAST = '''        found = False
        best_result = term.copy()
        best_num = 0
        best_count = 0
        for tactic_num in tactics_order:  # noqa WPS327
            try:  # noqa: WPS229
                ta = time.time()
                result, count = PolyhedralTermList.TACTICS[tactic_num](term, context, vars_to_elim, refine)
                tb = time.time()
                if result is not None:
                    found = True
                    best_result = result
                    best_num = tactic_num
                    best_count = count
            except ValueError:
                continue
        if found:
            return best_result, best_num, 0, best_count
        return term.copy(), -1, 0, 0
'''
CONTAINS_OLD = '''        excess_vars = list_diff(self.vars, list(behavior.keys()))
        if excess_vars:
            raise ValueError("The variables %s were not assigned values" % (excess_vars))
        retval = True
        try:
            self.evaluate(behavior)
        except ValueError:
            retval = False
        return retval
'''
CONTAINS_LATE = '''        retval = True
        try:
            self.evaluate(behavior)
        except ValueError:
            retval = False
        excess_vars = list_diff(self.vars, list(behavior.keys()))
        if excess_vars:
            raise ValueError("The variables %s were not assigned values" % (excess_vars))
        return retval
'''
CONTAINS_SEEDED = '''        try:
            residual = self.evaluate(behavior)
        except ValueError:
            return False
        # whatever survives evaluation still mentions variables without a value
        if residual.vars:
            raise ValueError("The variables %s were not assigned values" % (residual.vars))
        return True
'''
EVAL_OLD = '''            for var, val in var_values.items():  # noqa: VNE002
                new_term = new_term.substitute_variable(
                    var=var, subst_with_term=PolyhedralTerm(variables={}, constant=-val)
                )
'''
EVAL_TRUTHY = '''            for var, val in var_values.items():  # noqa: VNE002
                if val:
                    new_term = new_term.substitute_variable(
                        var=var, subst_with_term=PolyhedralTerm(variables={}, constant=-val)
                    )
'''

# (id, kind, description, [(old text, new text), ...])   kind: "semantic" | "harmless"
EDITS = [
    ("M01", "semantic", "_transform: when refining, the ORIGINAL siblings (`self.copy()`) are the helpers (seeded change C01)",
     [("                copy_new_terms = new_terms.copy()\n",
       "                copy_new_terms = self.copy() if refine else new_terms.copy()\n")]),
    ("M02", "semantic", "_get_kaykobad_context: partial_sums initialised inside the per-variable loop (seeded change C01b)",
     [("        partial_sums = [float(0) for i in range(n)]\n        transform_coeff = -1\n", "        transform_coeff = -1\n"),
      ("            row_found = False\n            logging.debug(\"Iterating for variable %s\", i_var)\n",
       "            row_found = False\n            partial_sums = [float(0) for j in range(n)]\n"
       "            logging.debug(\"Iterating for variable %s\", i_var)\n")]),
    ("M03", "semantic", "_get_kaykobad_context: `partial_sums = list(residuals)` instead of accumulating (seeded change C04b)",
     [("                    for j in range(n):\n                        partial_sums[j] += residuals[j]\n",
       "                    partial_sums = list(residuals)\n")]),
    ("M04", "semantic", "_tactic_4: the `if return_term is None: continue` guard dropped (seeded change C14)",
     [("                if return_term is None:\n                    continue\n", "")]),
    ("M05", "semantic", "evaluate: substitution guarded by `if val:` (a variable assigned 0 is skipped; cf. seeded change C11b)",
     [(EVAL_OLD, EVAL_TRUTHY)]),
    ("M06", "semantic", "contains_behavior: evaluates before the unassigned-variable check",
     [(CONTAINS_OLD, CONTAINS_LATE)]),
    ("M06b", "semantic", "contains_behavior: seeded change C11 verbatim (evaluate first, `return False` in the handler)",
     [(CONTAINS_OLD, CONTAINS_SEEDED)]),
    ("M07", "semantic", "elim_vars_by_relaxing: the tail keeps the terms that still mention an eliminated variable",
     [("        termlist.terms = list_diff(termlist.terms, terms_to_elim.terms)\n", "")]),
    ("M08", "semantic", "_transform_term: keeps the LAST successful tactic instead of the first",
     [(DISPATCH_OLD, DISPATCH_LAST)]),
    ("M09", "semantic", "_transform_term: swallows every exception (`except Exception`)",
     [("                    return result, tactic_num, tb - ta, count\n            except ValueError:\n",
       "                    return result, tactic_num, tb - ta, count\n            except Exception:\n")]),
    ("M10", "semantic", "_tactic_4: sign of the recursive bound flipped",
     [("return term.substitute_variable(var_to_elim, return_term.multiply(sign)), total_calls",
       "return term.substitute_variable(var_to_elim, return_term.multiply(-sign)), total_calls")]),
    ("M11", "semantic", "_get_kaykobad_context: sign test against the wrong polarity",
     [("if transform_coeff * context_term.get_sign(var) != term.get_sign(var):",
       "if transform_coeff * context_term.get_sign(var) != -term.get_sign(var):")]),
    ("M12", "semantic", "_transform: a term whose dispatcher raised is recorded with tactic number -1 instead of 0",
     [("                    new_term = term.copy()\n                    tactic_num = 0\n",
       "                    new_term = term.copy()\n                    tactic_num = -1\n")]),
    ("M13", "semantic", "elim_vars_by_refining: the simplify flag is not passed on to _transform",
     [("context=context, vars_to_elim=vars_to_elim, refine=True, simplify=simplify, tactics_order=tactics_order",
       "context=context, vars_to_elim=vars_to_elim, refine=True, simplify=True, tactics_order=tactics_order")]),
    ("M14", "semantic", "_transform: helpers are `copy_new_terms | context` (order of the union)",
     [("                helpers = context | copy_new_terms\n", "                helpers = copy_new_terms | context\n")]),
    ("M15", "semantic", "_tactic_2: polarity chosen for the wrong direction",
     [("        polarity = 1\n        if refine:\n            polarity = -1\n        objective = ",
       "        polarity = 1\n        if not refine:\n            polarity = -1\n        objective = ")]),
    ("M16", "semantic", "_tactic_3: the first conflict variable stays among the variables to eliminate",
     [("new_elims = list_diff(list_union(vars_to_elim, [Var(\"_\")]), [conflict_vars[0]])",
       "new_elims = list_union(vars_to_elim, [Var(\"_\")])")]),
    ("M17", "semantic", "TACTICS: key 6 dispatches to tactic 1",
     [("        6: _tactic_trivial.__func__,  # type: ignore\n", "        6: _tactic_1.__func__,  # type: ignore\n")]),
    ("M18", "semantic", "evaluate: a constant-only term with constant 0 is unsatisfied (`< 0` becomes `<= 0`)",
     [("                if new_term.constant < 0:\n", "                if new_term.constant <= 0:\n")]),
    ("M19", "semantic", "_tactic_4: `len(conflict_vars) > 1` becomes `>= 1`",
     [("        if len(conflict_vars) > 1:\n            raise ValueError(\"Tactic 4 unsuccessful\")\n",
       "        if len(conflict_vars) >= 1:\n            raise ValueError(\"Tactic 4 unsuccessful\")\n")]),
    ("M20", "semantic", "_get_kaykobad_context: the emptiness test of the transformation is inverted (`== 0` becomes `!= 0`)",
     [("if (not matrix_contains_others) and len(list_diff(term.vars, vars_to_elim)) == 0:",
       "if (not matrix_contains_others) and len(list_diff(term.vars, vars_to_elim)) != 0:")]),
    ("M21", "semantic", "_tactic_4: the useful term is not removed from the recursive context",
     [("            new_context.terms.remove(useful_term)\n", "")]),
    ("M22", "semantic", "lacks_constraints renamed away (a listed method is missing)",
     [("    def lacks_constraints(self) -> bool:", "    def has_no_constraints(self) -> bool:")]),
    ("M23", "semantic", "PolyhedralTermList overrides the inherited copy (shallow)",
     [("    def lacks_constraints(self) -> bool:",
       "    def copy(self) -> PolyhedralTermList:\n        return PolyhedralTermList(self.terms)\n\n"
       "    def lacks_constraints(self) -> bool:")]),
    ("M24", "semantic", "_transform_term: the dispatcher returns the count of the NEXT call (count + 1)",
     [("                    return result, tactic_num, tb - ta, count\n", "                    return result, tactic_num, tb - ta, count + 1\n")]),
    ("M25", "semantic", "_transform: `new_terms = self` (in-place update of the operand: aliasing)",
     [("        new_terms = self.copy()\n\n        # List to store", "        new_terms = self\n\n        # List to store")]),
    ("M26", "semantic", "_tactic_4: `conflict_vars[-1]` (negative index) instead of `conflict_vars[0]`",
     [("        var_to_elim = conflict_vars[0]\n", "        var_to_elim = conflict_vars[-1]\n")]),
    ("H01", "harmless", "_transform: locals renamed (copy_new_terms -> siblings, helpers -> hs)", None),
    ("H02", "harmless", "logging.debug added in evaluate, _tactic_4 and _transform_term",
     [("        new_list = []\n        for term in self.terms:\n            new_term = term.copy()\n",
       "        new_list = []\n        logging.debug(\"evaluating\")\n        for term in self.terms:\n"
       "            logging.debug(term)\n            new_term = term.copy()\n"),
      ("        var_to_elim = conflict_vars[0]\n        goal_context: List[PolyhedralTerm] = []\n",
       "        var_to_elim = conflict_vars[0]\n        logging.debug(\"eliminating %s\", var_to_elim)\n"
       "        goal_context: List[PolyhedralTerm] = []\n"),
      ("        for tactic_num in tactics_order:  # noqa WPS327\n            try:  # noqa: WPS229\n",
       "        for tactic_num in tactics_order:  # noqa WPS327\n            logging.debug(\"tactic %s\", tactic_num)\n"
       "            try:  # noqa: WPS229\n")]),
    ("H03", "harmless", "_get_kaykobad_context: two independent statements of the success branch reordered",
     [("                    matrix_contains_others = (\n                        matrix_contains_others or len(list_diff(context_term.vars, forbidden_vars)) > 0\n"
       "                    )\n                    row_found = True\n",
       "                    row_found = True\n                    matrix_contains_others = (\n"
       "                        matrix_contains_others or len(list_diff(context_term.vars, forbidden_vars)) > 0\n"
       "                    )\n")]),
    ("H04", "harmless", "contains_behavior: locals renamed (retval -> ok, excess_vars -> missing)",
     [(CONTAINS_OLD, CONTAINS_OLD.replace("retval", "ok").replace("excess_vars", "missing"))]),
    ("H05", "harmless", "_tactic_2 / _tactic_3: locals renamed (conflict_vars -> clash, new_context_list -> kept)", None),
    ("H06", "harmless", "_transform: the two independent initialisations reordered (term_list / new_terms)",
     [("        term_list = list(self.terms)\n        new_terms = self.copy()\n",
       "        new_terms = self.copy()\n        term_list = list(self.terms)\n")]),
]


PREAMBLE = """# T1 for the pure-Python part of `PolyhedralTermList`

Generated by `harness/tlgen_mutations.py`
(rerun: `/venv/bin/python harness/tlgen_mutations.py <verif> /repo <scratch> docs/TLGEN_REPORT.md`).

## 1. What is translated

`translator/py2coq_termlist.py` (a fourth generator, in its own module; class `TLFn` subclasses `NFn` of `py2coq.py`;
`py2coq.main` has one import line and one `guard("TermListGen.v", ...)` line for it) renders, from the current `/repo/src`
on every run, into `coq/gen/TermListGen.v`:

* `PolyhedralTermList.(__init__, evaluate, contains_behavior, lacks_constraints, _get_kaykobad_context, _tactic_1,
  _tactic_2, _tactic_3, _tactic_4, _tactic_5, _tactic_trivial, _transform_term, _transform, elim_vars_by_refining,
  elim_vars_by_relaxing)` and the class-level dict `TACTICS` (`PolyhedralTermList_TACTICS`, a `match` on the key; a missing
  key is `Escape "KeyError"`);
* the methods it inherits from `iocontract.py:TermList` and that these call: `vars`, `copy`, `get_terms_with_vars`,
  `__or__` (checked: not overridden; `type(self)(...)` is `PolyhedralTermList.__init__`).

NOT translated, on purpose (they call `linprog`, `sympy` or build numpy matrices): `simplify`, `refines`, `is_empty`,
`optimize`, `termlist_to_polytope`, `polytope_to_termlist`, `reduce_polytope`, `verify_polytope_containment`,
`is_polytope_empty`, `_context_reduction` (-> `solve_for_variables`), `_get_tlp_context`, and the printing helpers.  Where a
translated function calls one of them it is an abstract parameter: class `TLPrims` of the new vocabulary file
`coq/base/PyTermList.v` (`p_simplify`, `p_context_reduction`, `p_termlist_to_polytope`, `p_linprog`, `p_res_status`,
`p_res_fun`, over abstract types `matrix`, `vector`, `lp_result`).  `proofs/TermListGenBase.v:poly_prims O` instantiates
every field with the hand model (`poly_simplify O`, `context_reduction O`, `polytope_vars` / `term_to_row`, the oracle
`O` of model/Poly.v; a "matrix" remembers its column names because the replay oracle matches LP problems by name).
The dispatcher, `_transform` and the two wrappers are generated inside `Section Dispatch` over an abstract table
`TACTICS : nat -> pterm -> list pterm -> list var -> bool -> M (option pterm * nat)`, so that an edit of one tactic does
not touch the obligations of the loop / wrappers.

New vocabulary (`base/PyTermList.v`; `PyDict.v` / `PyLoop.v` untouched): `map_m`, `filter_m`, `py_in_m`,
`list_intersection_m` / `list_diff_m` / `list_union_m` / `list_remove_m` (the list functions over an equality that may
raise: `==` on terms is the translated `PolyhedralTerm_eq`; `l.remove(x)` raises ValueError when absent), `list_get_m` /
`list_set_m` (IndexError), `py_range`, `py_list_copy`, `dict_of_list_m`, `py_deref` (AttributeError on None), `py_num`
(TypeError on None), `set_constant`, `py_time`, `try_except` (= `try_value_error`: the WHOLE try body is guarded,
`return` / `continue` / `break` inside it are values) and `try_except_any`.

Fail closed (`TRANSLATOR-UNSUPPORTED[TermListGen.v]: ...`, only this output file is poisoned): any construct outside
the subset, a missing listed method, an unexpected method of the class, an override of an inherited translated method,
a changed signature of a primitive, a module-level redefinition of a name used, an in-place update of an object that is
not provably built by the function and unaliased, a negative list index, an int literal whose numeric kind no use fixes,
a `return` inside joined branches.  Output is deterministic (checked with two hash seeds).

## 2. Equality theorems

`O` is the LP oracle of model/Poly.v, `wft t` = the keys of the dict are distinct, `wft' t` = additionally no stored zero
coefficient (what the constructor guarantees).  All equalities are pointwise equalities of monadic results (values and
error kinds).

| file | theorem | statement |
|---|---|---|
| TermListGenEval.v | `termlist_init_eq` | `PolyhedralTermList_init o = opt_list o` |
| | `termlist_vars_eq` | `PolyhedralTermList_vars ts = tl_vars ts` |
| | `termlist_copy_eq` | `Forall wft ts -> PolyhedralTermList_copy ts = map term_copy ts` |
| | `termlist_get_terms_with_vars_eq` | `... ts vs = filter (fun t => nonempty (list_intersection (term_vars_p t) vs)) ts` |
| | `termlist_or_eq` | `Forall wft a -> Forall wft b -> PolyhedralTermList_or a b = ret (list_union (map term_copy a) (map term_copy b))` |
| | `termlist_lacks_constraints_eq` | characterisation (no hand model) |
| | `evaluate_eq` | `Forall wft ts -> PolyhedralTermList_evaluate ts b = evaluate ts b` |
| | `contains_behavior_eq` | `Forall wft ts -> PolyhedralTermList_contains_behavior ts b = contains_behavior ts b` |
| TermListGenKaykobad.v | `get_kaykobad_context_eq` | `PolyhedralTermList__get_kaykobad_context term ctx vs refine = get_kaykobad_context term ctx vs refine` (NO precondition) |
| TermListGenTactic4.v | `tactic_4_eq` | `wft' term -> Forall wft' ctx -> PolyhedralTermList__tactic_4 fuel term ctx vs refine nv = tactic_4 fuel term ctx vs refine nv` (equal fuel) |
| | `tactic_trivial_eq` | `wft term -> ... = ret (Some (term_copy term), 1)` |
| TermListGenTactic32.v | `tactic_1_eq`, `tactic_5_eq` | `@PolyhedralTermList__tactic_k (poly_prims O) ... = tactic_k O ...` (no precondition) |
| | `tactic_2_eq` | `wft term -> Forall wft ctx -> @PolyhedralTermList__tactic_2 (poly_prims O) term ctx vs refine = tactic_2 O term ctx vs refine` |
| | `tactic_3_eq` | `wft' term -> Forall wft ctx -> NoDup vs -> ~ In "_" vs -> @PolyhedralTermList__tactic_3 (poly_prims O) ... = tactic_3 O ...` |
| TermListGenElim.v (any table `TAC` with `HT`: `TAC = run_tactic O` on `wft'` arguments, `HW`: results of `run_tactic` are `wft`) | `transform_term_eq` | `wft' term -> Forall wft' ctx -> PolyhedralTermList__transform_term TAC term ctx vs refine (Some order) = transform_term O order term ctx vs refine` |
| | `transform_eq` | `Forall wft' self -> Forall wft' ctx -> @PolyhedralTermList__transform (poly_prims O) TAC self ctx vs refine sp (Some order) = transform O self ctx vs refine sp order` |
| | `elim_vars_by_refining_eq`, `elim_vars_by_relaxing_eq` | same hypotheses, `= elim_vars_by_refining O ...` / `elim_vars_by_relaxing O ...` (incl. the relax tail and the `simplify` flag; the result of `simplify` is shown `wft'`) |
| TermListGenFacts.v | `tactics_table_eq` | `NoDup vs -> ~ In "_" vs -> wft' term -> Forall wft' ctx -> @PolyhedralTermList_TACTICS (poly_prims O) num term ctx vs refine = run_tactic O num term ctx vs refine` |
| | `run_tactic_wft` | the results of `run_tactic` are `wft` (discharges `HW`) |
| | `transform_term_closed`, `transform_closed`, `elim_vars_by_refining_closed`, `elim_vars_by_relaxing_closed`, `..._default` | the Elim theorems with `TAC := PolyhedralTermList_TACTICS`; `tactics_order=None` is `TACTICS_ORDER_polyhedra` |

`Print Assumptions`: everything is closed under the global context except `run_tactic_wft` and the `_closed` forms,
which use `TacticsFacts.tactic_1_spec` / `tactic_5_spec` (real arithmetic: the two allow-listed standard-library axioms).
Compile times: every new file < 10 s.

## 3. Python semantics that are approximated (each is also an `assumption:` line and in the generated header)

* a `PolyhedralTermList` object is the list in its only field; numbers are exact rationals (coefficients), `nat`
  (counts, indices; negative indices rejected), `Z` (tactic number / count next to the literal `-1`); an int literal
  is typed by its first typed use;
* `time.time()`, `tb - ta` and the time slot of the statistics triple are erased (`base/Py.v:stats` has no time field);
* `_tactic_4` (self-recursive) gets an explicit `fuel` parameter (`Escape "fuel"` when exhausted); the lambda of
  `TACTICS[4]` starts it with `1 + len(context)` — what model/Tactics.v:run_tactic uses; that this is enough is NOT proved
  (each recursive call removes one context term);
* `PolyhedralTermList.TACTICS[k](...)` is a call of the section variable; the dict itself is rendered separately;
* `==`, `in`, `list.remove`, `list_union/diff/intersection` on terms go through the translated `PolyhedralTerm.__eq__`
  (CPython's identity shortcut in `in` ignored); in-place updates of objects built in the same function are rebinding
  (ownership checked syntactically; results of `simplify` / `_transform` are taken to be new objects);
* `all(isinstance(t, PolyhedralTerm) for t in terms)` is True in the typed model (the raising branch of `__init__` is dropped);
  exception messages dropped after checking they are total, types kept; `raise X from e` raises X;
  `try: ... except ValueError as e: raise e` is the body alone; `except Exception` catches everything but the replay
  artefact `OracleMiss`; a call on a possibly-None value raises AttributeError, arithmetic on it TypeError;
* `np.abs` is `qabs`; `logging` and docstrings ignored.

## 4. Discrepancies between the hand models and the Python (all OUTSIDE the constructor invariant; hand models unchanged)

Each was reproduced on the real library (`PYTHONPATH=/repo/src`, `pacti.__file__` under /repo/src); the generated text
agrees with the library, the hand model does not; each is an `Example` and the equality is proved under the
precondition that excludes it.

1. **Stored zero coefficient in a context term** (only obtainable by `t.variables[z] = 0`): the code copies term lists
   (`context.copy()` in `_tactic_4`, `context | copy_new_terms` in `_transform`), and `PolyhedralTerm.copy` drops the zero;
   model/Tactics.v passes the un-copied context.  `TermListGenTactic4.v:tactic_4_stored_zero`: term `x + k <= 0`, context
   `[x + y <= 0, -y + 0*z <= 5]`, eliminate `[x, y, z]`, refine: library `(k <= -5, 2)`, hand model `IndexError`.
   `TermListGenFacts.v:transform_context_stored_zero`: `[x + y <= 0]._transform([y + 0*z <= 5], [y, z], True, False, [4])`:
   library `([x <= -5], [(4, 1)])`, hand model `IndexError`.
2. **`_` among the variables to eliminate** (the scratch variable of tactic 3; already a side condition of C04):
   `subst_term_vars[Var("_")] = ...` overwrites the entry `1/c0` in the code, the hand model conses a second binding.
   `TermListGenTactic32.v:tactic_3_underscore`: term `x + _ <= 0`, context `[x + z <= 3]`, eliminate `[x, _]`, relaxing:
   library `(z <= 3, 1)`, hand model `ValueError`.
3. **Association lists with a repeated key** denote no Python dict; on them the item-by-item construction of
   `PolyhedralTerm.copy` merges the entries, the hand model keeps both (`TermListGenEval.v:evaluate_repeated_key`,
   `copy_repeated_key`).  Not reachable from Python.

`NoDup vars_to_elim` in `tactic_3_eq` is what the proof uses (the model's intermediate substitution term keeps a repeated
variable twice); no input was found on which the final results differ, so it is stated as sufficient, not shown necessary.

## 5. Coverage of the requested list

Covered: everything in priority groups 1-3 — `evaluate`, `contains_behavior`, `lacks_constraints`, `__init__` / `copy`,
the relax tail and both wrappers with the `simplify` flag; `_transform` and `_transform_term`; `_get_kaykobad_context`,
`_tactic_4`, `_tactic_3`, `_tactic_trivial`, `_tactic_2` (whole function, `termlist_to_polytope` / `linprog` abstract), plus
`_tactic_1`, `_tactic_5` and the dict `TACTICS`.  Not present in this tree: the wrappers raise no ValueError of their own
for "a refined term still mentions an eliminated variable" — that check ("Could not eliminate variables") lives in
`iocontract.py:compose/quotient`, already covered by the first generator; the wrappers only re-raise ValueError from
`simplify` / `_transform`, which is translated (`try_except ... (raise ValueErr)` = the model's `as_value_error`).
Not done: proving that the fuel `1 + len(context)` never runs out; the new equalities are not yet restated as
`Cxx_code_*` theorems in `props/` (the property files are untouched).

## 6. Sensitivity experiment

Each row is one edit of `src/pacti/terms/polyhedra/polyhedra.py` applied to a scratch copy of `/repo/src`; the translator
is run into a scratch copy of `coq/` and `proofs/TermListGenFacts.vo` (which requires every group file) is rebuilt with
`make -k` (every `coqc` under `timeout 600`).  A *semantic* edit must be rejected by the translator or break an equality
proof; a *harmless* rewrite must still translate and prove.  The outcome names the theorem whose proof script stops
compiling and says whether the generated text (sha line excluded) differs from the original's.

"""

def sh(cmd, cwd=None, timeout=3600):
    p = subprocess.run(cmd, cwd=cwd, stdout=subprocess.PIPE, stderr=subprocess.STDOUT, text=True, timeout=timeout)
    return p.returncode, p.stdout


def rename_in(text, start_marker, end_marker, renames):
    a = text.index(start_marker)
    b = text.index(end_marker, a + len(start_marker))
    seg = text[a:b]
    for old, new in renames:
        seg2 = re.sub(r"\b" + re.escape(old) + r"\b", new, seg)
        assert seg2 != seg, (old, start_marker)
        seg = seg2
    return text[:a] + seg + text[b:]


def apply_edit(text, ident, pairs):
    if ident == "H01":
        return rename_in(text, "    def _transform(", "    def optimize(", [("copy_new_terms", "siblings"), ("helpers", "hs")])
    if ident == "H05":
        text = rename_in(text, "    def _tactic_2(", "    @staticmethod\n    def _tactic_3(",
                         [("conflict_vars", "clash"), ("new_context_list", "kept")])
        return rename_in(text, "    def _tactic_3(", "    @staticmethod\n    def _tactic_4(", [("conflict_vars", "clash")])
    for old, new in pairs:
        assert text.count(old) == 1, (ident, old, text.count(old))
        text = text.replace(old, new, 1)
    return text


def all_errors(log):
    """[(file, line, message)] for every coqc error of a `make -k` log"""
    out = []
    for m in re.finditer(r'File "\./([^"]+)", line (\d+), characters [^\n]*\n(Error:.*?)(?=\nmake|\nFile "|\nCOQC|\Z)', log, re.S):
        msg = " ".join(m.group(3).split())
        k = re.search(r"Unable to unify|Impossible to unify|The term|Found no subterm|Tactic failure|No such|Cannot|Not an inductive|"
                      r"Wrong|Illegal|The reference|Unable to find|No matching|Tactic generated|Not a discriminable", msg)
        out.append((m.group(1), int(m.group(2)), ("Error: " + msg[k.start():] if k else msg)[:170]))
    return out


def enclosing(vfile, line):
    name = "?"
    for i, l in enumerate(open(vfile), 1):
        m = re.match(r"\s*(?:Theorem|Lemma|Corollary|Example|Definition|Fixpoint)\s+([\w']+)", l)
        if m:
            name = m.group(1)
        if i >= line:
            break
    return name


def main(verif, repo, scratch, report=None, keep=False, only=None):
    if os.path.exists(scratch):
        shutil.rmtree(scratch)
    os.makedirs(scratch)
    coq = os.path.join(scratch, "coq")
    shutil.copytree(os.path.join(verif, "coq"), coq, ignore=shutil.ignore_patterns("cases"), copy_function=shutil.copy2)
    orig = open(os.path.join(repo, REL)).read()
    rows = []
    baseline = {}

    def gen_text():     # generated text without the sha256 line of the header
        return "".join(l for l in open(os.path.join(coq, "gen", "TermListGen.v")) if "sha256" not in l)

    def run(ident, kind, desc, pairs):
        tree = os.path.join(scratch, "repo")
        if os.path.exists(tree):
            shutil.rmtree(tree)
        shutil.copytree(os.path.join(repo, "src"), os.path.join(tree, "src"))
        if ident != "ORIG":
            text = apply_edit(orig, ident, pairs)
            with open(os.path.join(tree, REL), "w") as fh:
                fh.write(text)
            rc, out = sh([PY, "-c", f"import ast; ast.parse(open({os.path.join(tree, REL)!r}).read())"])
            assert rc == 0, out
        rc, out = sh([PY, os.path.join(verif, "translator", "py2coq.py"), tree, os.path.join(coq, "gen")])
        msg = [l for l in out.splitlines() if l.startswith("TRANSLATOR-UNSUPPORTED")]
        other = [l for l in msg if "[TermListGen.v]" not in l]
        if rc != 0 or msg:
            res = ("translator rejects" + (" (other generators too)" if other else ""), (msg or [out.strip()[-200:]])[0][:260])
            passed = False
        else:
            if ident == "ORIG":
                baseline["t"] = gen_text()
            changed = gen_text() != baseline["t"]
            rc2, log = sh(["make", "-k", "-j8", "COQC=timeout 600 coqc"] + TARGETS, cwd=coq)
            if rc2 == 0:
                res = ("translates; all equality proofs COMPILE", "")
                passed = True
            else:
                errs = all_errors(log)
                if errs:
                    names = [f"`{enclosing(os.path.join(coq, f), line)}` ({f}:{line})" for f, line, _ in errs]
                    res = ("translates; proof FAILS: " + ", ".join(names), errs[0][2])
                else:
                    res = ("translates; build FAILS", log.strip()[-200:])
                passed = False
            res = (res[0] + (" [generated text differs from the original's]" if changed else ""), res[1])
        ok = (passed == (kind in ("harmless", "original")))
        rows.append((ident, kind, desc, res[0], res[1], ok))
        print(f"{ident} [{kind}] {desc}\n    -> {res[0]} {res[1]}\n    {'as expected' if ok else 'UNEXPECTED'}", flush=True)

    run("ORIG", "original", "unmodified /repo/src", None)
    for ident, kind, desc, pairs in EDITS:
        if only and ident not in only:
            continue
        run(ident, kind, desc, pairs)
    run("ORIG", "original", "unmodified /repo/src again (after all edits)", None)
    bad = [r for r in rows if not r[5]]
    if report:
        with open(report, "w") as fh:
            fh.write(PREAMBLE)
            sem = [r for r in rows if r[1] == "semantic"]
            fh.write(f"Summary: {len(sem)} semantic edits — {sum('proof FAILS' in r[3] for r in sem)} break an equality "
                     f"proof, {sum('translator rejects' in r[3] for r in sem)} are rejected by the translator, "
                     f"{sum('COMPILE' in r[3] for r in sem)} pass unnoticed; "
                     f"{sum(r[1] == 'harmless' for r in rows)} harmless rewrites — "
                     f"{sum(r[1] == 'harmless' and 'COMPILE' in r[3] for r in rows)} still translate and prove.  "
                     f"Unexpected outcomes: {len(bad)}.\n\n")
            fh.write("| id | kind | edit | outcome | first error |\n|---|---|---|---|---|\n")
            for ident, kind, desc, res, err, ok in rows:
                fh.write(f"| {ident} | {kind} | {desc} | {res} | {err.replace('|', '/')} |\n")
    tree = os.path.join(scratch, "repo")
    if os.path.exists(tree):
        shutil.rmtree(tree)          # the scratch SOURCE tree is always removed
    if not keep:
        shutil.rmtree(scratch)
    print("unexpected outcomes:", len(bad))
    return 1 if bad else 0


if __name__ == "__main__":
    argv = sys.argv[1:]
    only = None
    if "--only" in argv:
        i = argv.index("--only")
        only = set(argv[i + 1].split(","))
        del argv[i:i + 2]
    args = [a for a in argv if a != "--keep"]
    sys.exit(main(*args, keep="--keep" in argv, only=only))
