#!/usr/bin/env python3
"""Sensitivity experiment for the translation of the dictionary form of COMPOUND contracts
(translator/py2coq_compjson.py -> gen/JsonCompoundGen.v: PolyhedralIoContractCompound.to_dict / from_strings), the
equality proofs proofs/JsonGenCompound.v, the facts proofs/JsonCompoundFacts.v and the tie blocks of props/C10.v.

Each edit is applied to a scratch copy of /repo/src (under the scratch directory, never /repo), the translator is run
into a scratch copy of coq/, and the affected files are rebuilt with `make -k` (every coqc under `timeout`).  A DEFECT
must be rejected by the translator (fail closed: the generated file is replaced by a stub that does not compile) or
break a proof; a HARMLESS rewrite must still translate and prove.  Exit status 0 iff every defect breaks something and
no harmless rewrite breaks anything.  The scratch copies are removed (unless --keep).

usage: compjson_mutations.py [<verif dir> [<repo dir> [<scratch dir>]]] [--table out.md] [--keep]
"""
import os
import re
import shutil
import sys

sys.path.insert(0, os.path.dirname(os.path.abspath(__file__)))
from jsongen_mutations import sh, all_errors, enclosing, PY  # noqa: E402

PCF = "src/pacti/contracts/polyhedral_iocontract.py"
GEN = "JsonCompoundGen.v"
TARGETS = ["proofs/JsonGenCompound.vo", "proofs/JsonCompoundFacts.vo", "props/C10.vo"]
SEEDED = ["seeded/C10h-compound-to-dict-shared-seen/patch.diff"]      # relative to the verif dir
SEEDED_FALLBACK = "/tmp/mut7_C10b_out/patch.diff"

TD_I = '        c_temp["input_vars"] = [str(x) for x in self.inputvars]\n'
TD_O = '        c_temp["output_vars"] = [str(x) for x in self.outputvars]\n'
TD_A = '        c_temp["assumptions"] = [x.to_str_list() for x in self.a.nested_termlist]\n'
TD_G = '        c_temp["guarantees"] = [x.to_str_list() for x in self.g.nested_termlist]\n'
FS_G_LOOP = "            for termlist_str in guarantees:\n"
FS_A_APP = "                a.append(PolyhedralTermList(a_termlist))\n"
FS_NEW = ("            assumptions=NestedPolyhedra(a, force_empty_intersection=True),\n"
          "            guarantees=NestedPolyhedra(g, force_empty_intersection=False),\n")
SHARED_SEEN = (   # the seeded change C10h, used when no patch file is found
    '        c_temp = {}\n' + TD_I + TD_O + TD_A + TD_G,
    '        seen = set()\n\n'
    '        def _unique_str_lists(nested: NestedPolyhedra) -> List[List[str]]:\n'
    '            str_lists = []\n'
    '            for tl in nested.nested_termlist:\n'
    '                strs = tl.to_str_list()\n'
    '                key = tuple(strs)\n'
    '                if key not in seen:\n'
    '                    seen.add(key)\n'
    '                    str_lists.append(strs)\n'
    '            return str_lists\n\n'
    '        c_temp: dict = {}\n' + TD_I + TD_O +
    '        c_temp["assumptions"] = _unique_str_lists(self.a)\n'
    '        c_temp["guarantees"] = _unique_str_lists(self.g)\n')

# (id, kind, description, [(old, new), ...]) — every `old` is looked up inside class PolyhedralIoContractCompound only
EDITS = [
    ("D01", "defect", "to_dict: a `seen` set shared between the two sides drops a guarantee alternative whose printed "
     "strings equal an assumption alternative's (seeded change C10h; its patch.diff when present)", "PATCH"),
    ("D02", "defect", "to_dict: assumptions and guarantees swapped",
     [(TD_A, TD_A.replace("self.a.", "self.g.")), (TD_G, TD_G.replace("self.g.", "self.a."))]),
    ("D03", "defect", "to_dict: the last guarantee alternative is dropped (slice [:-1])",
     [(TD_G, TD_G.replace("self.g.nested_termlist]", "self.g.nested_termlist[:-1]]"))]),
    ("D04", "defect", "to_dict: the assumption alternatives are sorted",
     [(TD_A, '        c_temp["assumptions"] = sorted(x.to_str_list() for x in self.a.nested_termlist)\n')]),
    ("D05", "defect", "to_dict: output_vars written from self.inputvars",
     [(TD_O, TD_O.replace("self.outputvars", "self.inputvars"))]),
    ("D06", "defect", "to_dict: alternatives de-duplicated within the guarantees (explicit loop with `not in`)",
     [(TD_G, "        g_lists = []\n        for x in self.g.nested_termlist:\n            strs = x.to_str_list()\n"
             "            if strs not in g_lists:\n                g_lists.append(strs)\n"
             '        c_temp["guarantees"] = g_lists\n')]),
    ("D07", "defect", "to_dict: only alternatives with a non-empty printed form are written (condition in the comprehension)",
     [(TD_G, TD_G.replace("self.g.nested_termlist]", "self.g.nested_termlist if len(x.to_str_list()) != 0]"))]),
    ("D08", "defect", "from_strings: the guarantees are read from the `assumptions` argument",
     [(FS_G_LOOP, "            for termlist_str in assumptions:\n")]),
    ("D09", "defect", "from_strings: the disjointness flags of the two NestedPolyhedra are swapped",
     [(FS_NEW, FS_NEW.replace("True", "@").replace("False", "True").replace("@", "False"))]),
    ("D10", "defect", "from_strings: only the first assumption alternative is kept (break after the first append)",
     [(FS_A_APP, FS_A_APP + "                break\n")]),
    ("D11", "defect", "from_strings: the truthiness test `if guarantees:` replaced by `if True:` (a None argument now "
     "raises TypeError instead of giving no guarantees)",
     [("        if guarantees:\n", "        if True:\n")]),
    ("D12", "defect", "from_strings: input and output variables exchanged in the constructor call",
     [("            input_vars=[Var(x) for x in input_vars],\n            output_vars=[Var(x) for x in output_vars],\n"
       "            assumptions=NestedPolyhedra",
       "            input_vars=[Var(x) for x in output_vars],\n            output_vars=[Var(x) for x in input_vars],\n"
       "            assumptions=NestedPolyhedra")]),
    ("H01", "harmless", "to_dict: the two comprehensions bound to temporary variables first",
     [(TD_A + TD_G, "        a_lists = [x.to_str_list() for x in self.a.nested_termlist]\n"
                    "        g_lists = [x.to_str_list() for x in self.g.nested_termlist]\n"
                    '        c_temp["assumptions"] = a_lists\n        c_temp["guarantees"] = g_lists\n')]),
    ("H02", "harmless", "to_dict: explicit loops with append instead of the two comprehensions",
     [(TD_A + TD_G, "        a_lists = []\n        for x in self.a.nested_termlist:\n            a_lists.append(x.to_str_list())\n"
                    "        g_lists = []\n        for y in self.g.nested_termlist:\n            g_lists.append(y.to_str_list())\n"
                    '        c_temp["assumptions"] = a_lists\n        c_temp["guarantees"] = g_lists\n')]),
    ("H03", "harmless", "locals renamed (to_dict: c_temp -> d, x -> alt; from_strings: termlist_str -> strs, "
     "a_termlist / g_termlist -> terms_a / terms_g, x -> s, item -> t)", "RENAME"),
    ("H04", "harmless", "to_dict: the dictionary returned as one literal",
     [("        c_temp = {}\n" + TD_I + TD_O + TD_A + TD_G + "        return c_temp\n",
       "        return {\n"
       '            "input_vars": [str(x) for x in self.inputvars],\n'
       '            "output_vars": [str(x) for x in self.outputvars],\n'
       '            "assumptions": [x.to_str_list() for x in self.a.nested_termlist],\n'
       '            "guarantees": [x.to_str_list() for x in self.g.nested_termlist],\n'
       "        }\n")]),
]


def compound_segment(text):
    a = text.index("class PolyhedralIoContractCompound(")
    return a, len(text)


def apply_edit(text, ident, pairs):
    a, b = compound_segment(text)
    seg = text[a:b]
    if pairs == "RENAME":
        for old, new in ((r"\bc_temp\b", "d"), (r"\bx\.to_str_list\(\) for x in\b", "alt.to_str_list() for alt in"),
                         (r"\btermlist_str\b", "strs"), (r"\ba_termlist\b", "terms_a"), (r"\bg_termlist\b", "terms_g"),
                         (r"\bitem for x in strs for item in serializer.polyhedral_termlist_from_string\(x\)",
                          "t for s in strs for t in serializer.polyhedral_termlist_from_string(s)")):
            seg2 = re.sub(old, new, seg)
            assert seg2 != seg, (ident, old)
            seg = seg2
        return text[:a] + seg + text[b:]
    for old, new in pairs:
        assert seg.count(old) == 1, (ident, old, seg.count(old))
        seg = seg.replace(old, new, 1)
    return text[:a] + seg + text[b:]


def c10_dependents(coq):
    """names of the theorems of props/C10.v stated after the compound tie block starts (they stop checking when a
    file they import breaks)"""
    txt = open(os.path.join(coq, "props", "C10.v")).read()
    i = txt.find("T1 tie (compound contracts")
    return re.findall(r"^Theorem\s+(\w+)", txt[i:] if i >= 0 else "", re.M)


def main(verif, repo, scratch, table=None, keep=False):
    if os.path.exists(scratch):
        shutil.rmtree(scratch)
    os.makedirs(scratch)
    coq = os.path.join(scratch, "coq")
    # copy2 keeps mtimes, so `make` only rebuilds what the translator rewrites
    shutil.copytree(os.path.join(verif, "coq"), coq, ignore=shutil.ignore_patterns("cases"), copy_function=shutil.copy2)
    orig = open(os.path.join(repo, PCF)).read()
    patch = next((p for p in [os.path.join(verif, x) for x in SEEDED] + [SEEDED_FALLBACK] if os.path.exists(p)), None)
    rows, baseline = [], {}
    tree = os.path.join(scratch, "repo")

    def run(ident, kind, desc, pairs):
        if os.path.exists(tree):
            shutil.rmtree(tree)
        shutil.copytree(os.path.join(repo, "src"), os.path.join(tree, "src"))
        how = ""
        if pairs == "PATCH" and patch is not None:
            rc, out = sh(["patch", "-p1", "--no-backup-if-mismatch", "-i", patch], cwd=tree)
            assert rc == 0, out
            how = f" [applied {patch}]"
        elif ident != "ORIG":
            text = apply_edit(orig, ident, [SHARED_SEEN] if pairs == "PATCH" else pairs)
            with open(os.path.join(tree, PCF), "w") as fh:
                fh.write(text)
        rc, out = sh([PY, "-c", f"import ast; ast.parse(open({os.path.join(tree, PCF)!r}).read())"])
        assert rc == 0, out

        def gen_text():
            return "".join(ln for ln in open(os.path.join(coq, "gen", GEN)) if "sha256" not in ln)
        rc, out = sh([PY, os.path.join(verif, "translator", "py2coq.py"), tree, os.path.join(coq, "gen")])
        rejected = [ln for ln in out.splitlines() if ln.startswith("TRANSLATOR-UNSUPPORTED[")]
        other = [ln for ln in rejected if not ln.startswith(f"TRANSLATOR-UNSUPPORTED[{GEN}]")]
        if rc != 0:
            res, err, passed = "translator crashes", out.strip()[-240:], None
        else:
            rc2, log = sh(["make", "-k", "-j8", "COQC=timeout 600 coqc"] + TARGETS, cwd=coq)
            if rejected:
                res = "translator REJECTS (generated file poisoned)"
                err = rejected[0][:230]
                passed = rc2 == 0         # a rejection that breaks nothing would be a hole
            elif rc2 == 0:
                res, err, passed = "translates; every obligation still COMPILES", "", True
            else:
                errs = all_errors(log)
                names = [f"`{enclosing(os.path.join(coq, f), line)}` ({f}:{line})" for f, line, _ in errs]
                res = "translates; proof FAILS: " + (", ".join(names) or "build fails")
                err = errs[0][2] if errs else log.strip()[-200:]
                passed = False
            if passed is False:
                res += "; no longer checked: " + ", ".join(c10_dependents(coq))
            if ident == "ORIG" and GEN not in baseline:
                baseline[GEN] = gen_text()
            if not rejected:
                res += (" [generated text differs]" if gen_text() != baseline.get(GEN) else " [generated text IDENTICAL]")
            if other:
                res += f" (also rejected: {', '.join(sorted({ln.split(']')[0].split('[')[1] for ln in other}))})"
        ok = passed is not None and passed == (kind in ("harmless", "original"))
        rows.append((ident, kind, desc + how, res, err, ok))
        print(f"{ident} [{kind}] {desc}{how}\n    -> {res}\n       {err}\n    {'as expected' if ok else 'UNEXPECTED'}", flush=True)

    try:
        run("ORIG", "original", "unmodified /repo/src", None)
        for ident, kind, desc, pairs in EDITS:
            run(ident, kind, desc, pairs)
        run("ORIG", "original", "unmodified /repo/src again (after all edits)", None)
    finally:
        if os.path.exists(tree):
            shutil.rmtree(tree)              # the scratch SOURCE tree is always removed
        bad = [r for r in rows if not r[5]]
        if table:
            with open(table, "w") as fh:
                d = [r for r in rows if r[1] == "defect"]
                fh.write(f"Summary: {len(d)} defects — {sum('proof FAILS' in r[3] for r in d)} break a proof, "
                         f"{sum('REJECTS' in r[3] for r in d)} are rejected by the translator, "
                         f"{sum('COMPILES' in r[3] for r in d)} pass unnoticed; "
                         f"{sum(r[1] == 'harmless' for r in rows)} harmless rewrites — "
                         f"{sum(r[1] == 'harmless' and 'COMPILES' in r[3] for r in rows)} still translate and prove.  "
                         f"Unexpected outcomes: {len(bad)}.\n\n")
                fh.write("| id | kind | edit of polyhedral_iocontract.py | outcome | first error |\n|---|---|---|---|---|\n")
                for ident, kind, desc, res, err, ok in rows:
                    fh.write(f"| {ident} | {kind} | {desc} | {res} | {err.replace('|', '/')} |\n")
        if not keep and os.path.exists(scratch):
            shutil.rmtree(scratch)
    print("unexpected outcomes:", len(bad))
    return 1 if bad or len(rows) != len(EDITS) + 2 else 0


if __name__ == "__main__":
    argv = sys.argv[1:]
    keep = "--keep" in argv
    table = argv[argv.index("--table") + 1] if "--table" in argv else None
    pos = [a for i, a in enumerate(argv) if a not in ("--keep", "--table") and (i == 0 or argv[i - 1] != "--table")]
    here = os.path.dirname(os.path.dirname(os.path.abspath(__file__)))
    verif = pos[0] if len(pos) > 0 else here
    repo = pos[1] if len(pos) > 1 else "/repo"
    scratch = pos[2] if len(pos) > 2 else f"/tmp/compjson_mut_{os.getpid()}"
    sys.exit(main(verif, repo, scratch, table=table, keep=keep))
