#!/usr/bin/env python3
"""Sensitivity experiment for the PolyhedralTerm translation (gen/TermGen.v + proofs/TermGenFacts.v).

For each small edit of src/pacti/terms/polyhedra/polyhedra.py (applied to a scratch copy of the source
tree, one at a time) the translator is run into a scratch copy of the Coq tree and
proofs/TermGenFacts.vo is rebuilt.  Semantic edits must break the translator (exit 3, fail closed) or a
proof; harmless rewrites must pass.  Nothing outside the scratch directory is written.

usage: termgen_mutations.py <verif dir> <repo dir> <scratch dir> [report.md]
"""
import os
import re
import shutil
import subprocess
import sys

PY = "/venv/bin/python"
REL = "src/pacti/terms/polyhedra/polyhedra.py"

# (id, kind, description, old text, new text)   kind: "semantic" | "harmless"
EDITS = [
    ("M01", "semantic", "isolate_variable: drop the minus of the constant",
     "constant=-self.constant / self.get_coefficient(var_to_isolate)",
     "constant=self.constant / self.get_coefficient(var_to_isolate)"),
    ("M02", "semantic", "get_polarity: `>= 0` becomes `> 0`",
     "return self.variables[var] >= 0", "return self.variables[var] > 0"),
    ("M03", "semantic", "rename_variable: forget remove_variable(source_var)",
     "            new_term = new_term.remove_variable(source_var)\n", ""),
    ("M04", "semantic", "multiply: `factor * val` becomes `val`",
     "{key: factor * val for key, val in self.variables.items()}",
     "{key: val for key, val in self.variables.items()}"),
    ("M05", "semantic", "__add__: forget the keys that occur only in `other`",
     "varlist = list_union(self.vars, other.vars)", "varlist = self.vars"),
    ("M06", "semantic", "__eq__: forget to compare the constants",
     "return match and np.equal(self.constant, other.constant)", "return match"),
    ("M07", "semantic", "__eq__: key sets compared in one direction only (written with all(...))",
     "match = self.variables.keys() == other.variables.keys()",
     "match = all(k in other.variables for k in self.variables.keys())"),
    ("M08", "semantic", "__init__: keep only positive coefficients (`!= 0` becomes `> 0`)",
     "            if value != 0:\n", "            if value > 0:\n"),
    ("M09", "semantic", "remove_variable: forget the pop",
     "            that.variables.pop(var)\n", ""),
    ("M10", "semantic", "substitute_variable: multiply by 1 instead of the coefficient",
     "term = subst_with_term.multiply(self.get_coefficient(var))", "term = subst_with_term.multiply(1)"),
    ("M11", "semantic", "get_matching_vars: `or` becomes `and`",
     "== variable_polarity[var]) or (  # noqa: WPS337", "== variable_polarity[var]) and (  # noqa: WPS337"),
    ("M12", "semantic", "get_coefficient: absent variable has coefficient 1",
     "            return self.variables[var]\n        return 0\n", "            return self.variables[var]\n        return 1\n"),
    ("M13", "semantic", "get_sign: signs swapped",
     "            return 1\n        return -1\n", "            return -1\n        return 1\n"),
    ("M14", "semantic", "contains_var: always True",
     "return var_to_seek in self.vars", "return True"),
    ("M15", "semantic", "remove_variable: pop on `self` instead of a copy (aliasing: mutates the operand)",
     "            that = self.copy()\n            that.variables.pop(var)", "            that = self\n            that.variables.pop(var)"),
    ("M16", "semantic", "copy: method renamed away (a listed method is missing)",
     "    def copy(self) -> PolyhedralTerm:", "    def copy2(self) -> PolyhedralTerm:"),
    ("M17", "semantic", "isolate_variable: divide the coefficients by the coefficient of the wrong sign (`-v` becomes `v`)",
     "k: -v / self.get_coefficient(var_to_isolate) for k, v", "k: v / self.get_coefficient(var_to_isolate) for k, v"),
    ("M18", "semantic", "rename_variable: overwrite instead of accumulate (`+=` becomes `=`)",
     "new_term.variables[target_var] += new_term.variables[source_var]",
     "new_term.variables[target_var] = new_term.variables[source_var]"),
    ("H01", "harmless", "vars: local `varlist` renamed to `vl`",
     "        varlist = self.variables.keys()\n        return list(varlist)", "        vl = self.variables.keys()\n        return list(vl)"),
    ("H02", "harmless", "remove_variable: local `that` renamed to `result`",
     "            that = self.copy()\n            that.variables.pop(var)\n            return that",
     "            result = self.copy()\n            result.variables.pop(var)\n            return result"),
    ("H03", "harmless", "multiply: comprehension variables renamed, a logging.debug added",
     "        variables = {key: factor * val for key, val in self.variables.items()}\n",
     "        logging.debug(\"multiply by %s\", factor)\n        variables = {k: factor * coeff for k, coeff in self.variables.items()}\n"),
    ("H04", "harmless", "__eq__: local `match` renamed to `same`",
     None, None),  # handled specially: word replace inside __eq__
    ("H05", "harmless", "get_coefficient: if/else instead of early return",
     "        if self.contains_var(var):\n            return self.variables[var]\n        return 0\n",
     "        if self.contains_var(var):\n            return self.variables[var]\n        else:\n            return 0\n"),
]


def sh(cmd, cwd=None, timeout=1800):
    p = subprocess.run(cmd, cwd=cwd, stdout=subprocess.PIPE, stderr=subprocess.STDOUT, text=True, timeout=timeout)
    return p.returncode, p.stdout


def apply_edit(text, ident, old, new):
    if ident == "H04":
        a = text.index("    def __eq__(self, other: object) -> bool:\n        if not isinstance(other, type(self)):\n"
                       "            raise ValueError()\n        match = self.variables.keys()")
        b = text.index("    def __str__", a)
        seg = re.sub(r"\bmatch\b", "same", text[a:b])
        assert seg != text[a:b]
        return text[:a] + seg + text[b:]
    assert text.count(old) == 1, (ident, text.count(old))
    return text.replace(old, new, 1)


def first_error(log):
    m = re.search(r'File "\./([^"]+)", line (\d+), characters [^\n]*\n(Error:[^\n]*(?:\n[^\n]*){0,2})', log)
    if m:
        return m.group(1), int(m.group(2)), " ".join(m.group(3).split())[:160]
    return None


def enclosing(vfile, line):
    """name of the Theorem/Lemma/... enclosing a line"""
    name = "?"
    for i, l in enumerate(open(vfile), 1):
        m = re.match(r"\s*(?:Theorem|Lemma|Corollary|Example|Definition|Fixpoint)\s+([\w']+)", l)
        if m:
            name = m.group(1)
        if i >= line:
            break
    return name


def main(verif, repo, scratch, report=None):
    if os.path.exists(scratch):
        shutil.rmtree(scratch)
    os.makedirs(scratch)
    coq = os.path.join(scratch, "coq")
    shutil.copytree(os.path.join(verif, "coq"), coq, ignore=shutil.ignore_patterns("cases"), copy_function=shutil.copy2)
    # copytree keeps mtimes of files (copy2), so `make` only rebuilds what the translator rewrites
    orig = open(os.path.join(repo, REL)).read()
    rows = []

    def run(ident, kind, desc, old, new):
        tree = os.path.join(scratch, "repo")
        if os.path.exists(tree):
            shutil.rmtree(tree)
        shutil.copytree(os.path.join(repo, "src"), os.path.join(tree, "src"))
        text = orig if ident == "ORIG" else apply_edit(orig, ident, old, new)
        with open(os.path.join(tree, REL), "w") as fh:
            fh.write(text)
        # the edited file must still be valid Python
        rc, out = sh([PY, "-c", f"import ast,sys; ast.parse(open({os.path.join(tree, REL)!r}).read())"])
        assert rc == 0, out
        rc, out = sh([PY, os.path.join(verif, "translator", "py2coq.py"), tree, os.path.join(coq, "gen")])
        rejected = [l for l in out.splitlines() if l.startswith("TRANSLATOR-UNSUPPORTED")]
        if rc != 0 or rejected:
            # (the translator now poisons the rejected output file instead of exiting: dependants stop compiling)
            res = ("translator rejects", (rejected or [out.strip()[-200:]])[0][:200])
        else:
            rc2, log = sh(["make", "-j8", "COQC=timeout 600 coqc", "proofs/TermGenFacts.vo"], cwd=coq)
            if rc2 == 0:
                res = ("translates; proofs/TermGenFacts.v COMPILES", "")
            else:
                fe = first_error(log)
                if fe:
                    f, line, err = fe
                    res = (f"translates; {f} FAILS in `{enclosing(os.path.join(coq, f), line)}` (line {line})", err)
                else:
                    res = ("translates; build FAILS", log.strip()[-200:])
        ok = (("COMPILES" in res[0]) == (kind in ("harmless", "original")))
        rows.append((ident, kind, desc, res[0], res[1], ok))
        print(f"{ident} [{kind}] {desc}\n    -> {res[0]} {res[1]}\n    {'as expected' if ok else 'UNEXPECTED'}", flush=True)

    run("ORIG", "original", "unmodified /repo/src", None, None)
    for ident, kind, desc, old, new in EDITS:
        run(ident, kind, desc, old, new)
    run("ORIG", "original", "unmodified /repo/src again (after all edits)", None, None)
    bad = [r for r in rows if not r[5]]
    if report:
        with open(report, "w") as fh:
            fh.write("| id | kind | edit of polyhedra.py | outcome | first error |\n|---|---|---|---|---|\n")
            for ident, kind, desc, res, err, ok in rows:
                fh.write(f"| {ident} | {kind} | {desc} | {res} | {err.replace('|', '/')} |\n")
    print("unexpected outcomes:", len(bad))
    return 1 if bad else 0


if __name__ == "__main__":
    sys.exit(main(*sys.argv[1:]))
