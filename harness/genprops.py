import subprocess, re, sys
IMPORTS = "Require Import Py ListsGen ConstGen AlgebraGen AlgebraSpec IfaceSpec Sem Term Poly Tactics PolyDomain PolySpec TermFacts PolyFacts TacticsFacts PolyDomainFacts EqFacts PolyKeepFacts."
EXTRA = ""
def types(names):
    body = "From Coq Require Import List String Bool QArith Reals. Import ListNotations.\n" + IMPORTS + EXTRA + "\nSet Printing Width 110. Set Printing Depth 1000.\n" + "".join(f"Check @{n}.\n" for n in names)
    open('/tmp/gt.v','w').write(body)
    out = subprocess.run("cd /verif/coq && coqtop -Q base '' -Q gen '' -Q model '' -Q proofs '' -Q props '' -batch -l /tmp/gt.v", shell=True, capture_output=True, text=True).stdout
    res = {}
    cur = None
    for line in out.splitlines():
        m = re.match(r"^@?(\S+)(\s+:.*)?$", line)
        if m and m.group(1) in names and not line.startswith(" "):
            cur = m.group(1); res[cur] = [m.group(2).strip() if m.group(2) else ""]; continue
        if cur is not None:
            res[cur].append(line)
    return {k: "\n".join(v).strip()[1:].strip() for k, v in res.items()}
def gen(pid, header, items, extra=""):
    global EXTRA
    if pid not in sys.argv[1:]:      # usage: genprops.py C16 C19 …  (C01/C02/C08 carry hand-made implicit-argument fixes)
        return
    EXTRA = ("\nRequire Import " + extra + ".") if extra else ""
    ty = types([src for _, src, _ in items])
    s = header + "\nFrom Coq Require Import List String Bool QArith Reals.\nImport ListNotations.\n" + IMPORTS + EXTRA + "\n\n"
    for name, src, comment in items:
        s += f"(* {comment} *)\nTheorem {name} :\n  {ty[src]}.\nProof. exact @{src}. Qed.\nPrint Assumptions {name}.\n\n"
    open(f'/verif/coq/props/{pid}.v','w').write(s)
gen("C01", """(* C01 — composition returns a sound abstraction of the exact composition.
   The translated algebra (gen/AlgebraGen.v, regenerated from iocontract.py on every run) instantiated with the polyhedral
   primitives (model/PolyDomain.v), for every LP oracle meeting lp_spec 0, every wiring, every vars_to_keep, both simplify
   flags and EVERY tactic order: C05 (any domain) + the polyhedral DomainSpec instance proved from C04 / C07 / TermFacts.
   wfpc: unique dict keys, no stored zero coefficient, no variable named "_"; ifpc: duplicate-free interface without "_".
   Statements only; proofs in proofs/PolyDomainFacts.v. *)""",
    [("C01", "C01_poly", "in every situation where C's assumptions hold and each component honours its contract, both components' assumptions hold and C's guarantees hold"),
     ("C01_domain_spec", "poly_spec", "the polyhedral primitives meet the documented contracts of the abstract TermList (for every tactic order)")])
gen("C02", """(* C02 — the quotient composed with the divisor refines the dividend.
   Same construction as C01.  The quotient makes one call to the refinement test (dividend assumptions vs divisor
   assumptions), which for polyhedra is sound only up to REFINEMENT_TOLERANCE; the theorem is therefore stated pointwise in
   that one premise, with the unconditional corollaries: the test did not answer True; exact containment of the assumptions;
   and the tolerance-aware form.  Statements only; proofs in proofs/PolyDomainFacts.v. *)""",
    [("C02", "C02_poly", "pointwise in the refinement premise"),
     ("C02_refines_not_true", "C02_poly_refines_not_true", "the branch where the refinement test answered False or failed: unconditional"),
     ("C02_contained", "C02_poly_contained", "dividend assumptions exactly contained in the divisor's: unconditional"),
     ("C02_tolerant", "C02_poly_tolerant", "tolerance-aware form through C03_sound")])
gen("C08", """(* C08 — merging is the exact conjunction of the two viewpoints (polyhedral instance of C05_merge), the interface is the pair
   of unions, and the operands may be given in either order.  Statements only; proofs in proofs/PolyDomainFacts.v. *)""",
    [("C08", "C08_poly", "assumptions equivalent to the conjunction; under them the guarantees are exactly both guarantees; interface unions"),
     ("C08_either_order", "C08_poly_comm", "either operand order: same interface sets, same meaning")])
gen("C16", """(* C16 — renaming variables is faithful substitution.  Interface bookkeeping from the T1 translation (IfaceFacts), term-level
   renaming from model/Term.v (TermFacts.rename_sem), contract level through the constructor's re-simplification.
   Statements only; proofs in proofs/PolyDomainFacts.v. *)""",
    [("C16", "C16_poly", "a behaviour satisfies the renamed assumptions (and, under them, guarantees) exactly when the correspondingly renamed behaviour satisfied the originals"),
     ("C16_sequence", "C16_poly_variables", "a list of mappings applied in order: composition of the substitutions"),
     ("C16_interface", "C16_poly_iface", "the interface lists are updated as prescribed"),
     ("C16_absent", "C16_poly_absent", "renaming an absent variable changes nothing"),
     ("C16_clash", "C16_poly_clash", "a renaming that would make a variable both input and output raises IncompatibleArgs"),
     ("C16_term", "rename_sem", "term level: coefficients are added when the new name already occurs"),
     ("C16_code_rename_variable", "rename_variable_eq", "T1 tie: PolyhedralTerm.rename_variable as translated from polyhedra.py on this run IS the model function (on terms without a stored zero)"),
     ("C16_code_rename_variables", "wrap_rename_variables_eq", "T1 tie: PolyhedralIoContract.rename_variables as translated from polyhedral_iocontract.py on this run IS the model function (a left fold of rename_variable over the mapping list, each step on the result of the previous one)")], extra="PyDict PyLoop TermGen TermGenRename WrapGen WrapGenRename")
gen("C19", """(* C19 — equality, hashing and copying of terms, lists and contracts are coherent.  Contract equality is the T1 translation of
   IoContract.__eq__ (regenerated on every run: it compares the four fields, the OTHER contract's outputs included); term
   equality/keys from model/Term.v; hash(x) = H(key x) for an arbitrary H.  Statements only; proofs in proofs/EqFacts.v,
   proofs/TermFacts.v. *)""",
    [("C19_contract_eq_fields", "IoContract_eq_iff", "equal iff input lists, output lists, assumptions and guarantees are all equal (any domain)"),
     ("C19_contract_eq_refl", "pcontract_eq_refl", "reflexive"),
     ("C19_contract_eq_sym", "pcontract_eq_sym", "symmetric"),
     ("C19_contract_eq_trans", "pcontract_eq_trans", "transitive"),
     ("C19_contract_eq_hash", "pcontract_eq_hash", "equal contracts have equal hash keys"),
     ("C19_term_eq_sym", "term_eqb_sym", "term equality symmetric"),
     ("C19_term_eq_trans", "term_eqb_trans", "term equality transitive"),
     ("C19_term_eq_key", "term_eqb_key", "equal terms have equal keys (hash equally)"),
     ("C19_term_copy", "term_copy_eq", "a copy of a term is equal to (and is) its original"),
     ("C19_code_term_eq", "eq_eq", "T1 tie: PolyhedralTerm.__eq__ as translated from polyhedra.py on this run IS the model's term equality"),
     ("C19_code_term_copy", "copy_eq", "T1 tie: PolyhedralTerm.copy as translated from polyhedra.py on this run IS the model's copy"),
     ("C19_code_term_init", "init_eq", "T1 tie: the constructor (drops zero coefficients) as translated IS mk_term"),
     ("C19_list_eq_keys", "tlist_eqb_keys", "equal lists have equal key lists"),
     ("C19_contract_copy", "pcontract_copy_inv", "a copy has the same interface and assumptions and the re-simplified guarantees")], extra="PyDict TermGen TermGenCore")
