"""Syntax trees of pacti's constraint grammar: rendering to Gallina (model/Ast.v), replaying the real
parse actions of pacti bottom-up, random generation, and a self-test of model/Syntax.v (fold_expr)
against pacti.

Python-side Ast (plain tuples mirroring model/Ast.v):
  sign   : "+" | "-"
  cexpr  : ("CNum", Fraction) | ("CAdd", l, r) | ("CSub", l, r) | ("CMul", l, r) | ("CDiv", l, r)
  lterm  : ("TVar", v) | ("TNumVar", k, v) | ("TNum", k) | ("TParen", lterms) | ("TNumParen", k, lterms)
  lterms : ("Terms", sign, lterm, [(sign, lterm), ...])
  aterm  : ("ATerm", sign, lterm) | ("AAbs", sign, cexpr-or-None, lterms)
  pitem  : ("PGroup", sign, cexpr-or-None, [aterm, ...]) | ("PPlain", aterm)
  side   : [pitem, ...]
  expr   : ("EEq", lterms, lterms) | ("ELeq", [side, ...]) | ("EGeq", [side, ...])

API
  ast_to_coq(ast)            -> Gallina term of type Ast.expr
  ast_to_pacti(ast, star)    -> (PolyhedralSyntaxExpression, hazard) built by calling grammar._parse_* on
                                pyparsing.ParseResults shaped as the grammar shapes them
  python_result(ast, star)   -> ("ok", [(ordered {var: Fraction}, Fraction), ...]) | ("err", kind) | ("skip", why)
  ast_to_string(ast)         -> a concrete string for the tree (informational cross-check with the real parser)
  gen_expr(rng)              -> random Ast
  selftest(n, seed, coq_dir) -> dict with counts and the list of mismatching indices
"""
from __future__ import annotations

import math
import os
import random
import sys
from fractions import Fraction as F

sys.path.insert(0, os.path.dirname(os.path.abspath(__file__)))
import coqfmt  # noqa: E402

# --------------------------------------------------------------------------- Gallina rendering
SIGN = {"+": "Plus", "-": "Minus"}


def cexpr_to_coq(c) -> str:
    if c[0] == "CNum":
        return f"(CNum {coqfmt.q(c[1])})"
    return f"({c[0]} {cexpr_to_coq(c[1])} {cexpr_to_coq(c[2])})"


def optc_to_coq(k) -> str:
    return "None" if k is None else f"(Some {cexpr_to_coq(k)})"


def lterm_to_coq(t) -> str:
    tag = t[0]
    if tag == "TVar":
        return f"(TVar {coqfmt.s(t[1])})"
    if tag == "TNumVar":
        return f"(TNumVar {cexpr_to_coq(t[1])} {coqfmt.s(t[2])})"
    if tag == "TNum":
        return f"(TNum {cexpr_to_coq(t[1])})"
    if tag == "TParen":
        return f"(TParen {lterms_to_coq(t[1])})"
    if tag == "TNumParen":
        return f"(TNumParen {cexpr_to_coq(t[1])} {lterms_to_coq(t[2])})"
    raise ValueError(tag)


def lterms_to_coq(ts) -> str:
    assert ts[0] == "Terms"
    rest = coqfmt.lst(f"({SIGN[s]}, {lterm_to_coq(t)})" for s, t in ts[3])
    return f"(Terms {SIGN[ts[1]]} {lterm_to_coq(ts[2])} {rest})"


def aterm_to_coq(a) -> str:
    if a[0] == "ATerm":
        return f"(ATerm {SIGN[a[1]]} {lterm_to_coq(a[2])})"
    return f"(AAbs {SIGN[a[1]]} {optc_to_coq(a[2])} {lterms_to_coq(a[3])})"


def pitem_to_coq(p) -> str:
    if p[0] == "PGroup":
        return f"(PGroup {SIGN[p[1]]} {optc_to_coq(p[2])} {coqfmt.lst(aterm_to_coq(a) for a in p[3])})"
    return f"(PPlain {aterm_to_coq(p[1])})"


def side_to_coq(sd) -> str:
    return coqfmt.lst(pitem_to_coq(p) for p in sd)


def ast_to_coq(e) -> str:
    if e[0] == "EEq":
        return f"(EEq {lterms_to_coq(e[1])} {lterms_to_coq(e[2])})"
    return f"({e[0]} {coqfmt.lst(side_to_coq(sd) for sd in e[1])})"


# --------------------------------------------------------------------------- concrete strings
def _num_str(q: F) -> str:
    assert q >= 0
    f = float(q)
    assert F(f) == q
    return repr(f) if f != int(f) else str(int(f))


def cexpr_to_string(c) -> str:
    """Fully parenthesised below the top (infixNotation drops operands of a flat a*b*c chain)."""
    if c[0] == "CNum":
        return _num_str(c[1])
    op = {"CAdd": "+", "CSub": "-", "CMul": "*", "CDiv": "/"}[c[0]]
    return f"({cexpr_to_string(c[1])} {op} {cexpr_to_string(c[2])})"


def _k_str(k) -> str:
    """a multiplier; "(a + b) x" is not in the language (paren_terms wins), so an additive top becomes
    "((a + b) * 1) x": another tree with the same value, good enough for the informational cross-check"""
    s = cexpr_to_string(k)
    if k[0] in ("CAdd", "CSub"):
        return f"({s} * 1)"
    return s


def lterm_to_string(t) -> str:
    tag = t[0]
    if tag == "TVar":
        return t[1]
    if tag == "TNumVar":
        return f"{_k_str(t[1])} {t[2]}"
    if tag == "TNum":
        return _k_str(t[1])
    if tag == "TParen":
        return f"({lterms_to_string(t[1])})"
    return f"{_k_str(t[1])} ({lterms_to_string(t[2])})"


def lterms_to_string(ts) -> str:
    s = ("- " if ts[1] == "-" else "") + lterm_to_string(ts[2])
    for sg, t in ts[3]:
        s += f" {sg} {lterm_to_string(t)}"
    return s


def aterm_to_string(a, first: bool) -> str:
    sg = a[1]
    pre = ("- " if sg == "-" else "") if first else f"{sg} "
    if a[0] == "ATerm":
        return pre + lterm_to_string(a[2])
    k = "" if a[2] is None else _k_str(a[2]) + " "
    return f"{pre}{k}|{lterms_to_string(a[3])}|"


def pitem_to_string(p, first: bool) -> str:
    if p[0] == "PPlain":
        return aterm_to_string(p[1], first)
    sg = p[1]
    pre = ("- " if sg == "-" else "") if first else f"{sg} "
    k = "" if p[2] is None else _k_str(p[2]) + " "
    inner = " ".join(aterm_to_string(a, i == 0) for i, a in enumerate(p[3]))
    return f"{pre}{k}({inner})"


def side_to_string(sd) -> str:
    return " ".join(pitem_to_string(p, i == 0) for i, p in enumerate(sd))


def ast_to_string(e) -> str:
    if e[0] == "EEq":
        return f"{lterms_to_string(e[1])} = {lterms_to_string(e[2])}"
    op = " <= " if e[0] == "ELeq" else " >= "
    return op.join(side_to_string(sd) for sd in e[1])


# --------------------------------------------------------------------------- replaying the parse actions
class _Builder:
    """Calls the real parse actions of pacti.terms.polyhedra.syntax.grammar on ParseResults shaped the
    way the grammar's Group/And/Optional elements shape them.  `star`: include the optional "*" token."""

    def __init__(self, star: bool):
        import pyparsing as pp
        from pacti.terms.polyhedra.syntax import data, grammar

        self.pp, self.g, self.d = pp, grammar, data
        self.star = star
        self.hazard = None

    def PR(self, items):
        return self.pp.ParseResults(list(items))

    def G(self, items):
        """tokens of a pp.Group(...): a single token that is itself a ParseResults"""
        return self.PR([self.PR(items)])

    def cexpr(self, c) -> float:
        if c[0] == "CNum":
            return float(c[1])
        a = self.cexpr(c[1])
        b = self.cexpr(c[2])
        op = {"CAdd": "+", "CSub": "-", "CMul": "*", "CDiv": "/"}[c[0]]
        if hasattr(self.g, "_parse_arithmetic_chain"):
            # the infixNotation parse action (a binary node is a chain of length one)
            return self.g._parse_arithmetic_chain(self.G([a, op, b]))
        # older grammar.py: the two infixNotation lambdas of arithmetic_expr, verbatim
        t = [[a, op, b]]
        if op in "*/":
            return t[0][0] * t[0][2] if t[0][1] == "*" else t[0][0] / t[0][2]
        return t[0][0] + t[0][2] if t[0][1] == "+" else t[0][0] - t[0][2]

    def num_prefix(self, k):
        return [self.cexpr(k)] + (["*"] if self.star else [])

    def lterm(self, t):
        g = self.g
        tag = t[0]
        if tag == "TVar":
            inner = g._parse_only_variable(self.PR([t[1]]))
        elif tag == "TNumVar":
            n = self.num_prefix(t[1])
            v = g._parse_only_variable(self.PR([t[2]]))
            inner = g._parse_number_and_variable(self.PR(n + [v]))
        elif tag == "TNum":
            inner = self.cexpr(t[1])
        elif tag == "TParen":
            inner = self.paren_terms(t[1])
        elif tag == "TNumParen":
            n = self.num_prefix(t[1])
            pt = self.paren_terms(t[2])
            inner = g._parse_factor_paren_terms(self.G(n + [pt]))
        else:
            raise ValueError(tag)
        return g._parse_term(self.G([inner]))

    def paren_terms(self, ts):
        return self.g._parse_paren_terms(self.G(["(", self.lterms(ts), ")"]))

    def lterms(self, ts):
        g = self.g
        first = g._parse_first_term(self.G([ts[1], self.lterm(ts[2])]))
        rest = [g._parse_signed_term(self.G([s, self.lterm(t)])) for s, t in ts[3]]
        return g._parse_term_list(self.G([first] + rest))

    def aterm(self, a, first: bool):
        g = self.g
        if a[0] == "ATerm":
            t = self.lterm(a[2])
            x = g._parse_first_term(self.G([a[1], t])) if first else g._parse_signed_term(self.G([a[1], t]))
        else:
            pre = [] if a[2] is None else self.num_prefix(a[2])
            body = self.lterms(a[3])
            for f in body.factors.values():
                if f == 0 and math.copysign(1.0, f) < 0:
                    self.hazard = "negative zero factor in an absolute body"
            at = g._parse_absolute_term(self.G(pre + ["|", body, "|"]))
            x = g._parse_first_abs_term(self.G([a[1], at])) if first else g._parse_signed_abs_term(self.G([a[1], at]))
        return g._parse_abs_or_term(self.G([x]))

    def abs_or_terms(self, items):
        xs = [self.aterm(a, i == 0) for i, a in enumerate(items)]
        return self.g._parse_abs_or_terms(self.G(xs))

    def pitem(self, p, first: bool):
        g = self.g
        if p[0] == "PGroup":
            pre = [] if p[2] is None else self.num_prefix(p[2])
            atl = self.abs_or_terms(p[3])
            patl = g._parse_paren_abs_or_terms(self.G(pre + ["(", atl, ")"]))
            return g._parse_first_or_addl_paren_abs_or_terms(self.G([p[1], patl]))
        x = self.aterm(p[1], first)
        return g._parse_first_or_addl_paren_abs_or_terms(self.G([x]))

    def side(self, sd):
        xs = [self.pitem(p, i == 0) for i, p in enumerate(sd)]
        return self.g._parse_multi_paren_abs_or_terms(self.G(xs))

    def expr(self, e):
        g = self.g
        if e[0] == "EEq":
            x = g._parse_equality_expression(self.G([self.lterms(e[1]), "=", self.lterms(e[2])]))
        else:
            op = "<=" if e[0] == "ELeq" else ">="
            toks = []
            for i, sd in enumerate(e[1]):
                if i:
                    toks.append(op)
                toks.append(self.side(sd))
            if len(toks) < 2:
                # the parse action asserts group[1] == op; the grammar never produces fewer than two sides.
                # Build the expression object the way _parse_expression_sides does.
                x = g._parse_expression_sides(
                    self.d.PolyhedralSyntaxOperator.leq if e[0] == "ELeq" else self.d.PolyhedralSyntaxOperator.geq,
                    self.PR(toks))
            elif e[0] == "ELeq":
                x = g._parse_leq_expression(self.G(toks))
            else:
                x = g._parse_geq_expression(self.G(toks))
        return g._parse_expression(self.G([x]))


def ast_to_pacti(e, star: bool = False):
    """-> (PolyhedralSyntaxExpression, hazard-or-None).  Raises what the parse actions raise."""
    b = _Builder(star)
    x = b.expr(e)
    return x, b.hazard


def _err_kind(exc) -> str:
    from pacti.utils.errors import PolyhedralSyntaxConvexException, PolyhedralSyntaxException
    if isinstance(exc, PolyhedralSyntaxConvexException):
        return "ConvexErr"
    if isinstance(exc, PolyhedralSyntaxException):
        return "SyntaxErr"
    return type(exc).__name__


def python_result(e, star: bool = False):
    from pacti.terms.polyhedra import serializer
    try:
        x, hazard = ast_to_pacti(e, star)
        if hazard:
            return ("skip", hazard)
        pts = serializer._expression_to_polyhedral_terms("<ast>", x)
    except Exception as exc:  # noqa: BLE001
        return ("err", _err_kind(exc))
    out = []
    for t in pts:
        vs = {str(k): F(float(v)) for k, v in t.variables.items()}
        out.append((vs, F(float(t.constant))))
    return ("ok", out)


def string_result(s: str):
    from pacti.terms.polyhedra import serializer
    try:
        pts = serializer.polyhedral_termlist_from_string(s)
    except Exception as exc:  # noqa: BLE001
        return ("err", _err_kind(exc))
    return ("ok", [({str(k): F(float(v)) for k, v in t.variables.items()}, F(float(t.constant))) for t in pts])


def result_to_coq(r) -> str:
    if r[0] == "ok":
        return f"(inl {coqfmt.terms(r[1])})"
    k = r[1]
    if k == "ConvexErr":
        return "(inr ConvexErr)"
    if k == "SyntaxErr":
        return "(inr SyntaxErr)"
    if k == "ValueError":
        return "(inr ValueErr)"
    return f"(inr (Escape {coqfmt.s(k)}))"


# --------------------------------------------------------------------------- random trees
VARS = ["x", "y", "z", "w"]
NUMS = [F(0), F(1), F(2), F(3), F(4), F(1, 2), F(3, 2), F(1, 4), F(3, 4), F(5, 2), F(8), F(1, 8)]
POW2 = [F(1), F(2), F(4), F(1, 2), F(1, 4), F(8)]


def ceval_exact(c):
    """exact value or None on division by zero"""
    if c[0] == "CNum":
        return c[1]
    a, b = ceval_exact(c[1]), ceval_exact(c[2])
    if a is None or b is None:
        return None
    if c[0] == "CAdd":
        return a + b
    if c[0] == "CSub":
        return a - b
    if c[0] == "CMul":
        return a * b
    return None if b == 0 else a / b


class Gen:
    def __init__(self, rng: random.Random, divzero: float = 0.02):
        self.rng = rng
        self.divzero = divzero
        self.bodies = []          # pool of absolute bodies for repetition

    def sign(self, pminus=0.4):
        return "-" if self.rng.random() < pminus else "+"

    def cexpr(self, depth=2, nonzero=False):
        r = self.rng
        for _ in range(50):
            c = self._cexpr(depth)
            if not nonzero:
                return c
            v = ceval_exact(c)
            if v is None or v != 0:
                return c
        return ("CNum", F(1))

    def _cexpr(self, depth):
        r = self.rng
        if depth == 0 or r.random() < 0.6:
            return ("CNum", r.choice(NUMS))
        op = r.choice(["CAdd", "CSub", "CMul", "CDiv", "CSub"])
        l = self._cexpr(depth - 1)
        if op == "CDiv":
            if r.random() < self.divzero * 5:
                rr = r.choice([("CNum", F(0)), ("CSub", ("CNum", F(2)), ("CNum", F(2)))])
            else:
                rr = ("CNum", r.choice(POW2))
        else:
            rr = self._cexpr(depth - 1)
        return (op, l, rr)

    def lterm(self, depth, in_body=False):
        r = self.rng
        k = r.random()
        nz = in_body and r.random() < 0.9   # zero multipliers inside bodies only rarely (signed-zero hazard)
        if depth == 0 or k < 0.7:
            c = r.random()
            if c < 0.35:
                return ("TVar", r.choice(VARS))
            if c < 0.75:
                return ("TNumVar", self.cexpr(1, nonzero=nz), r.choice(VARS))
            return ("TNum", self.cexpr(1))
        if k < 0.85:
            return ("TParen", self.lterms(depth - 1, in_body))
        return ("TNumParen", self.cexpr(1, nonzero=nz), self.lterms(depth - 1, in_body))

    def lterms(self, depth, in_body=False):
        r = self.rng
        n = r.choice([0, 0, 1, 1, 2, 3])
        return ("Terms", self.sign(0.3), self.lterm(depth, in_body), [(self.sign(), self.lterm(depth, in_body)) for _ in range(n)])

    def body(self, depth):
        r = self.rng
        if self.bodies and r.random() < 0.55:
            b = r.choice(self.bodies)
            if r.random() < 0.3:
                # a look-alike that must NOT be merged with the original: same variables and coefficients, another
                # additive constant (|x - 1| + |x + 1|), or one more variable
                extra = ("TNum", ("CNum", r.choice([F(1), F(2), F(1, 2), F(3)]))) if r.random() < 0.75 else ("TVar", r.choice(VARS))
                return ("Terms", b[1], b[2], list(b[3]) + [(self.sign(), extra)])
            if r.random() < 0.4:
                # same canonical form, written differently: rotate the signed terms
                items = [(b[1], b[2])] + list(b[3])
                r.shuffle(items)
                b = ("Terms", items[0][0], items[0][1], items[1:])
            return b
        b = self.lterms(depth, in_body=True)
        self.bodies.append(b)
        return b

    def aterm(self, depth, abs_minus):
        r = self.rng
        if r.random() < 0.5:
            return ("ATerm", self.sign(), self.lterm(depth))
        k = None if r.random() < 0.5 else self.cexpr(1)
        if k is not None and r.random() < 0.8:
            v = ceval_exact(k)
            if v is not None and v <= 0:
                k = ("CNum", r.choice(NUMS[1:]))
        if self.bodies and r.random() < 0.08:
            # a coefficient that is exactly zero on a REPEATED absolute body (0|x| + |x|, (1 - 1)|x| + 2|x|): zero is a
            # coefficient like any other when equal absolute terms are merged
            k = r.choice([("CNum", F(0)), ("CSub", ("CNum", F(1)), ("CNum", F(1))), ("CMul", ("CNum", F(0)), ("CNum", F(3)))])
            return ("AAbs", "+", k, r.choice(self.bodies))
        return ("AAbs", self.sign(abs_minus), k, self.body(max(depth - 1, 0)))

    def pitem(self, depth, abs_minus):
        r = self.rng
        if depth > 0 and r.random() < 0.35:
            sg = self.sign(0.3)
            k = None if r.random() < 0.5 else self.cexpr(1)
            inner_minus = abs_minus if sg == "+" else 1 - abs_minus
            if k is not None:
                v = ceval_exact(k)
                if v is not None and v < 0:
                    inner_minus = 1 - inner_minus
            n = r.choice([1, 2, 2, 3])
            return ("PGroup", sg, k, [self.aterm(depth - 1, inner_minus) for _ in range(n)])
        return ("PPlain", self.aterm(depth, abs_minus))

    def side(self, depth, abs_minus):
        n = self.rng.choice([1, 1, 2, 3])
        return [self.pitem(depth, abs_minus) for _ in range(n)]

    def expr(self, depth=3):
        r = self.rng
        self.bodies = []
        k = r.random()
        if k < 0.15:
            return ("EEq", self.lterms(depth), self.lterms(depth))
        op = "ELeq" if r.random() < 0.5 else "EGeq"
        if k < 0.25:
            # an absolute value whose body re-appears outside the bars so that one sign branch cancels every variable and
            # leaves a bare constant (|x| <= x - 1, x - y - 2 >= |x - y|, |x| + x <= -1): the variable-free row matters
            body = ("Terms", "+", ("TVar", r.choice(VARS)), [(self.sign(), ("TVar", v)) for v in r.sample(VARS, r.randint(0, 1))])
            flat = [(body[1], body[2])] + list(body[3])
            cst = ("PPlain", ("ATerm", r.choice(["+", "-", "-"]), ("TNum", ("CNum", r.choice(NUMS[1:])))))
            absitem = ("PPlain", ("AAbs", "+", None if r.random() < 0.6 else ("CNum", F(2)), body))
            scale = 1 if absitem[1][2] is None else 2

            def lin(flip):
                out = []
                for sg, t in flat:
                    sg2 = sg if not flip else ("-" if sg == "+" else "+")
                    out.append(("PPlain", ("ATerm", sg2, t if scale == 1 else ("TNumVar", ("CNum", F(2)), t[1]))))
                return out
            small, big = [absitem], lin(r.random() < 0.3) + [cst]
            if r.random() < 0.35:
                small, big = [absitem] + lin(r.random() < 0.5), [cst]
            return (op, [small, big] if op == "ELeq" else [big, small])
        nsides = r.choice([2, 2, 2, 3, 3, 4]) if r.random() > 0.02 else r.choice([0, 1])
        # convexity-friendly bias: |..| mostly positive on the small side, negative on the big side;
        # a chain has both roles in the middle, so the bias is dropped there half of the time
        noise = r.choice([0.05, 0.05, 0.2, 0.5])
        sides = []
        for i in range(nsides):
            if op == "ELeq":
                small = i == 0
                big = i == nsides - 1
            else:
                small = i == nsides - 1
                big = i == 0
            if small and not big:
                m = noise
            elif big and not small:
                m = 1 - noise
            else:
                m = 0.5
            sides.append(self.side(depth - 1, m))
        return (op, sides)


def gen_expr(rng: random.Random, depth: int = 3):
    return Gen(rng).expr(depth)


# --------------------------------------------------------------------------- the self-test
COQ_HEADER = """From Coq Require Import List String Bool QArith ZArith.
Import ListNotations.
Require Import Py Sem Term Ast Syntax.
Local Open Scope string_scope.
Definition pt_eqb (a b : pterm) : bool := factors_eqb (tvars a) (tvars b) && Qeq_bool (tconst a) (tconst b).
Fixpoint pts_eqb (l1 l2 : list pterm) : bool :=
  match l1, l2 with [], [] => true | a :: r1, b :: r2 => pt_eqb a b && pts_eqb r1 r2 | _, _ => false end.
Definition pt_eqb_loose (a b : pterm) : bool :=
  factors_eqb (sort_by_name (tvars a)) (sort_by_name (tvars b)) && Qeq_bool (tconst a) (tconst b).
Fixpoint pts_eqb_loose (l1 l2 : list pterm) : bool :=
  match l1, l2 with [], [] => true | a :: r1, b :: r2 => pt_eqb_loose a b && pts_eqb_loose r1 r2 | _, _ => false end.
Definition err_eqb (a b : err) : bool :=
  match a, b with
  | ConvexErr, ConvexErr | SyntaxErr, SyntaxErr | ValueErr, ValueErr => true
  | Escape s, Escape t => String.eqb s t
  | _, _ => false
  end.
Definition res_eqb (strict : bool) (a b : M (list pterm)) : bool :=
  match a, b with
  | inl x, inl y => if strict then pts_eqb x y else pts_eqb_loose x y
  | inr x, inr y => err_eqb x y
  | _, _ => false
  end.
Definition bad (strict : bool) (cases : list (nat * expr * M (list pterm))) : list nat :=
  map (fun c => fst (fst c)) (filter (fun c => negb (res_eqb strict (fold_expr (snd (fst c))) (snd c))) cases).
"""


def coq_check_body(cases):
    """cases: list of (index, ast, python_result).  The compiled file prints the mismatching indices
    (strict: key order of every coefficient map included; loose: maps compared by value)."""
    rows = ";\n  ".join(f"({i}%nat, {ast_to_coq(a)}, {result_to_coq(r)})" for i, a, r in cases)
    return (COQ_HEADER + f"Definition cases : list (nat * expr * M (list pterm)) :=\n [{rows}].\n"
            'Eval vm_compute in ("STRICT", bad true cases).\n'
            'Eval vm_compute in ("LOOSE", bad false cases).\n')


def _run_coq(coq_dir, name, body, timeout=900):
    import subprocess
    cases = os.path.join(coq_dir, "cases")
    os.makedirs(cases, exist_ok=True)
    p = os.path.join(cases, name + ".v")
    with open(p, "w") as fh:
        fh.write(body)
    flags = []
    for d in ("base", "gen", "model", "proofs", "props", "cases"):
        flags += ["-Q", d, ""]
    try:
        pr = subprocess.run(["coqc"] + flags + [os.path.join("cases", name + ".v")], cwd=coq_dir, timeout=timeout,
                            capture_output=True, text=True)
        rc, out = pr.returncode, pr.stdout + pr.stderr
    except subprocess.TimeoutExpired:
        rc, out = 124, "TIMEOUT"
    for ext in (".vo", ".vok", ".vos", ".glob"):
        try:
            os.remove(os.path.join(cases, name + ext))
        except OSError:
            pass
    try:
        os.remove(os.path.join(cases, "." + name + ".aux"))
    except OSError:
        pass
    return rc, out


def ensure_built(coq_dir):
    """compile model/Syntax.v in coq_dir when its .vo is missing or stale"""
    import subprocess
    v = os.path.join(coq_dir, "model", "Syntax.v")
    vo = v + "o"
    if os.path.exists(vo) and os.path.getmtime(vo) >= os.path.getmtime(v):
        return
    flags = []
    for d in ("base", "gen", "model", "proofs", "props"):
        flags += ["-Q", d, ""]
    pr = subprocess.run(["coqc"] + flags + ["model/Syntax.v"], cwd=coq_dir, timeout=600, capture_output=True, text=True)
    if pr.returncode != 0:
        raise SystemExit("model/Syntax.v does not compile:\n" + pr.stdout + pr.stderr)


def _parse_list(out, tag):
    import re
    m = re.search(r"=\s*\(\s*\"" + tag + r"\"\s*,\s*(\[[^\]]*\]|nil)\s*\)", out.replace("\n", " "))
    if not m:
        return None
    body = m.group(1)
    if body in ("nil", "[]"):
        return []
    return [int(x.strip().replace("%nat", "")) for x in body.strip("[]").split(";") if x.strip()]


def selftest(n: int = 500, seed: int = 0, coq_dir: str | None = None, chunk: int = 125, keep: bool = False,
             verbose: bool = True):
    """Generate n trees, run pacti's parse actions + serializer on each, and check inside Coq that
    fold_expr computes the same result (terms in order, keys in order, values exactly; error kind)."""
    import pacti
    assert os.path.realpath(pacti.__file__).startswith(os.path.realpath(os.environ.get("VERIF_REPO", "/repo")) + "/src/"), pacti.__file__
    if coq_dir is None:
        coq_dir = os.environ.get("SYNTAX_COQ_DIR") or os.path.join(
            os.path.dirname(os.path.dirname(os.path.abspath(__file__))), "coq")
    ensure_built(coq_dir)
    rng = random.Random(seed)
    cases, skipped, kinds = [], 0, {}
    string_stats = {"agree": 0, "differ": 0, "differ_examples": []}
    star_differs = []
    i = 0
    while len(cases) < n:
        ast = gen_expr(rng)
        star = bool(i % 2)
        r = python_result(ast, star)
        i += 1
        if r[0] == "skip":
            skipped += 1
            continue
        # both shapes of the optional "*" token must give the same answer
        r2 = python_result(ast, not star)
        if r2 != r:
            star_differs.append((ast_to_string(ast), r, r2))
        key = "ok" if r[0] == "ok" else r[1]
        kinds[key] = kinds.get(key, 0) + 1
        # informational: the real parser on a concrete string of the tree (the string may parse to a
        # different tree where the grammar is ambiguous, e.g. "2 (x)" as PGroup rather than TNumParen)
        if (e_ok := (ast[0] == "EEq" or len(ast[1]) >= 2)):
            sr = string_result(ast_to_string(ast))
            same = (sr == r) or (sr[0] == "ok" and r[0] == "ok" and
                                 [(sorted(a.items()), c) for a, c in sr[1]] == [(sorted(a.items()), c) for a, c in r[1]])
            if same:
                string_stats["agree"] += 1
            else:
                string_stats["differ"] += 1
                if len(string_stats["differ_examples"]) < 8:
                    string_stats["differ_examples"].append((ast_to_string(ast), r, sr))
        cases.append((len(cases), ast, r))
    strict, loose, failures = [], [], []
    jobs = [cases[k:k + chunk] for k in range(0, len(cases), chunk)]
    from concurrent.futures import ThreadPoolExecutor
    with ThreadPoolExecutor(max_workers=8) as ex:
        outs = list(ex.map(lambda jc: _run_coq(coq_dir, f"syntax_selftest_{seed}_{jc[0]}", coq_check_body(jc[1])),
                           enumerate(jobs)))
    for (rc, out), jc in zip(outs, jobs):
        s_, l_ = _parse_list(out, "STRICT"), _parse_list(out, "LOOSE")
        if rc != 0 or s_ is None or l_ is None:
            failures.append(out[-1500:])
            continue
        strict += s_
        loose += l_
    res = {"n": len(cases), "skipped_signed_zero": skipped, "kinds": kinds, "mismatch_strict": sorted(strict),
           "mismatch_loose": sorted(loose), "coq_failures": failures, "string_cross_check": string_stats,
           "star_differs": star_differs}
    if verbose:
        print("mismatching indices (strict):", res["mismatch_strict"])
        print("mismatching indices (by value):", res["mismatch_loose"])
        print({k: v for k, v in res.items() if k not in ("mismatch_strict", "mismatch_loose", "string_cross_check")})
        print("string cross-check:", {k: v for k, v in string_stats.items() if k != "differ_examples"})
    if keep:
        res["cases"] = cases
    return res


if __name__ == "__main__":
    n = int(sys.argv[1]) if len(sys.argv) > 1 else 500
    seed = int(sys.argv[2]) if len(sys.argv) > 2 else 0
    out = selftest(n, seed)
    sys.exit(0 if not out["mismatch_strict"] and not out["coq_failures"] else 1)
