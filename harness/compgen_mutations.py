#!/usr/bin/env python3
"""Sensitivity experiment for the translation of compundiocontract.py (gen/CompoundGen.v) and of the thin
wrappers of polyhedral_iocontract.py (gen/WrapGen.v), and of the equality proofs
proofs/CompoundGenNested.v, CompoundGenContract.v, WrapGenFacts.v.

For each small edit of the Python source (applied to a scratch copy of the source tree, one at a time) the
translator is run into a scratch copy of the Coq tree and proofs/CompoundGenFacts.vo, proofs/WrapGenFacts.vo
are rebuilt (`make -k`, every coqc under `timeout`).  Semantic edits must be rejected by the translator (fail closed:
TRANSLATOR-UNSUPPORTED, the output file is poisoned) or break a proof; harmless rewrites must pass.  Nothing outside the scratch directory is written (except
the report); the scratch directory is removed at the end.

usage: compgen_mutations.py <verif dir> <repo dir> <scratch dir> [report.md] [--keep]
"""
import os
import re
import shutil
import subprocess
import sys

PY = "/venv/bin/python"
CMP = "src/pacti/iocontract/compundiocontract.py"
WRP = "src/pacti/contracts/polyhedral_iocontract.py"
TARGETS = ["proofs/CompoundGenFacts.vo", "proofs/WrapGenFacts.vo"]

# (id, kind, file, description, [(old text, new text), ...])   kind: "semantic" | "harmless"
EDITS = [
    ("M01", "semantic", CMP, "intersect: break out of the inner loop after the first non-empty pair when "
     "force_empty_intersection (seeded change C17)",
     [("                if not new_tl.is_empty():\n                    new_nested_tl.append(new_tl)\n",
       "                if not new_tl.is_empty():\n                    new_nested_tl.append(new_tl)\n"
       "                    if force_empty_intersection:\n                        break\n")]),
    ("M02", "semantic", WRP, "rename_variables: pre-filter the mappings by the ORIGINAL contract's variables "
     "(seeded change C16)",
     [("        for mapping in variable_mappings:\n",
       "        known_names = {var.name for var in self.vars}\n"
       "        applicable_mappings = [mapping for mapping in variable_mappings if mapping[0] in known_names]\n"
       "        for mapping in applicable_mappings:\n")]),
    ("M03", "semantic", CMP, "merge: force flags of assumptions / guarantees swapped",
     [("self.a.intersect(other.a, force_empty_intersection=True)", "self.a.intersect(other.a, force_empty_intersection=False)"),
      ("self.g.intersect(other.g, force_empty_intersection=False)", "self.g.intersect(other.g, force_empty_intersection=True)")]),
    ("M04", "semantic", CMP, "__le__ written with any(all(...)) where all(any(...)) is meant",
     [("        for this_tl in self.nested_termlist:\n            found = False\n"
       "            for that_tl in other.nested_termlist:\n                if this_tl <= that_tl:\n"
       "                    found = True\n                    break\n            if not found:\n"
       "                return False\n        return True\n",
       "        return any(all(this_tl <= that_tl for that_tl in other.nested_termlist) "
       "for this_tl in self.nested_termlist)\n")]),
    ("M05", "semantic", CMP, "__le__ (loop form): True as soon as ONE alternative of self is covered (exists for forall)",
     [("            if not found:\n                return False\n        return True\n",
       "            if found:\n                return True\n        return False\n")]),
    ("M06", "semantic", CMP, "contains_behavior: answer of the FIRST alternative is returned",
     [("                if tl.contains_behavior(behavior):\n                    return True\n",
       "                if tl.contains_behavior(behavior):\n                    return True\n                return False\n")]),
    ("M07", "semantic", CMP, "__init__: the disjointness check skips the pairs with the last alternative",
     [("                    if j > i:\n", "                    if j > i and j + 1 < len(nested_termlist):\n")]),
    ("M08", "semantic", WRP, "compose: vars_to_keep ignored",
     [("return super().compose(other, [Var(x) for x in vars_to_keep], simplify)",
       "return super().compose(other, [], simplify)")]),
    ("M09", "semantic", WRP, "compose_tactics: default tactics order not applied when None",
     [("        if tactics_order is None:\n            tactics_order = TACTICS_ORDER\n\n        if vars_to_keep is None:\n", "        if vars_to_keep is None:\n")]),
    ("M10", "semantic", WRP, "quotient_tactics: default tactics order not applied when None",
     [("        if tactics_order is None:\n            tactics_order = TACTICS_ORDER\n\n        return super().quotient_tactics",
       "        return super().quotient_tactics")]),
    ("M11", "semantic", CMP, "simplify: on ValueError the un-simplified copy is kept (handler falls through to the append)",
     [("                    new_tl = self_tl.copy()\n                    continue\n", "                    new_tl = self_tl.copy()\n")]),
    ("M12", "semantic", CMP, "IoContractCompound.__init__: assumptions may mention outputs",
     [("        if list_diff(assumptions.vars, input_vars):\n",
       "        if list_diff(assumptions.vars, list_union(input_vars, output_vars)):\n")]),
    ("M13", "semantic", CMP, "IoContractCompound.__init__: assumptions copied without forcing disjointness",
     [("assumptions.copy(True)", "assumptions.copy(False)")]),
    ("M14", "semantic", CMP, "IoContractCompound.__eq__: outputs not compared",
     [("            and self.outputvars == other.outputvars\n", "")]),
    ("M15", "semantic", CMP, "NestedTermList.__eq__: one direction only",
     [("return self <= other <= self", "return self <= other")]),
    ("M16", "semantic", CMP, "NestedTermList.vars: union taken in the other order",
     [("varlist = list_union(varlist, tl.vars)\n        return varlist\n\n    def copy", "varlist = list_union(tl.vars, varlist)\n        return varlist\n\n    def copy")]),
    ("M17", "semantic", CMP, "simplify: the un-simplified term list is collected",
     [("                new_nested_tl.append(new_tl)\n        return type(self)(new_nested_tl, force_empty_intersection)\n\n    def intersect",
       "                new_nested_tl.append(self_tl)\n        return type(self)(new_nested_tl, force_empty_intersection)\n\n    def intersect")]),
    ("M18", "semantic", WRP, "rename_variables: source and target swapped",
     [("rename_variable(Var(mapping[0]), Var(mapping[1]))", "rename_variable(Var(mapping[1]), Var(mapping[0]))")]),
    ("M19", "semantic", WRP, "get_variable_bounds: pair returned in the other order",
     [("        return minimum, maximum\n", "        return maximum, minimum\n")]),
    ("M20", "semantic", WRP, "quotient: additional_inputs dropped",
     [("return super().quotient(other, additional_inputs, simplify)", "return super().quotient(other, None, simplify)")]),
    ("M21", "semantic", CMP, "NestedTermList gets a new method (unexpected method in a translated class)",
     [("    @property\n    def vars(self) -> List[Var]:  # noqa: A003\n        \"\"\"The list of variables contained in this nested",
       "    def is_trivial(self) -> bool:\n        return not self.nested_termlist\n\n"
       "    @property\n    def vars(self) -> List[Var]:  # noqa: A003\n        \"\"\"The list of variables contained in this nested")]),
    ("M22", "semantic", CMP, "NestedTermList.copy renamed away (a listed method is missing)",
     [("    def copy(self: NestedTermlist_t, force_empty_intersection: bool)", "    def clone(self: NestedTermlist_t, force_empty_intersection: bool)")]),
    ("M23", "semantic", WRP, "PolyhedralIoContract overrides merge (an override of a translated IoContract method)",
     [("    def optimize(self, expr: str, maximize: bool = True)",
       "    def merge(self, other: PolyhedralIoContract) -> PolyhedralIoContract:\n        return super().merge(other)\n\n"
       "    def optimize(self, expr: str, maximize: bool = True)")]),
    ("M24", "semantic", CMP, "intersect: emptiness of the pair is not tested (every pair is kept)",
     [("                if not new_tl.is_empty():\n                    new_nested_tl.append(new_tl)\n",
       "                new_nested_tl.append(new_tl)\n")]),
    ("M25", "semantic", CMP, "__init__: the stored alternatives are not copied",
     [("            self.nested_termlist.append(tl.copy())\n", "            self.nested_termlist.append(tl)\n")]),
    ("H01", "harmless", CMP, "intersect: locals renamed (new_nested_tl -> collected, new_tl -> both)", None),
    ("H02", "harmless", CMP, "logging.debug added in intersect, merge and simplify",
     [("        new_nested_tl = []\n        for self_tl in self.nested_termlist:\n            for other_tl in other.nested_termlist:\n",
       "        new_nested_tl = []\n        logging.debug(\"intersecting\")\n        for self_tl in self.nested_termlist:\n"
       "            logging.debug(self_tl)\n            for other_tl in other.nested_termlist:\n"),
      ("        input_vars = list_union(self.inputvars, other.inputvars)\n", "        logging.debug(\"merge\")\n        input_vars = list_union(self.inputvars, other.inputvars)\n"),
      ("                new_nested_tl.append(new_tl)\n        return type(self)(new_nested_tl, force_empty_intersection)\n\n    def intersect",
       "                logging.debug(\"simplified %s\", new_tl)\n                new_nested_tl.append(new_tl)\n"
       "        return type(self)(new_nested_tl, force_empty_intersection)\n\n    def intersect")]),
    ("H03", "harmless", CMP, "merge: the two independent interface statements reordered",
     [("        input_vars = list_union(self.inputvars, other.inputvars)\n        output_vars = list_union(self.outputvars, other.outputvars)\n",
       "        output_vars = list_union(self.outputvars, other.outputvars)\n        input_vars = list_union(self.inputvars, other.inputvars)\n")]),
    ("H04", "harmless", WRP, "compose_tactics: the two independent default blocks reordered",
     [("        if tactics_order is None:\n            tactics_order = TACTICS_ORDER\n\n        if vars_to_keep is None:\n            vars_to_keep = []\n",
       "        if vars_to_keep is None:\n            vars_to_keep = []\n\n        if tactics_order is None:\n            tactics_order = TACTICS_ORDER\n")]),
    ("H05", "harmless", WRP, "rename_variables: locals renamed (mapping -> pair, new_contract -> result)",
     [("        new_contract = self.copy()\n        for mapping in variable_mappings:\n"
       "            new_contract = new_contract.rename_variable(Var(mapping[0]), Var(mapping[1]))\n        return new_contract\n",
       "        result = self.copy()\n        for pair in variable_mappings:\n"
       "            result = result.rename_variable(Var(pair[0]), Var(pair[1]))\n        return result\n")]),
    ("H06", "harmless", CMP, "__le__: flag renamed, `if not found` written as if/else",
     [("            found = False\n            for that_tl in other.nested_termlist:\n                if this_tl <= that_tl:\n"
       "                    found = True\n                    break\n            if not found:\n                return False\n        return True\n",
       "            covered = False\n            for candidate in other.nested_termlist:\n                if this_tl <= candidate:\n"
       "                    covered = True\n                    break\n            if covered:\n                continue\n"
       "            else:\n                return False\n        return True\n")]),
]


def sh(cmd, cwd=None, timeout=3600):
    p = subprocess.run(cmd, cwd=cwd, stdout=subprocess.PIPE, stderr=subprocess.STDOUT, text=True, timeout=timeout)
    return p.returncode, p.stdout


def apply_edit(text, ident, pairs):
    if ident == "H01":
        a = text.index("    def intersect(")
        b = text.index("    @property", a)
        seg = re.sub(r"\bnew_nested_tl\b", "collected", text[a:b])
        seg = re.sub(r"\bnew_tl\b", "both", seg)
        assert seg != text[a:b]
        return text[:a] + seg + text[b:]
    for old, new in pairs:
        assert text.count(old) == 1, (ident, old, text.count(old))
        text = text.replace(old, new, 1)
    return text


def all_errors(log):
    """[(file, line, message)] for every coqc error of a `make -k` log"""
    out = []
    for m in re.finditer(r'File "\./([^"]+)", line (\d+), characters [^\n]*\n(Error:.*?)(?=\nmake|\nFile "|\nCOQC|\Z)', log, re.S):
        msg = " ".join(m.group(3).split())
        k = re.search(r"Unable to unify|Impossible to unify|The term|Found no subterm|Tactic failure|No such|Cannot|Not an inductive|"
                      r"Wrong|Illegal|The reference|Unable to find", msg)
        out.append((m.group(1), int(m.group(2)), ("Error: " + msg[k.start():] if k else msg)[:170]))
    return out


def enclosing(vfile, line):
    name = "?"
    for i, l in enumerate(open(vfile), 1):
        m = re.match(r"\s*(?:Theorem|Lemma|Corollary|Example|Definition|Fixpoint)\s+([\w']+)", l)
        if m:
            name = m.group(1)
        if i >= line:
            break
    return name


PREAMBLE = """# T1 for compound contracts and the polyhedral wrappers

Generated by `harness/compgen_mutations.py`
(rerun: `/venv/bin/python harness/compgen_mutations.py <verif> /repo <scratch> docs/COMPGEN_REPORT.md`).

## 1. What is translated

`translator/py2coq.py` (third generator: `gen_compound`, `gen_wrap`, class `NFn`) renders, from the current
`/repo/src` on every run,

* `src/pacti/iocontract/compundiocontract.py` — `NestedTermList.(__init__, __le__, __eq__, vars, copy, simplify,
  intersect, contains_behavior)` and `IoContractCompound.(__init__, __eq__, merge)` — into `coq/gen/CompoundGen.v`,
  GENERICALLY in the term-list type: class `TLDomain` of `coq/base/PyLoop.v` has one field per operation of the
  TermList subclass the file calls (`|`, `is_empty()`, `<=`, `simplify(context)`, `contains_behavior`, `copy()`,
  `vars`).  Skipped on purpose (printing only): `__str__` / `__repr__`.
* the thin wrappers of `src/pacti/contracts/polyhedral_iocontract.py:PolyhedralIoContract` — `rename_variables`,
  `compose_tactics`, `compose`, `quotient_tactics`, `quotient`, `get_variable_bounds` (over an abstract `optimize`)
  — into `coq/gen/WrapGen.v`, over the translated algebra of `gen/AlgebraGen.v`.  Skipped on purpose (string
  parsing / JSON / LP glue, hand-modelled elsewhere): `to_machine_dict`, `to_dict`, `from_strings`, `from_dict`,
  `optimize`.

The generated text mirrors the Python statement by statement over named primitives: `for_list[_m]` (loops with
`break`/`continue`), `for_ret[_m]` (loops whose body contains a `return`, at any nesting depth), `enumerate`,
`try_bind` (try / except ValueError), `all_m` / `any_m` / `py_all` / `py_any`, `list_union` / `list_diff` /
`list_intersection` / `lists_equal` (gen/ListsGen.v), `has_dup`, `map` / `filter` for comprehensions.
Fail closed (`TRANSLATOR-UNSUPPORTED[file]: …`; the output file is replaced by a stub that does not compile, so
every obligation that depends on it stops checking) on any construct outside the subset, on a missing listed method,
on an unexpected method in a translated class (for `PolyhedralIoContract`: in particular an override of another
`IoContract` method), on a subclass constructor that does more than delegate, on module-level redefinitions of
the names used, and on an in-place `append` to a list that is not provably local and unaliased.

## 2. Equality theorems (all closed under the global context; no precondition is needed)

With `poly_tl O` the polyhedral instance of `TLDomain` (`tl_or`/`tl_copy` of model/Compound.v, `poly_is_empty O`,
`poly_refines O`, `fun s c => poly_simplify O s (Some c)`, `contains_behavior`, `tl_vars`) and `to_compound` the
bijection between the generated record `kcontract` and the hand-written `compound`:

| file | theorem | statement |
|---|---|---|
| proofs/CompoundGenNested.v | `nested_init_eq` | `NestedTermList_init alts force = nested_init O alts force` |
| | `nested_le_eq` | `NestedTermList_le a b = nested_le O a b` |
| | `nested_eqb_eq` | `NestedTermList_eq a b = nested_eqb O a b` |
| | `nested_vars_eq` | `NestedTermList_vars a = nested_vars a` |
| | `nested_copy_eq` | `NestedTermList_copy a force = nested_copy O a force` |
| | `nested_simplify_eq` | `NestedTermList_simplify a ctx force = nested_simplify O a ctx force` |
| | `nested_intersect_eq` | `NestedTermList_intersect a b force = nested_intersect O a b force` |
| | `nested_contains_eq` | `NestedTermList_contains_behavior a beh = nested_contains a beh` |
| proofs/CompoundGenContract.v | `compound_init_eq` | `mmap to_compound (IoContractCompound_init a g i o) = compound_init O a g i o` |
| | `compound_eqb_eq` | `IoContractCompound_eq k1 k2 = compound_eqb O (to_compound k1) (to_compound k2)` |
| | `compound_merge_eq` | `mmap to_compound (IoContractCompound_merge k1 k2) = compound_merge O (to_compound k1) (to_compound k2)` |
| proofs/WrapGenFacts.v | `wrap_rename_variables_eq` | `PolyhedralIoContract_rename_variables c ms = poly_rename_variables O c ms` |
| | `wrap_compose_tactics_eq` | `PolyhedralIoContract_compose_tactics c1 c2 keep sp od = poly_compose_tactics O c1 c2 keep sp od` |
| | `wrap_quotient_tactics_eq` | `PolyhedralIoContract_quotient_tactics c c1 add sp od = poly_quotient_tactics O c c1 add sp od` |
| | `wrap_compose_eq` | `PolyhedralIoContract_compose c1 c2 keep sp = p <- poly_compose_tactics O c1 c2 keep sp None ;; ret (fst p)` |
| | `wrap_quotient_eq` | `PolyhedralIoContract_quotient c c1 add sp = p <- poly_quotient_tactics O c c1 add sp None ;; ret (fst p)` |
| | `wrap_get_variable_bounds_eq` | `PolyhedralIoContract_get_variable_bounds optimize c v = mx <- optimize c v true ;; mn <- optimize c v false ;; ret (mn, mx)` (no hand model: characterisation) |
| | `wrap_compose_not_static` | the statically resolved `IoContract_compose` hands the primitives the order `[]`, the wrapper (dynamic dispatch) `TACTICS_ORDER` |

All equalities are pointwise equalities of monadic results (values and error kinds).  `proofs/CompoundGenBase.v`
holds the instance and the loop "shape" lemmas (they quantify over the loop body and ask for its behaviour
pointwise, so the proofs do not depend on names or let-structure); `proofs/CompoundGenFacts.v` restates the eleven
compound obligations and prints their assumptions.

## 3. Python semantics that are approximated (each is also an `assumption:` line of the translator)

* the term-list type is abstract; a `NestedTermList` object is the list in its only field; `copy()` of a `List[Var]`
  is the identity (value model), `copy()` of a term list is the primitive `tl_copy` (NOT the identity);
* `isinstance(other, type(self))` guards dropped (typed model); exception messages dropped after checking that they
  are built from total operations, exception TYPES kept (`ValueError` -> `ValueErr`; `raise ValueError from e`
  raises `ValueErr`, the cause chain is not modelled); `except ValueError` also catches `IncompatibleArgsError`
  (`is_value_error`, class hierarchy read by the first generator);
* `l.append(x)` on a list built by the same function (checked: `[]` / comprehension / list function, no second
  name, not passed to a call) is the rebinding `l := l ++ [x]`; names first bound inside a loop body or a branch
  are local to it (a later use is rejected, not modelled);
* `type(self)(...)` is the constructor of the base class (checked: `NestedPolyhedra.__init__` only delegates,
  `PolyhedralIoContractCompound` overrides nothing that is translated);
* `Var(x)` is the identity on names (`Var.__init__` stores `str(x)`, `str` of a `Var` is its name), a `set` of
  `str` is a list (only `in` is applied to it); ints are `nat` (only literals >= 0, `+` and comparisons: `-` is
  rejected);
* method resolution: `super().compose(...)` runs `IoContract.compose`, whose `self.compose_tactics(...)` is the
  override of `PolyhedralIoContract` (confirmed on the real library); the translator re-translates
  `IoContract.compose` / `IoContract.quotient` with that resolution (`PolyhedralIoContract_super_compose`, `_super_quotient`);
* `get_variable_bounds` is generic in an abstract `optimize` (section variable); `logging.debug` and docstrings ignored.

## 4. Discrepancies between the hand models and the Python source

None: all eleven compound functions and the three wrappers that have a hand model are equal to it on EVERY input
(no well-formedness hypothesis).  One thing worth knowing, not a defect of a hand model: the generic translation
`gen/AlgebraGen.v:IoContract_compose` / `IoContract_quotient` resolves `self.compose_tactics` statically and therefore
passes the tactic order `[]` (what `IoContract.compose_tactics` substitutes for `None`), whereas on a
`PolyhedralIoContract` object Python dispatches to the override and the order is the module's `TACTICS_ORDER`
(`wrap_compose_not_static`).  `model/PolyDomain.v` only defines the `*_tactics` forms, with the right default, so no
existing theorem is affected; but `@IoContract_compose (poly_domain O)` must not be used as a model of
`PolyhedralIoContract.compose` — use `PolyhedralIoContract_compose` / `wrap_compose_eq`.

## 5. Sensitivity experiment

Each row below is one edit of the Python source applied to a scratch copy of `/repo/src`; the translator is run into
a scratch copy of `coq/` and `proofs/CompoundGenFacts.vo proofs/WrapGenFacts.vo` are rebuilt with `make -k` (every
`coqc` under `timeout 600`).  A *semantic* edit must be rejected by the translator (fail closed) or break an
equality proof; a *harmless* rewrite must still translate and prove.  The outcome names every theorem whose proof
script stops compiling (with `make -k`, files that depend on a broken file are not attempted) and says whether the
generated text (sha line excluded) differs from the one generated from the unmodified source.

"""


def main(verif, repo, scratch, report=None, keep=False):
    if os.path.exists(scratch):
        shutil.rmtree(scratch)
    os.makedirs(scratch)
    coq = os.path.join(scratch, "coq")
    shutil.copytree(os.path.join(verif, "coq"), coq, ignore=shutil.ignore_patterns("cases"), copy_function=shutil.copy2)
    # copytree keeps mtimes of files (copy2), so `make` only rebuilds what the translator rewrites
    orig = {rel: open(os.path.join(repo, rel)).read() for rel in (CMP, WRP)}
    rows = []
    baseline = {}      # generated text for the unmodified source

    def run(ident, kind, rel, desc, pairs):
        tree = os.path.join(scratch, "repo")
        if os.path.exists(tree):
            shutil.rmtree(tree)
        shutil.copytree(os.path.join(repo, "src"), os.path.join(tree, "src"))
        if ident != "ORIG":
            text = apply_edit(orig[rel], ident, pairs)
            with open(os.path.join(tree, rel), "w") as fh:
                fh.write(text)
            rc, out = sh([PY, "-c", f"import ast; ast.parse(open({os.path.join(tree, rel)!r}).read())"])
            assert rc == 0, out
        def gen_text(f):     # generated text without the sha256 line of the header
            return "".join(l for l in open(os.path.join(coq, "gen", f)) if "sha256" not in l)
        rc, out = sh([PY, os.path.join(verif, "translator", "py2coq.py"), tree, os.path.join(coq, "gen")])
        msg = [l for l in out.splitlines() if l.startswith("TRANSLATOR-UNSUPPORTED")]
        if rc != 0 or msg:
            # fail closed: the translator replaces the rejected output file by a stub that does not compile, so
            # every obligation that depends on it stops checking (older versions exited with status 3 instead)
            res = ("translator rejects", (msg or [out.strip()[-200:]])[0][:240])
            passed = False
        else:
            if ident == "ORIG":
                baseline.update({f: gen_text(f) for f in ("CompoundGen.v", "WrapGen.v")})
            changed = [f for f in baseline if gen_text(f) != baseline[f]]
            rc2, log = sh(["make", "-k", "-j8", "COQC=timeout 600 coqc"] + TARGETS, cwd=coq)
            if rc2 == 0:
                res = ("translates; all equality proofs COMPILE", "")
                passed = True
            else:
                errs = all_errors(log)
                if errs:
                    names = [f"`{enclosing(os.path.join(coq, f), line)}` ({f}:{line})" for f, line, _ in errs]
                    res = ("translates; proof FAILS: " + ", ".join(names), errs[0][2])
                else:
                    res = ("translates; build FAILS", log.strip()[-200:])
                passed = False
            res = (res[0] + (f" [generated text differs from the original's: {', '.join(sorted(changed))}]" if changed else ""), res[1])
        ok = (passed == (kind in ("harmless", "original")))
        rows.append((ident, kind, os.path.basename(rel) if rel else "", desc, res[0], res[1], ok))
        print(f"{ident} [{kind}] {desc}\n    -> {res[0]} {res[1]}\n    {'as expected' if ok else 'UNEXPECTED'}", flush=True)

    run("ORIG", "original", None, "unmodified /repo/src", None)
    for ident, kind, rel, desc, pairs in EDITS:
        run(ident, kind, rel, desc, pairs)
    run("ORIG", "original", None, "unmodified /repo/src again (after all edits)", None)
    bad = [r for r in rows if not r[6]]
    if report:
        with open(report, "w") as fh:
            fh.write(PREAMBLE)
            sem = [r for r in rows if r[1] == "semantic"]
            fh.write(f"Summary: {len(sem)} semantic edits — {sum('proof FAILS' in r[4] for r in sem)} break an equality "
                     f"proof, {sum('translator rejects' in r[4] for r in sem)} are rejected by the translator, "
                     f"{sum('COMPILE' in r[4] for r in sem)} pass unnoticed; "
                     f"{sum(r[1] == 'harmless' for r in rows)} harmless rewrites — "
                     f"{sum(r[1] == 'harmless' and 'COMPILE' in r[4] for r in rows)} still translate and prove.  "
                     f"Unexpected outcomes: {len(bad)}.\n\n")
            fh.write("| id | kind | file | edit | outcome | first error |\n|---|---|---|---|---|---|\n")
            for ident, kind, rel, desc, res, err, ok in rows:
                fh.write(f"| {ident} | {kind} | {rel} | {desc} | {res} | {err.replace('|', '/')} |\n")
    tree = os.path.join(scratch, "repo")
    if os.path.exists(tree):
        shutil.rmtree(tree)          # the scratch SOURCE tree is always removed
    if not keep:
        shutil.rmtree(scratch)
    print("unexpected outcomes:", len(bad))
    return 1 if bad else 0


if __name__ == "__main__":
    args = [a for a in sys.argv[1:] if a != "--keep"]
    sys.exit(main(*args, keep="--keep" in sys.argv))
