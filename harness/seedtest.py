#!/usr/bin/env python3
"""Run checks against a seeded change WITHOUT touching /repo: the change lives in a scratch git worktree of /repo
(or is given as a patch applied to a fresh worktree); the checks run from a scratch copy of /verif with
VERIF_REPO pointing at that worktree.   usage: seedtest.py <worktree-dir | patch.diff> [Cxx ...]"""
import json
import os
import shutil
import subprocess
import sys
import tempfile
from concurrent.futures import ThreadPoolExecutor

VERIF = os.path.dirname(os.path.dirname(os.path.abspath(__file__)))


def main():
    target = os.path.abspath(sys.argv[1])
    props = sys.argv[2:] or [c["property_id"] for c in json.load(open(os.path.join(VERIF, "MANIFEST.json")))["checks"]]
    made_wt = None
    if os.path.isdir(target):
        wt = target
    else:
        wt = tempfile.mkdtemp(prefix="seedwt_", dir="/tmp")
        os.rmdir(wt)
        subprocess.run(["git", "-C", "/repo", "worktree", "add", "--detach", wt, "HEAD"], check=True, capture_output=True)
        made_wt = wt
        r = subprocess.run(["git", "-C", wt, "apply", target], capture_output=True, text=True)
        if r.returncode != 0:
            print("patch does not apply:", r.stderr)
            subprocess.run(["git", "-C", "/repo", "worktree", "remove", "--force", wt])
            return 2
    sv = tempfile.mkdtemp(prefix="seedverif_", dir="/tmp")
    os.rmdir(sv)
    shutil.copytree(VERIF, sv, symlinks=True, ignore=shutil.ignore_patterns(".git", "replays", "__pycache__"))
    res = {}
    try:
        def one(p):
            env = dict(os.environ)
            env.pop("PYTHONPATH", None)
            env["VERIF_REPO"] = wt
            q = subprocess.run([os.path.join(sv, "check"), p, "--tier", "quick"], cwd=sv, capture_output=True, text=True, env=env)
            lines = [l for l in q.stdout.splitlines() if l.startswith("VIOLATION") or l.startswith("KNOWN-FINDING")]
            keys = []
            for l in lines:
                if "replay=" in l:
                    path = l.split("replay=")[1].split()[0]
                    try:
                        d = json.load(open(path))
                        keys.append(d.get("key") or ("NO-INPUT:" + str(d.get("no_longer_checks"))))
                    except Exception:
                        pass
            return p, q.returncode, keys, (q.stdout + q.stderr)[-400:]
        with ThreadPoolExecutor(max_workers=5) as ex:
            for p, rc, keys, tail in ex.map(one, props):
                res[p] = {"exit": rc, "keys": keys}
                print(p, "exit", rc, keys[:3] if rc else "", flush=True)
                if rc not in (0, 1):
                    print("   ", tail)
    finally:
        shutil.rmtree(sv, ignore_errors=True)
        if made_wt:
            subprocess.run(["git", "-C", "/repo", "worktree", "remove", "--force", made_wt])
    print("CAUGHT BY:", {p: v["keys"][:2] for p, v in res.items() if v["exit"] != 0})
    print(json.dumps(res))
    return 0


if __name__ == "__main__":
    sys.exit(main())
