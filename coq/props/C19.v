(* C19 — equality, hashing and copying of terms, lists and contracts are coherent.  Contract equality is the T1 translation of
   IoContract.__eq__ (regenerated on every run: it compares the four fields, the OTHER contract's outputs included); term
   equality/keys from model/Term.v; hash(x) = H(key x) for an arbitrary H.  Statements only; proofs in proofs/EqFacts.v,
   proofs/TermFacts.v. *)
From Coq Require Import List String Bool QArith Reals.
Import ListNotations.
Require Import Py ListsGen ConstGen AlgebraGen AlgebraSpec IfaceSpec Sem Term Poly Tactics PolyDomain PolySpec TermFacts PolyFacts TacticsFacts PolyDomainFacts EqFacts PolyKeepFacts.
Require Import PyDict TermGen TermGenCore.

(* equal iff input lists, output lists, assumptions and guarantees are all equal (any domain) *)
Theorem C19_contract_eq_fields :
  forall (D : Domain) (c d : contract),
       IoContract_eq c d = true <->
       py_eqb (c_inputvars c) (c_inputvars d) = true /\
       py_eqb (c_outputvars c) (c_outputvars d) = true /\
       TermList_eq (c_a c) (c_a d) = true /\ TermList_eq (c_g c) (c_g d) = true.
Proof. exact @IoContract_eq_iff. Qed.
Print Assumptions C19_contract_eq_fields.

(* reflexive *)
Theorem C19_contract_eq_refl :
  forall (O : oracle) (c : pcontract O), wfc_t O c -> IoContract_eq c c = true.
Proof. exact @pcontract_eq_refl. Qed.
Print Assumptions C19_contract_eq_refl.

(* symmetric *)
Theorem C19_contract_eq_sym :
  forall (O : oracle) (c d : pcontract O),
       wfc_t O c -> wfc_t O d -> IoContract_eq c d = IoContract_eq d c.
Proof. exact @pcontract_eq_sym. Qed.
Print Assumptions C19_contract_eq_sym.

(* transitive *)
Theorem C19_contract_eq_trans :
  forall (O : oracle) (c d e : pcontract O),
       wfc_t O c ->
       wfc_t O d ->
       wfc_t O e -> IoContract_eq c d = true -> IoContract_eq d e = true -> IoContract_eq c e = true.
Proof. exact @pcontract_eq_trans. Qed.
Print Assumptions C19_contract_eq_trans.

(* equal contracts have equal hash keys *)
Theorem C19_contract_eq_hash :
  forall (O : oracle) (c d : pcontract O),
       wfc_t O c ->
       wfc_t O d ->
       IoContract_eq c d = true ->
       let
       '(i1, o1, a1, g1) := IoContract_hash_key c in
        let
        '(i2, o2, a2, g2) := IoContract_hash_key d in
         i1 = i2 /\ o1 = o2 /\ keys_agree a1 a2 /\ keys_agree g1 g2.
Proof. exact @pcontract_eq_hash. Qed.
Print Assumptions C19_contract_eq_hash.

(* term equality symmetric *)
Theorem C19_term_eq_sym :
  forall t1 t2 : pterm, wft t1 -> wft t2 -> term_eqb_p t1 t2 = term_eqb_p t2 t1.
Proof. exact @term_eqb_sym. Qed.
Print Assumptions C19_term_eq_sym.

(* term equality transitive *)
Theorem C19_term_eq_trans :
  forall t1 t2 t3 : pterm,
       wft t1 ->
       wft t2 -> wft t3 -> term_eqb_p t1 t2 = true -> term_eqb_p t2 t3 = true -> term_eqb_p t1 t3 = true.
Proof. exact @term_eqb_trans. Qed.
Print Assumptions C19_term_eq_trans.

(* equal terms have equal keys (hash equally) *)
Theorem C19_term_eq_key :
  forall t1 t2 : pterm,
       wft t1 -> wft t2 -> term_eqb_p t1 t2 = true -> key_eqb (term_key t1) (term_key t2) = true.
Proof. exact @term_eqb_key. Qed.
Print Assumptions C19_term_eq_key.

(* a copy of a term is equal to (and is) its original *)
Theorem C19_term_copy :
  forall t : pterm, wft' t -> term_eqb_p (term_copy t) t = true /\ term_copy t = t.
Proof. exact @term_copy_eq. Qed.
Print Assumptions C19_term_copy.

(* T1 tie: PolyhedralTerm.__eq__ as translated from polyhedra.py on this run IS the model's term equality *)
Theorem C19_code_term_eq :
  forall t1 t2 : pterm, PolyhedralTerm_eq t1 t2 = ret (term_eqb_p t1 t2).
Proof. exact @eq_eq. Qed.
Print Assumptions C19_code_term_eq.

(* T1 tie: PolyhedralTerm.copy as translated from polyhedra.py on this run IS the model's copy *)
Theorem C19_code_term_copy :
  forall t : pterm, wft t -> PolyhedralTerm_copy t = term_copy t.
Proof. exact @copy_eq. Qed.
Print Assumptions C19_code_term_copy.

(* T1 tie: the constructor (drops zero coefficients) as translated IS mk_term *)
Theorem C19_code_term_init :
  forall (vs : pvars) (c : Q), NoDup (keys vs) -> PolyhedralTerm_init vs c = mk_term vs c.
Proof. exact @init_eq. Qed.
Print Assumptions C19_code_term_init.

(* equal lists have equal key lists *)
Theorem C19_list_eq_keys :
  forall l1 l2 : list pterm,
       Forall wft l1 -> Forall wft l2 -> tlist_eqb l1 l2 = true -> keys_agree l1 l2.
Proof. exact @tlist_eqb_keys. Qed.
Print Assumptions C19_list_eq_keys.

(* a copy has the same interface and assumptions and the re-simplified guarantees *)
Theorem C19_contract_copy :
  forall (O : oracle) (c c' : pcontract O),
       poly_copy O c = inl c' ->
       c_inputvars c' = c_inputvars c /\
       c_outputvars c' = c_outputvars c /\
       c_a c' = c_a c /\ poly_simplify O (c_g c) (Some (c_a c)) = inl (c_g c').
Proof. exact @pcontract_copy_inv. Qed.
Print Assumptions C19_contract_copy.

