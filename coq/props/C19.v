(* C19 — placeholder until proofs/PolyDomainFacts.v lands. *)
From Coq Require Import List. Import ListNotations.
Require Import Py Sem Term Poly Tactics PolyDomain.
Example C19_model_runs : poly_order (Some [2%nat]) = Some [2%nat].
Proof. reflexivity. Qed.
