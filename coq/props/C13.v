(* C13 — operations are pure: operands unchanged, results independent of history.
   What a Gallina model can carry: a session machine over a shared pool (model/Session.v) whose steps are
   interpreted by the value-level models; by induction over operation lists of ANY length, no step changes
   an existing pool member or the module-level state, and the result of a step depends only on the values
   of its arguments.  These are near-definitional for a functional model (PARTIAL): object identity and
   aliasing in CPython are outside any model available here; violations are detected by lock-step
   histories on the real library (harness/props/c13.py).  Proofs in proofs/SessionFacts.v. *)
From Coq Require Import List String Bool.
Import ListNotations.
Require Import Py Sem Term Poly Tactics PolyDomain Session SessionFacts.

Theorem C13_frame_partial : forall O ops s i, (i < List.length (pool s))%nat ->
  nth_error (pool (run O s ops)) i = nth_error (pool s) i.
Proof. exact session_frame. Qed.
Theorem C13_globals_partial : forall O ops s, glob (run O s ops) = glob s.
Proof. exact session_globals. Qed.
Theorem C13_history_independent_partial : forall O s1 s2 o, args s1 o = args s2 o -> out O s1 o = out O s2 o.
Proof. exact session_history_independent. Qed.
Print Assumptions C13_frame_partial. Print Assumptions C13_globals_partial. Print Assumptions C13_history_independent_partial.
